"""C02 — HTTP responses are well-framed and carry exactly what the handler wrote.

Drives the real tornado.web.Application + RequestHandler (interpreting the op list) through
HTTPServer.handle_stream over a FakeIOStream; observable = raw bytes written + stream closed."""
import hashlib
import itertools
import logging

from harness import gallina as G

ID = "C02"
COQ_DIRS = ["C02", "C29"]
PROPERTY_FILE = "C02/Property.v"
RUN_IMPORTS = "From TV Require Import C02.Model C02.Client C02.Run."   # extended below with the SRV / DATE constants
RUN_FN = "run_case2"
CHECK_FN = "check_case2"
INPUT_TYPE = "input2"

VSTART = 1000000.0


# ---------------------------------------------------------------- implementation runner
def _interp(h, prog):
    for o in prog:
        k = o[0]
        if k == "S":
            h.set_status(o[1])
        elif k == "H":
            h.set_header(o[1], o[2])
        elif k == "A":
            h.add_header(o[1], o[2])
        elif k == "C":
            h.clear_header(o[1])
        elif k == "W":
            h.write(o[1].encode("latin-1"))
        elif k == "F":
            h.flush()
        elif k == "X":
            h.finish()
        else:
            raise AssertionError(k)


_quiet = []


def quiet_logs():
    if not _quiet:
        for n in ("tornado.access", "tornado.application", "tornado.general"):
            lg = logging.getLogger(n)
            lg.setLevel(logging.CRITICAL + 10)
            lg.propagate = False
            lg.addHandler(logging.NullHandler())
        _quiet.append(1)


def make_app(prog, early, compress=False):
    from tornado.web import Application, RequestHandler, stream_request_body

    class H(RequestHandler):
        def get(self):
            _interp(self, prog)
        head = post = get

    @stream_request_body
    class E(RequestHandler):
        def prepare(self):
            if early:
                _interp(self, prog)

        def data_received(self, d):
            pass

        def get(self):
            if not early:
                _interp(self, prog)
        head = post = get

    class Second(RequestHandler):
        def get(self):
            self.write(b"2")

    return Application([("/", H), ("/e", E), ("/second", Second)], compress_response=bool(compress))


def request_bytes(case):
    path = "/e" if case["early"] else "/"
    lines = ["%s %s HTTP/%s" % (case["meth"], path, case["ver"])]
    if case["ver"] == "1.1":
        lines.append("Host: h")
    if case["conn"] is not None:
        lines.append("Connection: " + case["conn"])
    if case["inm"] is not None:
        lines.append("If-None-Match: " + case["inm"])
    if case.get("comp") not in (None, "-"):
        lines.append("Accept-Encoding: " + case["comp"])
    body = b""
    if case["body"] == "cl":
        lines.append("Content-Length: 3")
        body = b"abc"
    elif case["body"] == "chunked":
        lines.append("Transfer-Encoding: chunked")
        body = b"3\r\nabc\r\n0\r\n\r\n"
    return ("\r\n".join(lines) + "\r\n\r\n").encode("latin-1"), body


LOOP_ERRORS = []
SECOND = b"GET /second HTTP/1.1\r\nHost: h\r\nConnection: close\r\n\r\n"


def _stream_class():
    import errno
    from harness.fake_iostream import FakeIOStream

    class BlockableStream(FakeIOStream):
        """FakeIOStream whose transport can refuse everything (EWOULDBLOCK) until the harness unblocks it."""
        blocked = False

        def write_to_fd(self, data):
            if self.blocked:
                self.write_calls.append(len(data))
                raise BlockingIOError(errno.EWOULDBLOCK, "transport blocked by the harness")
            return super().write_to_fd(data)
    return BlockableStream


def drive(case, second=False, pipelined=False, split_body=False):
    """Returns list of (bytes sent since last step, closed) after each step.
    wmode "sync": every write completes at once.  "after" / "before": the transport is blocked when the request
    head arrives and is unblocked after / before the rest of the request (its body) has arrived."""
    from tornado.httpserver import HTTPServer
    from harness.vclock import run_virtual, settle
    quiet_logs()
    head, body = request_bytes(case)
    wmode = case.get("wmode", "sync")
    UNBLOCK = object()
    if wmode == "sync":
        if pipelined:
            steps = [[head + body + SECOND]]
        else:
            steps = [[head, body] if (split_body and body) else [head + body]] + ([[SECOND]] if second else [])
    else:
        first = [head] + ([body, UNBLOCK] if wmode == "after" else [UNBLOCK, body])
        steps = [first] + ([[SECOND]] if second else [])

    async def scenario(loop):
        # callbacks that raise inside the event loop are recorded, not printed (see NOTES.md: a completed
        # _write_future is completed again by _on_write_complete after a write on a closed stream)
        loop.set_exception_handler(lambda lp, ctx: LOOP_ERRORS.append(type(ctx.get("exception")).__name__))
        srv = HTTPServer(make_app(case["prog"], case["early"], case.get("comp") is not None), no_keep_alive=case["nka"])
        s = _stream_class()()
        s.blocked = wmode != "sync"
        srv.handle_stream(s, ("1.2.3.4", 5))
        await settle(2)
        out = []
        for group in steps:
            for seg in group:
                if seg is UNBLOCK:
                    s.blocked = False
                    s.notify_write()
                elif seg:
                    s.feed(seg)
                await settle(12)
            out.append((s.take_sent(), s.closed()))
        return out
    if case.get("comp") is None:
        return run_virtual(scenario, start=VSTART)
    # compress_response: tornado.web's gzip.GzipFile is replaced by the toy framing codec of the C29 model
    import types
    import tornado.web as W
    from harness.props.c29 import ToyGzipFile
    saved = W.gzip
    W.gzip = types.SimpleNamespace(GzipFile=ToyGzipFile)
    try:
        return run_virtual(scenario, start=VSTART)
    finally:
        W.gzip = saved


def project(wire, closed):
    """status, Content-Length / Content-Encoding / Transfer-Encoding / Vary field values, de-chunked body, closed"""
    if not wire:
        return G.Tag("NoHeaders")
    head, sep, rest = wire.partition(b"\r\n\r\n")
    lines = head.split(b"\r\n")
    if not sep or not lines[0].startswith(b"HTTP/1.1 "):
        return G.Tag("Garbage")
    status = int(lines[0][9:12])
    fields = {}
    for ln in lines[1:]:
        n, _, v = ln.partition(b": ")
        fields.setdefault(n.lower(), []).append(v.decode("latin-1"))
    te = fields.get(b"transfer-encoding", [])
    body = rest
    if te == ["chunked"]:
        body, pos = b"", 0
        while True:
            eol = rest.index(b"\r\n", pos)
            n = int(rest[pos:eol], 16)
            if n == 0:
                break
            body += rest[eol + 2:eol + 2 + n]
            pos = eol + 2 + n + 2
    if status == 500:
        return G.Tag("AssertionError")        # compress cases never set 500 themselves
    return [status, fields.get(b"content-length", []), fields.get(b"content-encoding", []), te,
            fields.get(b"vary", []), body, closed]


def run_impl(case):
    if case.get("comp") is None:
        out = drive(case)
        return [b"".join(o[0] for o in out), out[-1][1]]
    res = []
    for c in (case, dict(case, meth="GET")):
        out = drive(c)
        res.append(project(b"".join(o[0] for o in out), out[-1][1]))
    return res


# ---------------------------------------------------------------- Gallina rendering
def env_values():
    import tornado
    from tornado import httputil
    return ("TornadoServer/%s" % tornado.version).encode(), httputil.format_timestamp(VSTART).encode()


def lb(s):
    """bytes / latin-1 str -> Gallina bytes; printable ASCII goes through the string notation (much cheaper for coqc)"""
    x = [ord(c) for c in s] if isinstance(s, str) else list(s)
    if x and all(32 <= c < 127 and c != 34 for c in x):
        return '(b "%s")' % "".join(map(chr, x))
    return G.gbytes(s)


def gop(o):
    k = o[0]
    if k == "W" and len(o[1]) > 200 and len(set(o[1])) == 1:
        return "Write (repeat %s %s)" % (G.gn(ord(o[1][0])), G.gnat(len(o[1])))
    if k == "S":
        return "Status %s" % G.gn(o[1])
    if k == "H":
        return "SetH %s %s" % (lb(o[1]), lb(o[2]))
    if k == "A":
        return "AddH %s %s" % (lb(o[1]), lb(o[2]))
    if k == "C":
        return "ClearH %s" % lb(o[1])
    if k == "W":
        return "Write %s" % lb(o[1])
    return {"F": "Flush", "X": "Finish"}[k]


def sha_table(prog):
    """the only digest RequestHandler.finish can need: the buffer at the first flush/finish (or at the end);
    a lookup the model makes outside this table yields a sentinel and so a correspondence mismatch"""
    acc = b""
    for o in prog:
        if o[0] in ("F", "X"):
            break
        if o[0] == "W":
            acc += o[1].encode("latin-1")
    return "[(%s, %s)]" % (lb(acc), lb(hashlib.sha1(acc).hexdigest()))


def greq(case):
    return "(mkReq %s %s %s %s %s %s %s %s)" % (
        case["meth"], {"1.0": "V10", "1.1": "V11"}[case["ver"]],
        G.goption(case["conn"], lb, "bytes"), G.goption(case["inm"], lb, "bytes"),
        {"none": "NoBody", "cl": "BodyCL", "chunked": "BodyChunked"}[case["body"]],
        G.gbool(case["nka"]), G.gbool(case["early"]),
        {"sync": "WSync", "after": "WAfterBody", "before": "WBeforeBody"}[case.get("wmode", "sync")])


def coq_input(case):
    srv, date = env_values()
    comp = case.get("comp")
    gcomp = "(@None (option bytes))" if comp is None else "(Some %s)" % G.goption(None if comp == "-" else comp, lb, "bytes")
    return "(((SRV, DATE, %s), %s, %s), %s)" % (sha_table(case["prog"]), greq(case), G.glist([gop(o) for o in case["prog"]], "op"), gcomp)


def _preamble():
    srv, date = env_values()
    return "Definition SRV : bytes := %s. Definition DATE : bytes := %s." % (lb(srv), lb(date))


RUN_IMPORTS = RUN_IMPORTS + " " + _preamble()


# ---------------------------------------------------------------- generator
def mk(meth="GET", ver="1.1", conn=None, inm=None, body="none", nka=False, early=False, prog=(), wmode="sync", comp=None):
    """comp: None = no output transform; "gzip"/"identity"/... = compress_response=True with that Accept-Encoding;
    "-" = compress_response=True without an Accept-Encoding header"""
    return {"meth": meth, "ver": ver, "conn": conn, "inm": inm, "body": body, "nka": nka, "early": early,
            "prog": [list(o) for o in prog], "wmode": wmode, "comp": comp}


COMP_PROGS = [
    [("W", "hello")],
    [("W", "hello"), ("F",)],
    [("W", "hello"), ("F",), ("W", "world")],
    [("F",), ("W", "hello")],
    [("S", 404), ("W", "nf"), ("F",)],
    [("H", "Content-Type", "image/png"), ("W", "hello"), ("F",)],
    [("H", "Content-Type", "application/json; charset=UTF-8"), ("W", "{}"), ("F",), ("W", "\xff")],
    [("H", "Content-Encoding", "br"), ("W", "hello"), ("F",)],
    [("A", "Vary", "Cookie"), ("W", "hello")],
    [("S", 204)],
    [("S", 304), ("F",)],
    [],
]


def compress_cases(tier):
    """the output-transform dimension: compress_response on x Accept-Encoding x HEAD/GET x version x body sizes
    around GZipContentEncoding.MIN_LENGTH x flush before finish"""
    out = []
    vers = [("1.1", None), ("1.0", "keep-alive")] if tier == "quick" else [("1.1", None), ("1.1", "close"), ("1.0", "keep-alive"), ("1.0", None)]
    aes = ["gzip", "-"] if tier == "quick" else ["gzip", "-", "identity", "deflate, gzip"]
    for meth in ("HEAD", "GET"):
        for ver, conn in vers:
            for ae in aes:
                for prog in COMP_PROGS:
                    out.append(mk(meth, ver, conn, prog=prog, comp=ae))
            for n in ((1023, 1024) if tier == "quick" else (1023, 1024, 1025, 1100)):
                out.append(mk(meth, ver, conn, prog=[("W", "A" * n)], comp="gzip"))
                if tier != "quick":
                    out.append(mk(meth, ver, conn, prog=[("W", "A" * (n - 1000)), ("W", "B" * 1000)], comp="gzip"))
    return out


def case_from_json(c):
    return c


def etag_of(prog):
    acc = b""
    for o in prog:
        if o[0] in ("F", "X"):
            break
        if o[0] == "W":
            acc += o[1].encode("latin-1")
    return '"%s"' % hashlib.sha1(acc).hexdigest()


CHUNKS = ["", "x", "hello", "0\r\n\r\n", "\r\n", "A" * 16, "\xff\x00\x80"]
STATUSES = [200, 200, 204, 304, 404, 500, 201, 206, 301, 599, 299]
NAMES = ["X-A", "x-a", "X-B", "Content-Type", "content-language", "Set-Cookie", "Content-Encoding", "Connection",
         "Cache-Control"]
VALUES = ["v", "1", "a b", "text/plain", "close", "\xe9", "", "a,b"]


def rand_header_op(rng, prog_len_hint=0):
    r = rng.random()
    if r < 0.12:
        return ("H", "Content-Length", rng.choice(["0", "1", "2", "5", "6", "10", "007"]))
    if r < 0.16:
        return ("H", "Etag", rng.choice(['"abc"', 'W/"x"']))
    if r < 0.19:   # rejected / odd inputs
        return rng.choice([("H", "Bad Name", "v"), ("H", "X\r\nY", "v"), ("H", "", "v"), ("H", "Content-Length", "abc"), ("A", "Content-Length", "1"),
                           ("H", "X-A", "bad\nvalue"), ("H", "X-A", "nul\x00"), ("A", "X-A", " lead"), ("A", "X-A", "trail "),
                           ("A", "Bad Name", "v"), ("H", "X-A", "tab\tok"), ("A", "X-A", "Ā")])
    k = rng.choice(["H", "H", "A", "C"])
    n = rng.choice(NAMES)
    if k == "C":
        return ("C", n)
    return (k, n, rng.choice(VALUES))


def rand_prog(rng, maxlen=8, soup=False):
    n = rng.randrange(0, maxlen + 1)
    prog = []
    for _ in range(n):
        r = rng.random()
        if soup:
            r = rng.random()
            if r < 0.2:
                prog.append(("S", rng.choice(STATUSES)))
            elif r < 0.4:
                prog.append(rand_header_op(rng))
            elif r < 0.65:
                prog.append(("W", rng.choice(CHUNKS)))
            elif r < 0.85:
                prog.append(("F",))
            else:
                prog.append(("X",))
        else:
            if r < 0.15:
                prog.append(("S", rng.choice(STATUSES)))
            elif r < 0.35:
                prog.append(rand_header_op(rng))
            elif r < 0.70:
                prog.append(("W", rng.choice(CHUNKS)))
            elif r < 0.90:
                prog.append(("F",))
            else:
                prog.append(("X",))
    if rng.random() < 0.15:   # a consistent or off-by-one handler-set Content-Length
        total = sum(len(o[1]) for o in prog if o[0] == "W")
        prog.insert(0, ("H", "Content-Length", str(max(0, total + rng.choice([0, 0, 0, 1, -1])))))
    return prog


VERCONN = [("1.1", None), ("1.1", None), ("1.1", "close"), ("1.1", "Keep-Alive"), ("1.0", None), ("1.0", "keep-alive"),
           ("1.0", "Keep-Alive"), ("1.0", "close"), ("1.1", "upgrade")]


def rand_inm(rng, prog):
    r = rng.random()
    if r < 0.45:
        return None
    et = etag_of(prog)
    return rng.choice([et, et, "*", "W/" + et, '"nomatch"', '"a", ' + et, 'W/"b",W/' + et, et[:-1], '"unterminated', "", 'xx' + et + 'yy'])


def rand_case(rng, soup=False):
    prog = rand_prog(rng, soup=soup)
    ver, conn = rng.choice(VERCONN)
    meth = rng.choice(["GET", "GET", "HEAD", "POST"])
    body = "none"
    if meth == "POST":
        body = rng.choice(["cl", "cl", "chunked", "none"])
    elif rng.random() < 0.1:
        body = "cl"
    wmode = "sync" if rng.random() < 0.75 else rng.choice(["after", "before"])
    return mk(meth, ver, conn, rand_inm(rng, prog), body, rng.random() < 0.08, rng.random() < 0.08, prog, wmode)


SMALL_OPS = [("S", 204), ("S", 304), ("S", 404), ("W", "x"), ("W", ""), ("F",), ("X",), ("H", "Content-Length", "1"),
             ("H", "X-A", "v")]
SMALL_REQ = [("GET", "1.1", None), ("HEAD", "1.1", None), ("GET", "1.0", "keep-alive"), ("GET", "1.0", None), ("POST", "1.1", "close"),
             ("HEAD", "1.0", "keep-alive")]


def gen_cases(rng, tier):
    out = []
    if tier == "quick":
        # all programs of length <= 2 over the small alphabet, for the main request shapes
        for L in range(0, 3):
            for prog in itertools.product(SMALL_OPS, repeat=L):
                for (m, v, c) in SMALL_REQ[:3]:
                    out.append(mk(m, v, c, None, "cl" if m == "POST" else "none", False, False, prog))
        out += compress_cases(tier)
        for _ in range(500):
            out.append(rand_case(rng))
        for _ in range(150):
            out.append(rand_case(rng, soup=True))
    else:
        for L in range(0, 4):
            for prog in itertools.product(SMALL_OPS, repeat=L):
                for (m, v, c) in SMALL_REQ:
                    out.append(mk(m, v, c, None, "cl" if m == "POST" else "none", False, False, prog))
        for prog in itertools.product([("S", 204), ("W", "x"), ("W", ""), ("F",), ("X",), ("H", "Content-Length", "1")], repeat=4):
            for (m, v, c) in SMALL_REQ[:3]:
                out.append(mk(m, v, c, None, "none", False, False, prog))
        out += compress_cases(tier)
        for _ in range(2500):
            out.append(rand_case(rng))
        for _ in range(1500):
            out.append(rand_case(rng, soup=True))
    return out


def corpus_cases():
    return [
        # DESIGN section 8 witness (fixed by 68ff8f6): HTTP/1.0 keep-alive + flush before finish
        mk("GET", "1.0", "keep-alive", prog=[("W", "x"), ("F",), ("W", "y")]),
        mk("GET", "1.0", "Keep-Alive", prog=[("F",), ("W", "abc"), ("X",)]),
        mk("GET", "1.1", None, prog=[("W", "x"), ("F",), ("W", ""), ("F",), ("W", "yz")]),
        mk("HEAD", "1.1", None, prog=[("W", "x"), ("W", "yz")]),
        mk("HEAD", "1.1", None, prog=[("W", "x"), ("F",), ("W", "yz")]),
        mk("GET", "1.1", None, inm='"356a192b7913b04c54574d18c28d46e6395428ab"', prog=[("W", "1")]),
        mk("GET", "1.1", None, inm="*", prog=[("W", "1")]),
        mk("GET", "1.1", None, prog=[("S", 204), ("W", "")]),
        mk("GET", "1.1", None, prog=[("S", 304), ("W", "x"), ("F",)]),
        mk("GET", "1.1", None, prog=[("H", "Content-Length", "1"), ("W", "xyz")]),
        mk("GET", "1.1", None, prog=[("H", "Content-Length", "5"), ("W", "xyz")]),
        mk("GET", "1.1", None, prog=[("H", "Content-Length", "3"), ("W", "x"), ("F",), ("W", "yz")]),
        mk("GET", "1.1", None, prog=[("W", "x"), ("X",), ("W", "y"), ("F",), ("X",)]),
        mk("POST", "1.1", None, body="chunked", prog=[("S", 404), ("W", "nf")]),
        mk("GET", "1.1", None, prog=[("H", "X-A", "bad\nvalue"), ("W", "x")]),
        mk("GET", "1.1", None, prog=[("W", "x"), ("F",), ("H", "X-A", "bad\nvalue")]),
        # suspected defects reported in NOTES.md
        mk("GET", "1.1", None, prog=[("S", 204), ("W", "x"), ("F",)]),
        # blocked transport: a Content-Length guard abort discards the unsent header block
        mk("GET", "1.1", None, prog=[("H", "Content-Length", "3"), ("W", "x"), ("F",), ("W", "yzw")], wmode="after"),
        mk("POST", "1.1", None, body="cl", prog=[("H", "Content-Length", "3"), ("W", "x"), ("F",), ("W", "yzw")], wmode="before"),
        mk("POST", "1.1", None, body="cl", early=True, prog=[("H", "Content-Length", "3"), ("W", "x"), ("F",)], wmode="before"),
        mk("POST", "1.1", None, body="cl", early=True, prog=[("H", "Content-Length", "3"), ("W", "x"), ("F",)], wmode="after"),
        mk("GET", "1.1", None, prog=[("W", "x"), ("F",), ("W", "y")], wmode="after"),
        # output transform: HEAD must advertise what GET sends (seeded change C02_3)
        mk("HEAD", "1.1", None, prog=[("W", "A" * 1024)], comp="gzip"),
        mk("HEAD", "1.1", None, prog=[("W", "hello"), ("F",), ("W", "world")], comp="gzip"),
        mk("GET", "1.1", None, prog=[("H", "Bad Name", "v"), ("F",)]),
        mk("GET", "1.1", None, prog=[("H", "Content-Length", "abc"), ("W", "x")]),
    ]


# ---------------------------------------------------------------- evidence helpers
def nontrivial(case, o):
    if not case["prog"]:
        return None
    return G.jsonable(case)


def classify(case, o):
    yield "meth=" + case["meth"]
    yield "ver=" + case["ver"] + ("+" + case["conn"].lower() if case["conn"] else "")
    p = case["prog"]
    ks = [x[0] for x in p]
    yield "len=%d" % len(p)
    yield "writes=" + case.get("wmode", "sync")
    yield "compress_response=" + ("off" if case.get("comp") is None else "on/" + case["comp"])
    if "F" in ks:
        yield "has-flush"
    if "X" in ks:
        yield "has-finish"
    if case["inm"] is not None:
        yield "if-none-match"
    if case.get("comp") is None and isinstance(o, list) and len(o) == 2 and isinstance(o[0], bytes):
        w = o[0]
        yield "status=" + (w[9:12].decode("latin-1") if w.startswith(b"HTTP/1.1 ") else "none")
        yield "framing=" + ("chunked" if b"\r\nTransfer-Encoding: chunked\r\n" in w.split(b"\r\n\r\n")[0] + b"\r\n"
                            else "length" if b"\r\nContent-Length:" in w.split(b"\r\n\r\n")[0] else "none")
        yield "closed=%s" % o[1]


def probe(case):
    """Re-run the case with HTTP1Connection instrumented: did write_headers raise ValueError (after
    RequestHandler.flush had set _headers_written)?  did HTTP1Connection.finish run before the request body
    was read?  Only used to name known findings."""
    from tornado.http1connection import HTTP1Connection
    seen = {"wh_raised": False, "early_fin": False}
    orig_wh, orig_fin = HTTP1Connection.write_headers, HTTP1Connection.finish

    def wh(self, *a, **k):
        try:
            return orig_wh(self, *a, **k)
        except ValueError:
            seen["wh_raised"] = True
            raise

    def fin(self, *a, **k):
        if not self.is_client and not self._read_finished:
            seen["early_fin"] = True
        return orig_fin(self, *a, **k)
    HTTP1Connection.write_headers, HTTP1Connection.finish = wh, fin
    try:
        drive(case)
    finally:
        HTTP1Connection.write_headers, HTTP1Connection.finish = orig_wh, orig_fin
    return seen


def signature(case, o):
    try:
        pr = probe(case)
    except Exception:
        return "probe-failed"
    if pr["wh_raised"]:
        return "write-headers-raised"
    return "other"


def shrink(case):
    p = case["prog"]
    for i in range(len(p)):
        yield dict(case, prog=p[:i] + p[i + 1:])
    for i, o in enumerate(p):
        if o[0] == "W" and len(o[1]) > 1:
            yield dict(case, prog=p[:i] + [["W", o[1][:1]]] + p[i + 1:])
    if case["inm"] is not None:
        yield dict(case, inm=None)
    if case["conn"] is not None:
        yield dict(case, conn=None)
    if case["body"] != "none" and case["meth"] != "POST":
        yield dict(case, body="none")
    if case["nka"]:
        yield dict(case, nka=False)
    if case["early"]:
        yield dict(case, early=False)
    if case.get("wmode", "sync") != "sync":
        yield dict(case, wmode="sync")


def _selfcheck_reason_table():
    """The model's reason table is a copy of httputil.responses; fail closed if the interpreter differs."""
    import os
    import re
    from tornado import httputil
    from harness.framework import COQ
    txt = open(os.path.join(COQ, "C02", "Model.v")).read()
    rows = dict((int(k), v.replace('""', '"')) for k, v in re.findall(r'^\s*\((\d+), b "((?:[^"]|"")*)"\)', txt, re.M))
    want = dict((int(k), v) for k, v in httputil.responses.items())
    if rows != want:
        raise RuntimeError("C02/Model.v reason_table differs from httputil.responses")


def pre_build():
    _selfcheck_reason_table()


TRUSTED_BASE = [
    "harness handler that interprets the op list by calling set_status/set_header/add_header/clear_header/write/flush/finish on the real RequestHandler",
    "write completion order is explored only as: all writes complete at once, or the transport is blocked from the request head until a single unblock before/after the request body arrived (no partial sends)",
    "SHA-1 is an uninterpreted function in the theorems; the correspondence run supplies hashlib's digests as a lookup table",
    "Server/Date default header values are inputs (taken from tornado.version and the virtual clock)",
    "reason_table in Model.v is a copy of http.client.responses (checked against the interpreter by pre_build)",
]
ASSUMPTIONS = [
    "header names and values given to the handler are str with code points < 256 and names are ASCII (str.capitalize is modelled for ASCII)",
    "no output transforms (compress_response off), no cookies, default write_error, handler methods run synchronously",
    "theorems about response content assume final status codes 200..999 and that the handler does not set Transfer-Encoding itself",
]
RULE = ("all programs of length <= 2 (quick) / <= 3 (+ length 4 over a 6-op alphabet; thorough) over a small op alphabet x request shapes, plus random "
        "structured programs (<= 8 ops; statuses, header set/add/clear incl. Content-Length/Etag and rejected values, chunks incl. empty and CRLF-looking, "
        "flush, finish, ops after finish) and an unstructured op soup; GET/HEAD/POST x HTTP/1.0, 1.0+keep-alive, 1.1, 1.1+close; If-None-Match hit/miss/weak/list/garbage; "
        "distinct by canonical JSON of the case; non-trivial = non-empty program")
LEVEL_TEXT = ("Machine-checked (Coq) proof over an executable model of RequestHandler.set_status/set_header/add_header/clear_header/write/flush/finish/"
              "send_error and HTTP1Connection.write_headers/_format_chunk/write/finish: for every request shape and every handler program, unless "
              "write_headers raised (open known finding), either nothing reaches the wire and the stream is closed, or exactly one header block is "
              "emitted and HEAD/1xx/204/304 carry no body, a chunked body has Transfer-Encoding: chunked, no Content-Length and its terminator unless "
              "the stream was closed, a Content-Length is a number never exceeded and met exactly unless the stream was closed, and a body with neither "
              "is followed by close; every run ends complete, aborted-and-closed, or in the header error. The model is compared byte-for-byte with the "
              "real Application/HTTPServer over a fake stream, and the implementation's bytes are parsed by a strict client parser written in Gallina and "
              "compared with an independent reference semantics (status, body = concatenation of writes, handler headers, Content-Length = GET body length).")
LEVEL_NOTE = ("Partial: the framing theorem excludes the open finding write-headers-raised; the content statement (parsed status/headers/body = what the "
              "handler set) and the parser/renderer round trip are checked on every case but not proved. Trusted: Coq kernel/vm_compute, the hand-written "
              "model tied by correspondence only, harness handler + FakeIOStream (writes complete at once), hashlib digests supplied as a table.")
TECHNIQUE = "Coq proof (state invariants over all op sequences) + strict client parser in Gallina + differential correspondence via vm_compute"
