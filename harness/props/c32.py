"""C32 — proxy headers (xheaders) yield a valid client IP and never leak between requests.

One case = one connection served by the REAL tornado HTTPServer(xheaders=True,
trusted_downstream=...) over harness.fake_iostream (mode "wire": keep-alive / pipelined request
sequences as bytes), or ("direct") the real HTTPServer.start_request/_ProxyAdapter/
_HTTPRequestContext driven through the delegate protocol with header values that cannot be put
on the wire (NUL, code points > 255, outer blanks)."""
import asyncio
import itertools
import json
import logging
import socket
import types

from harness import gallina as G

ID = "C32"
COQ_DIRS = ["C32"]
PROPERTY_FILE = "C32/Property.v"
RUN_IMPORTS = "From TV Require Import C32.Model C32.Run."
RUN_FN = "run_case"
CHECK_FN = "check_case"
INPUT_TYPE = "input"

def pre_build():
    """regenerate Gen/C32_src.v (the bodies of _apply_xheaders/_unapply_xheaders, the is_valid_ip guard and the
    _ProxyAdapter call sequences) from the working tree; fails closed"""
    import importlib
    import os
    import sys
    from harness.framework import REPO, COQ
    sys.path.insert(0, os.path.join(os.path.dirname(COQ), "translators"))
    import c32_src
    importlib.reload(c32_src)
    c32_src.emit(REPO, os.path.join(COQ, "Gen", "C32_src.v"))


CANON = {"xff": "X-Forwarded-For", "real": "X-Real-Ip", "scheme": "X-Scheme", "proto": "X-Forwarded-Proto", "conn": "Connection"}
BY_LOWER = {v.lower(): k for k, v in CANON.items()}


def kind_of(name):
    """HTTP field names are case-insensitive (independent of tornado's _normalize_header)"""
    return BY_LOWER.get(name.lower(), "other")
# how a request goes -> constructor of C32.Model.how
CLOSE_HOWS = ("body_error", "eof_body", "hdr_raise", "hdr_input_error")


def model_how(r):
    h = r["how"]
    if h == "badhead":
        return "RBadHead"
    if h == "ok":
        return "(RFinish %s)" % G.gbool(not r.get("http10"))
    if h == "finish_raise":
        return "RFinishRaises"
    if h in CLOSE_HOWS:
        return "RCloseRaises" if r.get("close_raises") else "RClose"
    raise ValueError(h)


class Boom(Exception):
    pass


# ---------------------------------------------------------------------------------------
# the OS function behind is_valid_ip, asked directly (this is the section variable `gai`)
# ---------------------------------------------------------------------------------------
_gai_cache = {}


def raw_gai(s):
    if s in _gai_cache:
        return _gai_cache[s]
    try:
        r = bool(socket.getaddrinfo(s, 0, socket.AF_UNSPEC, socket.SOCK_STREAM, 0, socket.AI_NUMERICHOST))
    except socket.gaierror as e:
        if e.args[0] != socket.EAI_NONAME:
            raise
        r = False
    except UnicodeError:
        r = False
    _gai_cache[s] = r
    return r


def joined(req, kind):
    vs = [v for _k, n, v in req["h"] if kind_of(n) == kind]
    return ",".join(vs) if vs else None


def sock_ip(case):
    if case["fam"] in ("inet", "inet6") and case["addr"] is not None:
        return case["addr"]
    return "0.0.0.0"


def table_keys(case):
    """Every string that could be handed to is_valid_ip on this connection (a superset)."""
    keys = []

    def add(s):
        if s not in keys:
            keys.append(s)
    base = sock_ip(case)
    for p in base.split(","):
        add(p.strip())
    for r in case["reqs"]:
        v = joined(r, "real")
        if v is not None:
            add(v)
        v = joined(r, "xff")
        if v is not None:
            for p in v.split(","):
                add(p.strip())
    for s in case.get("extra_keys", []):
        add(s)
    return keys


def table_for(case):
    return [(k, raw_gai(k)) for k in table_keys(case)]


# ---------------------------------------------------------------------------------------
# running the implementation
# ---------------------------------------------------------------------------------------
logging.getLogger("tornado.application").disabled = True
logging.getLogger("tornado.general").disabled = True
logging.getLogger("tornado.access").disabled = True


def _stream_class():
    from harness.fake_iostream import FakeIOStream
    return FakeIOStream


def _family(case):
    return {"inet": socket.AF_INET, "inet6": socket.AF_INET6, "unix": socket.AF_UNIX, "none": None}[case["fam"]]


def _address(case):
    if case["fam"] == "unix":
        return "/tmp/c32.sock" if case["addr"] is not None else None
    if case["addr"] is None:
        return None
    return (case["addr"], 4711) if case["fam"] != "inet6" else (case["addr"], 4711, 0, 0)


class Rec:
    def __init__(self):
        self.pres, self.seen, self.objs, self.ctx = [], [], [], None


def _make_server(case, rec):
    from tornado.httpserver import HTTPServer
    from tornado import httputil
    reqs = case["reqs"]

    def spec_of(request):
        try:
            return reqs[int(request.path.strip("/r") or "0")]
        except Exception:
            return {"how": "ok"}

    def respond(conn):
        conn.write_headers(httputil.ResponseStartLine("HTTP/1.1", 200, "OK"), httputil.HTTPHeaders({"Content-Length": "0"}))
        conn.finish()

    def observe(request):
        rec.seen.append([request.remote_ip, request.protocol])
        rec.objs.append((request, request.remote_ip, request.protocol))

    def finish_request(request):
        sp = spec_of(request)
        if sp["how"] == "finish_raise":
            if sp.get("respond_first"):
                respond(request.connection)
            raise Boom("application finish() raises")
        d = int(sp.get("delay", 0)) if case["mode"] == "wire" else 0
        if d:
            loop = asyncio.get_event_loop()

            def later(n):
                if n == 0:
                    respond(request.connection)
                else:
                    loop.call_soon(later, n - 1)
            loop.call_soon(later, d)
        else:
            respond(request.connection)

    def callback(request):          # style "cb": the request object is built by _CallableAdapter
        observe(request)
        finish_request(request)

    class Msg(httputil.HTTPMessageDelegate):   # style "dg"
        def __init__(self, conn):
            self.conn, self.request = conn, None

        def headers_received(self, start_line, headers):
            self.request = httputil.HTTPServerRequest(connection=self.conn, start_line=start_line, headers=headers)
            observe(self.request)
            how = spec_of(self.request)["how"]
            if how == "hdr_raise":
                raise Boom("application headers_received raises")
            if how == "hdr_input_error":
                raise httputil.HTTPInputError("application rejects the request")

        def data_received(self, chunk):
            pass

        def finish(self):
            finish_request(self.request)

        def on_connection_close(self):
            if self.request is not None and spec_of(self.request).get("close_raises"):
                raise Boom("application on_connection_close raises")

    class App(httputil.HTTPServerConnectionDelegate):
        def start_request(self, server_conn, request_conn):
            return Msg(request_conn)

    class Srv(HTTPServer):
        def start_request(self, server_conn, request_conn):
            c = server_conn.context
            rec.ctx = c
            rec.pres.append([c.remote_ip, c.protocol])
            return super().start_request(server_conn, request_conn)

    app = callback if case["style"] == "cb" else App()
    return Srv(app, xheaders=True, trusted_downstream=(list(case["trusted"]) if case["trusted"] is not None else None),
               protocol=case["proto"], no_keep_alive=bool(case.get("nka")))


def wire_bytes(i, r):
    """(bytes of request i, feed EOF afterwards?)"""
    L = lambda s: s.encode("latin-1")
    how = r["how"]
    if how == "badhead" and r.get("bad") == "startline":
        head = b"BOGUS\r\n"
    else:
        ver = b"HTTP/1.0" if r.get("http10") else b"HTTP/1.1"
        head = b"GET /r%d " % i + ver + b"\r\nHost: h\r\n"
    for k, name, val in r["h"]:
        pl, pr = r.get("pad", ["", ""])
        head += L(name) + b":" + L(pl) + L(val) + L(pr) + b"\r\n"
    if how == "badhead" and r.get("bad") == "ctl":
        head += b"X-Real-Ip: 7.7.7.7\x01\r\n"
    if how == "badhead" and r.get("bad") == "nocolon":
        head += b"no colon here\r\n"
    body, eof = b"", False
    if how == "body_error":
        head += b"Transfer-Encoding: chunked\r\n"
        body = b"zz\r\nabc\r\n"
    elif how == "eof_body":
        head += b"Content-Length: 10\r\n"
        body, eof = b"abc", True
    elif r.get("body") == "cl":
        head += b"Content-Length: 5\r\n"
        body = b"hello"
    elif r.get("body") == "chunked":
        head += b"Transfer-Encoding: chunked\r\n"
        body = b"3\r\nabc\r\n2\r\nde\r\n0\r\n\r\n"
    return head + b"\r\n" + body, eof


def run_wire(case, rec):
    from harness.fake_iostream import EOF
    from harness.vclock import run_virtual, settle
    Base = _stream_class()
    fam = _family(case)

    class S(Base):
        socket = types.SimpleNamespace(family=fam) if fam is not None else None

    async def scenario(loop):
        srv = _make_server(case, rec)
        s = S()
        srv.handle_stream(s, _address(case))
        await settle(3)
        chunks, eof_after = [], None
        for i, r in enumerate(case["reqs"]):
            b, eof = wire_bytes(i, r)
            chunks.append(b)
            if eof:
                eof_after = i
                break
        feed = case.get("feed", "each")
        if feed == "pipelined":
            chunks = [b"".join(chunks)]
        elif feed == "split":
            data, out, pos = b"".join(chunks), [], 0
            for c in case.get("cuts", []):
                c = max(1, int(c))
                if pos >= len(data):
                    break
                out.append(data[pos:pos + c])
                pos += c
            if pos < len(data):
                out.append(data[pos:])
            chunks = out
        for b in chunks:
            if s.closed():
                break
            s.feed(b)
            await settle(40)
        if not s.closed():
            s.feed(EOF)
        await settle(40)
        return None
    run_virtual(scenario)


def run_direct(case, rec):
    """The delegate protocol of HTTP1Connection._read_message, replayed on the real
    HTTPServer.start_request / _ProxyAdapter / _HTTPRequestContext."""
    from tornado import httputil
    from tornado.httpserver import _HTTPRequestContext
    from tornado.http1connection import HTTP1Connection
    fam = _family(case)
    stream = types.SimpleNamespace(socket=(types.SimpleNamespace(family=fam) if fam is not None else None))
    srv = _make_server(case, rec)
    ctx = _HTTPRequestContext(stream, _address(case), srv.protocol, srv.trusted_downstream)
    server_conn = types.SimpleNamespace(context=ctx)

    class Conn:
        def __init__(self):
            self.context = ctx

        def write_headers(self, *a, **k):
            pass

        def finish(self):
            pass

        def set_close_callback(self, cb):
            pass

    for i, r in enumerate(case["reqs"]):
        conn = Conn()
        d = srv.start_request(server_conn, conn)
        how = r["how"]
        if how == "badhead":
            return
        h = httputil.HTTPHeaders()
        h["Host"] = "h"
        for k, name, val in r["h"]:
            norm = httputil._normalize_header(name)
            if norm in h:                       # what HTTPHeaders.add does, minus the wire grammar check
                h._as_list[norm].append(val)
                h._combined_cache.pop(norm, None)
            else:
                h[name] = val
        sl = httputil.RequestStartLine("GET", "/r%d" % i, "HTTP/1.0" if r.get("http10") else "HTTP/1.1")
        # the keep-alive decision of the real HTTP1Connection for this start line / headers
        keep = HTTP1Connection._can_keep_alive(types.SimpleNamespace(params=srv.conn_params), sl, h)

        def closing():
            try:
                d.on_connection_close()
            except Boom:
                pass
        try:
            d.headers_received(sl, h)
        except (Boom, httputil.HTTPInputError):
            closing()
            return
        if r.get("body"):
            d.data_received(b"hello")
        if how in ("body_error", "eof_body"):
            closing()
            return
        try:
            d.finish()
        except Boom:
            return
        if not keep:
            return
    srv.start_request(server_conn, Conn())     # the loop waits for the next request; EOF


def run_impl(case):
    from tornado import netutil
    rec = Rec()
    if case["mode"] == "wire":
        run_wire(case, rec)
    else:
        run_direct(case, rec)
    for obj, ip, proto in rec.objs:       # an earlier request object is never touched later
        if obj.remote_ip != ip or obj.protocol != proto:
            return G.Tag("RequestObjectMutated")
    if rec.ctx is None:
        return G.Tag("NoRequestStarted")
    ipv = [bool(netutil.is_valid_ip(k)) for k in table_keys(case)]
    return [rec.pres, rec.seen, [rec.ctx.remote_ip, rec.ctx.protocol], ipv]


# ---------------------------------------------------------------------------------------
# rendering
# ---------------------------------------------------------------------------------------
def gstr(s):
    return G.gbytes(s) if s else "(@nil N)"


def coq_input(case):
    fam = {"inet": "FInet", "inet6": "FInet6", "unix": "FUnix", "none": "FNoSocket"}[case["fam"]]
    addr = G.goption(case["addr"], gstr, "str") if case["fam"] != "unix" else G.goption("/" if case["addr"] is not None else None, gstr, "str")
    proto = G.goption(case["proto"], gstr, "str")
    tr = G.glist([gstr(t) for t in (case["trusted"] or [])], "str")
    tbl = G.glist(["(%s, %s)" % (gstr(k), G.gbool(b)) for k, b in table_for(case)], "(str * bool)")
    reqs = []
    for r in case["reqs"]:
        hs = G.glist(["(%s, %s)" % (gstr(n), gstr(v)) for _k, n, v in r["h"]], "raw_header")
        reqs.append("(%s, %s)" % (hs, model_how(r)))
    return "(%s, %s, %s, %s, %s, %s, %s)" % (fam, addr, proto, tr, G.gbool(bool(case.get("nka"))), tbl, G.glist(reqs, "raw_request"))


# ---------------------------------------------------------------------------------------
# independent Python oracle of the property on the implementation's observable
# ---------------------------------------------------------------------------------------
def keeps_alive(case, r):
    """RFC-style reading of the keep-alive decision for a complete GET request"""
    if r["how"] != "ok" or case.get("nka"):
        return False
    conn = joined(r, "conn")
    conn = conn.lower() if conn is not None else None
    return conn == "keep-alive" if r.get("http10") else conn != "close"


def py_check(case, o):
    if not isinstance(o, list) or len(o) != 4:
        return False
    pres, seen, fin, ipv = o
    keys = table_keys(case)
    if len(keys) != len(ipv):
        return False
    valid = dict(zip(keys, ipv))
    orig_ip = sock_ip(case)
    orig_proto = case["proto"] if case["proto"] else "http"
    trusted = set(case["trusted"] or [])
    if any(p != [orig_ip, orig_proto] for p in pres):      # nothing leaked into a later request
        return False
    k = 0
    last = None
    for r in case["reqs"]:
        if r["how"] == "badhead":
            break
        if k >= len(seen):
            return False
        ip, proto = seen[k]
        k += 1
        real, xff = joined(r, "real"), joined(r, "xff")
        cand = None
        if real is not None:
            cand = real
        elif xff is not None:
            entries = [e.strip() for e in xff.split(",")]
            untrusted = [e for e in entries if e not in trusted]
            cand = untrusted[-1] if untrusted else entries[0]
        if cand is not None and valid.get(cand):
            if ip != cand:
                return False
        elif ip != orig_ip:
            return False
        if ip != orig_ip and not (ip and "\x00" not in ip and ip.isascii()):
            return False
        ph = joined(r, "scheme")
        if ph is None:
            ph = joined(r, "proto")
        want = orig_proto
        if ph is not None:
            p = ph.split(",")[-1].strip()
            if p in ("http", "https"):
                want = p
        if proto != want:
            return False
        last = (r, [ip, proto])
        if not keeps_alive(case, r):
            break
    if k != len(seen):
        return False
    stale = last is not None and (last[0]["how"] == "finish_raise" or (last[0]["how"] in CLOSE_HOWS and last[0].get("close_raises")))
    return fin == (last[1] if stale else [orig_ip, orig_proto])


# ---------------------------------------------------------------------------------------
# generator
# ---------------------------------------------------------------------------------------
V4 = ["1.2.3.4", "10.0.0.1", "10.0.0.2", "192.168.0.7", "255.255.255.255", "0.0.0.0", "8.8.8.8", "172.16.254.1"]
V6 = ["::1", "2001:db8::1", "::ffff:1.2.3.4", "fe80::1", "1:2:3:4:5:6:7:8", "::", "2001:DB8::A"]
SHORT = ["127.1", "0x7f.1", "017700000001", "1", "01.2.3.4", "1.2.3.04", "0x7f000001", "1.2.3"]
SCOPED = ["fe80::1%lo", "fe80::1%eth9", "fe80::1%1", "1.2.3.4%lo", "::1%lo", "fe80::1%"]
GARBAGE = ["unknown", "", "localhost", "1.2.3.256", "1.2.3.4.5", "[::1]", ":::", "1.2.3.4:80", "a" * 64, "1" * 64, "<script>",
           "1.2.3.4.", "::1::", "12345::", "g::1", "1.2.3.-4", "example.com", "1..2.3", "-", "_", "1.2.3.4/24", "0x", "%lo", "1:2:3:4:5:6:7:8:9"]
LATIN = ["\xb9.2.3.4", "\xb2\xb3", "caf\xe9", "\xaa::1", "1\xad.2.3.4", "1.2.3.\xbc", "\xff"]
STRIPPABLE = ["1.2.3.4\xa0", "\x851.2.3.4", "\xa0::1\xa0", "\xa0", "\xa010.0.0.1"]
DIRECT_ONLY = ["1.2.3.4\x00", "\x00", "\x001.2.3.4", "１.２.３.４", " 1.2.3.4 ", "\t::1", "1.2.3.4\n", " 1.2.3.4", "١.2.3.4",
               "1。2。3。4", "10.0.0.1\x00", "\x1f8.8.8.8\x1c", "1.2.3.4\x7f", "​1.2.3.4"]
TRUSTED_SETS = [None, [], ["10.0.0.1"], ["10.0.0.1", "10.0.0.2", "::1"], [""], ["unknown", "10.0.0.1"], ["1.2.3.4", "10.0.0.1", "10.0.0.2", "fe80::1%lo"], ["9.9.9.9"]]
PROTOS = ["http", "https", "HTTPS", "ftp", "", "https,http", "http, https", "http,https,", ",https", "wss", "https\xa0", "\xa0http", "http s", "https,", "httpss", "http,ftp"]
PROTOS_DIRECT = [" https", "https\t", "https\n", "http\x00", " https", "https　, http\x85"]
DECOYS = ["X-Real-Ip2", "X_Forwarded_For", "Forwarded", "X-Forwarded-Host", "X-Real-Ipp", "X-Schem", "X-Forwarded-Protocol", "Via"]
SOCKS = [("inet", "9.9.9.9"), ("inet", "127.0.0.1"), ("inet", "10.0.0.1"), ("inet6", "::1"), ("inet6", "fe80::1%lo"), ("inet6", "2001:db8::5"),
         ("unix", "x"), ("unix", None), ("none", "9.9.9.9"), ("inet", None)]
SEPS = [",", ", ", " , ", ",\t", ",\xa0", " ,"]


def casing(rng, name):
    c = rng.randrange(4)
    return name if c == 0 else name.lower() if c == 1 else name.upper() if c == 2 else "".join(ch.upper() if rng.random() < .5 else ch.lower() for ch in name)


def wire_ok(v):
    """value as HTTPHeaders delivers it from the wire: field-value grammar, no outer blanks"""
    if v != v.strip(" \t"):
        return False
    return all((0x21 <= ord(c) <= 0x7e) or (0x80 <= ord(c) <= 0xff) or c in " \t" for c in v)


def gen_ip(rng, direct, trusted):
    r = rng.random()
    if trusted and r < 0.3:
        return rng.choice(trusted)
    pools = [(V4, 5), (V6, 3), (SHORT, 1), (SCOPED, 1), (GARBAGE, 3), (LATIN, 1.5), (STRIPPABLE, 1)]
    if direct:
        pools.append((DIRECT_ONLY, 2.5))
    tot = sum(w for _, w in pools)
    x = rng.random() * tot
    for pool, w in pools:
        x -= w
        if x <= 0:
            return rng.choice(pool)
    return rng.choice(V4)


def gen_xff(rng, direct, trusted):
    n = rng.choice([1, 1, 2, 2, 3, 3, 4, 5])
    parts = [gen_ip(rng, direct, trusted) for _ in range(n)]
    if trusted and rng.random() < 0.5:          # a run of trusted hosts on the right
        for j in range(rng.randrange(1, 4)):
            parts.append(rng.choice(trusted))
    s = parts[0]
    for p in parts[1:]:
        s += rng.choice(SEPS) + p
    return s


def gen_headers(rng, direct, trusted, dense):
    hs = []

    def put(kind, val):
        name = casing(rng, CANON[kind]) if kind != "other" else rng.choice(DECOYS)
        if not direct and not wire_ok(val):
            val = val.strip(" \t")
            if not wire_ok(val):
                return
        hs.append([kind, name, val])
    p = 0.75 if dense else 0.35
    if rng.random() < p:
        for _ in range(1 if rng.random() < 0.8 else 2):
            put("xff", gen_xff(rng, direct, trusted))
    if rng.random() < p * 0.7:
        for _ in range(1 if rng.random() < 0.85 else 2):
            put("real", gen_ip(rng, direct, trusted))
    if rng.random() < p * 0.7:
        for _ in range(1 if rng.random() < 0.85 else 2):
            put("scheme", rng.choice(PROTOS + (PROTOS_DIRECT if direct else [])))
    if rng.random() < p * 0.7:
        for _ in range(1 if rng.random() < 0.85 else 2):
            put("proto", rng.choice(PROTOS + (PROTOS_DIRECT if direct else [])))
    if rng.random() < 0.3:
        put("other", rng.choice(V4 + PROTOS[:2]))
    rng.shuffle(hs)
    return hs


def gen_req(rng, direct, style, trusted, last):
    r = {"h": gen_headers(rng, direct, trusted, rng.random() < 0.7), "how": "ok"}

    def conn(val):
        r["h"].insert(rng.randrange(len(r["h"]) + 1), ["conn", casing(rng, "Connection"), val])
    x = rng.random()
    if x < (0.45 if last else 0.12):
        hows = ["ok_close", "ok_close", "finish_raise", "badhead"]
        if style == "dg":      # with a plain callback the handler only runs in finish(): nothing to observe on these paths
            hows += ["body_error", "eof_body", "hdr_raise", "hdr_input_error", "body_error_cr", "eof_body_cr", "hdr_raise_cr"]
        h = rng.choice(hows)
        if h == "ok_close":
            r["http10"] = rng.random() < 0.3
            if r["http10"]:
                if rng.random() < 0.5:
                    conn(rng.choice(["close", "keep-alive, x", "Keep-Alive,", "upgrade", ""]))
            else:
                conn(rng.choice(["close", "Close", "CLOSE", "cLoSe"]))
        elif h.endswith("_cr"):
            r["how"], r["close_raises"] = h[:-3], True
        else:
            r["how"] = h
        if r["how"] == "badhead":
            r["bad"] = rng.choice(["startline", "ctl", "nocolon"])
        if r["how"] == "finish_raise":
            r["respond_first"] = rng.random() < 0.5
    elif x < 0.6 and rng.random() < 0.25:
        r["http10"] = True          # HTTP/1.0 with Connection: keep-alive
        conn(rng.choice(["keep-alive", "Keep-Alive", "KEEP-ALIVE"]))
    elif x < 0.75 and rng.random() < 0.3:   # HTTP/1.1 with a Connection header that is not exactly "close"
        for v in rng.choice([["keep-alive"], ["upgrade"], ["close, te"], ["close", "close"], [""], ["closed"], ["Keep-Alive"], ["close\xa0"]]):
            conn(v)
    if r["how"] == "ok":
        r["body"] = rng.choice([None, None, "cl", "chunked"]) if not r.get("http10") else rng.choice([None, "cl"])
        r["delay"] = rng.choice([0, 0, 1, 3])
    if not direct and rng.random() < 0.3:
        r["pad"] = [rng.choice(["", " ", "\t", "  "]), rng.choice(["", " ", "\t "])]
    return r


def gen_conn(rng, direct=None, nreq=None):
    direct = (rng.random() < 0.35) if direct is None else direct
    style = rng.choice(["cb", "dg"])
    fam, addr = rng.choice(SOCKS)
    trusted = rng.choice(TRUSTED_SETS)
    if rng.random() < 0.1 and addr:
        trusted = (trusted or []) + [addr]
    n = nreq if nreq is not None else rng.choice([1, 2, 2, 3, 3, 4, 5])
    case = {"mode": "direct" if direct else "wire", "style": style, "fam": fam, "addr": addr,
            "proto": rng.choice([None, None, None, "https", "http", "", "spdy"]), "trusted": trusted, "nka": rng.random() < 0.08,
            "reqs": [gen_req(rng, direct, style, trusted or [], i == n - 1) for i in range(n)]}
    if not direct:
        case["feed"] = rng.choice(["each", "each", "pipelined", "split"])
        if case["feed"] == "split":
            case["cuts"] = [rng.choice([1, 2, 7, 19, 40, 120]) for _ in range(40)]
    return case


def mk(reqs, trusted=None, mode="wire", style="cb", fam="inet", addr="9.9.9.9", proto=None, **kw):
    rs = []
    for r in reqs:
        if isinstance(r, list):
            r = {"h": r}
        r = dict(r)
        r["h"] = [[k, CANON.get(k, "X-Other"), v] for k, v in r["h"]]
        r.setdefault("how", "ok")
        rs.append(r)
    c = {"mode": mode, "style": style, "fam": fam, "addr": addr, "proto": proto, "trusted": trusted, "reqs": rs}
    c.update(kw)
    return c


def corpus_cases():
    T = ["10.0.0.1", "10.0.0.2"]
    out = [
        # the leak scenario: proxy values on request 1, bare request 2 on the same connection
        mk([[("real", "4.4.4.4"), ("scheme", "https")], []]),
        mk([[("xff", "4.4.4.4, 10.0.0.1")], [], [("proto", "https")], []], trusted=T, feed="pipelined"),
        # X-Real-Ip wins; invalid X-Real-Ip does NOT fall back to X-Forwarded-For
        mk([[("xff", "5.5.5.5"), ("real", "6.6.6.6")], [("xff", "5.5.5.5"), ("real", "bogus")]]),
        # every entry trusted -> the leftmost one
        mk([[("xff", "10.0.0.2,10.0.0.1")], [("xff", "10.0.0.1")]], trusted=T),
        # repeated header lines are joined with ","
        mk([[("xff", "7.7.7.7"), ("xff", "10.0.0.1")], [("real", "1.1.1.1"), ("real", "2.2.2.2")]], trusted=T),
        # is_valid_ip and IDNA: non-ASCII strings that normalise to numeric hosts
        mk([[("real", "\xb9.2.3.4")], []]),
        mk([[("real", "\xb2\xb3")], [("xff", "\xaa::1")]]),
        mk([[("real", "１.２.３.４")]], mode="direct"),
        # the concrete guard
        mk([[("real", "1.2.3.4\x00")], [("real", "")], [("xff", "\x00")]], mode="direct"),
        mk([[("xff", "")], [("real", "")], [("scheme", "")], [("proto", "")]]),
        # str.strip() removes NBSP / NEL around entries
        mk([[("xff", "4.4.4.4\xa0,\xa010.0.0.1\x85")], []], trusted=T),
        # protocol: last entry only
        mk([[("proto", "https,http")], [("proto", "http, https")], [("scheme", "ftp"), ("proto", "https")]]),
        # application failures
        mk([[("real", "4.4.4.4"), ("scheme", "https")], {"h": [("real", "5.5.5.5")], "how": "finish_raise", "respond_first": True}, []]),
        mk([{"h": [("real", "5.5.5.5"), ("proto", "https")], "how": "hdr_raise", "close_raises": True}], style="dg"),
        mk([{"h": [("real", "5.5.5.5")], "how": "body_error"}, []], style="dg"),
        mk([{"h": [("real", "5.5.5.5")], "how": "eof_body"}], style="dg", feed="split", cuts=[30, 30, 30, 30]),
        mk([{"h": [("real", "5.5.5.5")], "how": "badhead", "bad": "ctl"}, []]),
        mk([{"h": [("real", "5.5.5.5"), ("conn", "close")], "how": "ok"}, [("real", "6.6.6.6")]]),
        mk([{"h": [("real", "5.5.5.5"), ("conn", "close, te")], "how": "ok"}, [("real", "6.6.6.6")]]),
        mk([{"h": [("real", "5.5.5.5"), ("conn", "Keep-Alive")], "how": "ok", "http10": True}, {"h": [("proto", "https")], "how": "ok", "http10": True}, []]),
        mk([[("real", "5.5.5.5")], []], nka=True),
        # unix socket / no socket / protocol option
        mk([[("real", "4.4.4.4")], []], fam="unix", addr="x"),
        mk([[("scheme", "http")], []], proto="https"),
        mk([[("scheme", "http")], []], proto="spdy"),
        mk([[], []], fam="inet6", addr="fe80::1%lo", trusted=["fe80::1%lo"]),
    ]
    return out


def exhaustive(tier):
    """small scopes: X-Forwarded-For lists over {trusted A, trusted B, untrusted valid, invalid, empty}
    x X-Real-Ip choices, and all X-Scheme x X-Forwarded-Proto pairs; each followed by a bare request"""
    out = []
    alpha = ["10.0.0.1", "10.0.0.2", "4.4.4.4", "bogus", ""]
    reals = [None, "6.6.6.6", "nope", "10.0.0.1"]
    maxlen = 2 if tier == "quick" else 4
    T = ["10.0.0.1", "10.0.0.2"]
    k = 0
    for n in range(0, maxlen + 1):
        for combo in itertools.product(alpha, repeat=n):
            for real in (reals if n <= 3 else reals[:2]):
                h = []
                if n:
                    h.append(("xff", ",".join(combo)))
                if real is not None:
                    h.append(("real", real))
                k += 1
                out.append(mk([h, []], trusted=T, feed="pipelined" if k % 2 else "each", style="cb" if k % 3 else "dg",
                              mode="direct" if (tier != "quick" and k % 4 == 0) else "wire"))
    pv = [None, "http", "https", "ftp", "", "https,http", "http , https"]
    for a in pv:
        for b in pv:
            for proto in (None, "https"):
                h = ([("scheme", a)] if a is not None else []) + ([("proto", b)] if b is not None else [])
                out.append(mk([h, []], proto=proto))
    # Connection value x HTTP version x no_keep_alive: does the second request get served?
    for cv in [None, "close", "Close", "CLOSE", "keep-alive", "Keep-Alive", "close, x", "", "upgrade", "keep-alive,close"]:
        for http10 in (False, True):
            for nka in (False, True):
                for second_line in ((None,) if tier == "quick" else (None, "close", "keep-alive")):
                    h = [("real", "6.6.6.6"), ("scheme", "https")] + ([("conn", cv)] if cv is not None else []) \
                        + ([("conn", second_line)] if second_line is not None else [])
                    out.append(mk([{"h": h, "how": "ok", "http10": http10}, {"h": [], "how": "ok", "http10": http10}, []], nka=nka,
                                  feed="pipelined" if (len(out) % 2) else "each", mode="direct" if len(out) % 5 == 0 else "wire"))
    return out


def gen_cases(rng, tier):
    out = exhaustive(tier)
    n = 300 if tier == "quick" else 5000
    for _ in range(n):
        out.append(gen_conn(rng))
    # single-request direct cases sweeping the awkward strings through both headers
    pool = V4[:3] + V6[:3] + SHORT + SCOPED + GARBAGE + LATIN + STRIPPABLE + DIRECT_ONLY
    for s in (pool if tier != "quick" else pool[::2]):
        out.append(mk([[("real", s)], [("xff", "3.3.3.3," + s)], []], mode="direct", trusted=["10.0.0.1"]))
    return out


# ---------------------------------------------------------------------------------------
# evidence helpers
# ---------------------------------------------------------------------------------------
def nontrivial(case, o):
    if not any(r["h"] for r in case["reqs"]):
        return None
    return json.dumps([case["fam"], case["addr"], case["proto"], case["trusted"],
                       bool(case.get("nka")), [[[n.lower(), v] for _k, n, v in r["h"]] + [model_how(r)] for r in case["reqs"]]], sort_keys=True)


def classify(case, o):
    yield "mode=" + case["mode"]
    yield "style=" + case["style"]
    yield "nreq=%d" % len(case["reqs"])
    yield "sock=" + case["fam"]
    for r in case["reqs"]:
        yield "how=" + model_how(r).strip("()")
        if r["how"] == "ok":
            yield "keeps_alive=%s" % keeps_alive(case, r)
        ks = sorted({kind_of(n) for _k, n, _v in r["h"]})
        yield "hdrs=" + ("+".join(ks) if ks else "none")
    if isinstance(o, list) and len(o) == 4:
        ip0 = sock_ip(case)
        yield "rewritten_ip=%d" % sum(1 for s in o[1] if s[0] != ip0)
        yield "requests_seen=%d" % len(o[1])
        if case.get("feed"):
            yield "feed=" + case["feed"]


def signature(case, o):
    if not isinstance(o, list) or len(o) != 4:
        return "bad-observable"
    orig_ip = sock_ip(case)
    if any(p[0] != orig_ip for p in o[0]):
        return "leak-remote-ip"
    if any(p[1] != (case["proto"] or "http") for p in o[0]):
        return "leak-protocol"
    for k, b in zip(table_keys(case), o[3]):
        if b and not k.isascii():
            return "nonascii-ip-accepted"
    for ip, _p in o[1]:
        if ip != orig_ip and not ip.isascii():
            return "nonascii-ip-accepted"
    return "other"


def shrink(case):
    rs = case["reqs"]
    for i in range(len(rs)):
        if len(rs) > 1:
            yield dict(case, reqs=rs[:i] + rs[i + 1:])
    for i, r in enumerate(rs):
        for j in range(len(r["h"])):
            yield dict(case, reqs=rs[:i] + [dict(r, h=r["h"][:j] + r["h"][j + 1:])] + rs[i + 1:])
        for j, (k, n, v) in enumerate(r["h"]):
            if "," in v:
                parts = v.split(",")
                for q in range(len(parts)):
                    nv = ",".join(parts[:q] + parts[q + 1:])
                    if case["mode"] == "direct" or wire_ok(nv):
                        yield dict(case, reqs=rs[:i] + [dict(r, h=r["h"][:j] + [[k, n, nv]] + r["h"][j + 1:])] + rs[i + 1:])
        if r.get("pad"):
            yield dict(case, reqs=rs[:i] + [{k: v for k, v in r.items() if k != "pad"}] + rs[i + 1:])
    if case.get("feed") in ("split", "pipelined"):
        yield dict(case, feed="each")
    if case["trusted"]:
        yield dict(case, trusted=case["trusted"][1:])


TRUSTED_BASE = [
    "socket.getaddrinfo(AI_NUMERICHOST) is a parameter of the model (Section variable `gai`); the harness records its answers on every string "
    "that can reach is_valid_ip and hands them to the model as a table; tornado's own is_valid_ip (guard + exception mapping) is compared with "
    "the model's valid_ip on every table key, and with a textual IPv4/IPv6 recogniser where that one is decisive",
    "HTTP1Connection/_read_message is modelled only as the order of delegate calls per request (headers_received, then finish or on_connection_close; "
    "which requests are read at all): header parsing and body framing are the real code in wire mode but are not part of the model",
    "HTTPHeaders.get is modelled as: values of equal normalised name joined by ','; _normalize_header is modelled on ASCII names (one-pass capitalisation), the generator sends re-cased and decoy names",
    "HTTP1Connection._can_keep_alive is modelled for GET requests (no_keep_alive option, HTTP/1.0 vs 1.1, Connection value lower-cased on ASCII letters); the response side never forces a close here (Content-Length: 0 responses)",
    "translators/c32_src.py (strict ast reader of _apply_xheaders, _unapply_xheaders, the is_valid_ip guard and the _ProxyAdapter methods; exact-text checks of the rest of is_valid_ip, _cleanup, start_request, the saved originals; fails closed) and the interpreter coq/C32/Ast.v",
    "str.strip whitespace table (Py_UNICODE_ISSPACE, 29 code points) copied from CPython",
    "SSLIOStream (protocol 'https' by stream type) is in the model (`ssl` flag) but the harness only builds non-SSL streams; https origins come from HTTPServer(protocol='https')",
]
ASSUMPTIONS = [
    "the socket address string has no comma and no outer whitespace (true of every address the OS hands to accept())",
    "getaddrinfo answers are deterministic on this host during one run",
]
RULE = ("connections of 1-5 requests (wire 65% / direct 35%), headers from pools of IPv4/IPv6/shorthand/scoped/garbage/Latin-1/NUL strings, lists with trusted "
        "entries, repeated and re-cased header lines, decoys, Connection headers (close/keep-alive/near misses) x HTTP/1.0|1.1 x no_keep_alive; request endings ok/bad head/body error/EOF/application raises; plus exhaustive "
        "X-Forwarded-For lists over a 5-symbol alphabet (length <= 2 quick, <= 4 thorough) x 4 X-Real-Ip choices and all 7x7x2 protocol-header pairs, each followed "
        "by a bare request, and all 10 Connection values x version x no_keep_alive; distinct by (socket, protocol option, trusted set, header kinds+values, endings); non-trivial = some request carries a header")
LEVEL_TEXT = ("Machine-checked (Coq) model of _HTTPRequestContext.__init__/_apply_xheaders/_unapply_xheaders, _ProxyAdapter and the per-request delegate protocol, "
              "with theorems for every header list, trusted set, getaddrinfo behaviour and request history: the rewritten remote_ip is the socket address or the "
              "declared candidate accepted by is_valid_ip (X-Real-Ip first, else the rightmost X-Forwarded-For entry not in trusted_downstream), the protocol is "
              "http/https or the configured one, and every request on a connection starts from the original socket values (non-interference). The model is compared "
              "with the real HTTPServer on generated keep-alive sequences and the property checker is applied to the implementation's observables.")
LEVEL_NOTE = ("getaddrinfo itself is abstract (recorded answers); that a string accepted by it is a numeric address is checked on the generated strings against a textual recogniser, not proved.")
TECHNIQUE = "Coq proof (induction over request histories, invariant) + differential correspondence of the real HTTPServer over a fake IOStream via vm_compute"
