"""C39 — PeriodicCallback stays on its grid, skips missed periods, never overlaps.

A case is a PeriodicCallback configuration (callback_time in ms, jitter), an
initial clock / random value and a list of events; all numbers are binary64 bit
patterns.  The real tornado.ioloop.PeriodicCallback is driven either
  * mode "fake": against a scripted duck-typed loop (time / add_timeout /
    remove_timeout), its `_run` coroutines stepped by hand, so that every order
    of timer expiry, coroutine start, coroutine completion, stop and restart and
    every clock sequence (including backwards jumps) can be produced, or
  * mode "real": on a real tornado IOLoop over the virtual-clock asyncio loop
    (harness/vclock.py), with IOLoop.time scripted, for the same event vocabulary.
The observable is, per event, the list of things the object did (deadlines
passed to add_timeout as bit patterns, remove_timeout calls, callback start/end,
exceptions)."""
import itertools
import logging
import math
import struct
from fractions import Fraction

from harness import gallina as G

ID = "C39"
COQ_DIRS = ["C39", "Gen"]
PROPERTY_FILE = "C39/Property.v"
RUN_IMPORTS = "From TV Require Import C39.Model C39.Run."
RUN_FN = "run_case"
CHECK_FN = "check_case"
INPUT_TYPE = "c39_input"
# All theorems of Property.v but one are stated over exact rationals / an arbitrary number type and are closed under the
# global context.  C39_float_update_next_within_8ulp_of_exact (phase 4, via Flocq) is about the primitive binary64
# operations and real numbers; Print Assumptions lists for it exactly: the 4 axioms of Coq's Reals
# (ClassicalDedekindReals.sig_forall_dec, sig_not_dec, Classical_Prop.classic, functional_extensionality_dep), the
# specification axioms of the primitive operations from the standard library (Floats.FloatAxioms.*_spec, Prim2SF/SF2Prim
# round trips, Uint63.*_spec) and the primitive types/operations themselves (PrimFloat.*, PrimInt63.*).
ALLOWED_AXIOMS = [
    "ClassicalDedekindReals.sig_forall_dec",
    "ClassicalDedekindReals.sig_not_dec",
    "Classical_Prop.classic",
    "FloatAxioms.Prim2SF_SF2Prim",
    "FloatAxioms.Prim2SF_valid",
    "FloatAxioms.SF2Prim_Prim2SF",
    "FloatAxioms.abs_spec",
    "FloatAxioms.add_spec",
    "FloatAxioms.div_spec",
    "FloatAxioms.eqb_spec",
    "FloatAxioms.leb_spec",
    "FloatAxioms.mul_spec",
    "FloatAxioms.of_uint63_spec",
    "FloatAxioms.sub_spec",
    "FunctionalExtensionality.functional_extensionality_dep",
    "PrimFloat.abs",
    "PrimFloat.add",
    "PrimFloat.div",
    "PrimFloat.eqb",
    "PrimFloat.float",
    "PrimFloat.frshiftexp",
    "PrimFloat.ldshiftexp",
    "PrimFloat.leb",
    "PrimFloat.ltb",
    "PrimFloat.mul",
    "PrimFloat.normfr_mantissa",
    "PrimFloat.of_uint63",
    "PrimFloat.opp",
    "PrimFloat.sub",
    "PrimInt63.add",
    "PrimInt63.eqb",
    "PrimInt63.int",
    "PrimInt63.land",
    "PrimInt63.leb",
    "PrimInt63.lor",
    "PrimInt63.lsl",
    "PrimInt63.lsr",
    "PrimInt63.ltb",
    "PrimInt63.sub",
    "Uint63.add_spec",
    "Uint63.eqb_correct",
    "Uint63.eqb_refl",
    "Uint63.leb_spec",
    "Uint63.lor_spec",
    "Uint63.lsl_spec",
    "Uint63.lsr_spec",
    "Uint63.ltb_spec",
    "Uint63.of_to_Z",
    "Uint63.sub_spec",
]



def pre_build():
    """regenerate Gen/C39_src.v (the syntax tree of _update_next) from the working tree; fails closed"""
    import importlib
    import os
    import sys
    from harness.framework import REPO, COQ
    sys.path.insert(0, os.path.join(os.path.dirname(COQ), "translators"))
    import c39_src
    importlib.reload(c39_src)
    c39_src.emit(REPO, os.path.join(COQ, "Gen", "C39_src.v"))


KINDS = {0: "KSync", 1: "KSync", 2: "KSyncStop", 3: "KAsync", 4: "KSync", 5: "KSyncClock"}
ERR_CLASSES = (ZeroDivisionError, ValueError, OverflowError, AttributeError)


# ---------------------------------------------------------------- numbers
def bits(x):
    return struct.unpack("<Q", struct.pack("<d", float(x)))[0]


def unbits(b):
    return struct.unpack("<d", struct.pack("<Q", b))[0]


def fobs(x):
    x = float(x)
    if math.isnan(x):
        return G.Tag("nan")
    return bits(x)


# ---------------------------------------------------------------- implementation runner
class _Handle:
    def __init__(self, i):
        self.i = i


class _Trace:
    def __init__(self):
        self.cur = []
        self.all = []

    def emit(self, x):
        self.cur.append(x)

    def next_event(self):
        self.all.append(self.cur)
        self.cur = []


class FakeLoop:
    def __init__(self, t0, tr):
        self.now = t0
        self.after_read = None
        self.pending = []
        self.nextid = 0
        self.tr = tr

    def time(self):
        t = self.now
        if self.after_read is not None:
            self.now = self.after_read
            self.after_read = None
        return t

    def add_timeout(self, deadline, callback, *a, **k):
        h = _Handle(self.nextid)
        self.nextid += 1
        self.pending.append((h, callback))
        self.tr.emit([G.Tag("sched"), h.i, fobs(deadline)])
        return h

    def remove_timeout(self, h):
        self.tr.emit([G.Tag("remove"), h.i])
        self.pending = [(x, c) for (x, c) in self.pending if x is not h]


class _Rnd:
    def __init__(self, r):
        self.r = r

    def random(self):
        return self.r


class _Aw:
    """awaitable returned by a coroutine-style callback; completed by the Done event"""

    def __init__(self, tr):
        self.tr = tr

    def __await__(self):
        ok = yield self
        self.tr.emit(G.Tag("cb-"))
        if not ok:
            raise RuntimeError("awaitable failed")
        return None


def _ct_value(case):
    ct = unbits(case["ct"])
    if case.get("ct_int") and ct == int(ct) and abs(ct) < 2 ** 53:
        return int(ct)
    return ct


def run_fake(case):
    import tornado.ioloop as TI
    tr = _Trace()
    loop = FakeLoop(unbits(case["t0"]), tr)
    rnd = _Rnd(unbits(case["r0"]))
    state = {"kind": 0}
    armed, inflight = [], []

    def cb():
        tr.emit(G.Tag("cb+"))
        k = state["kind"]
        if k == 3:
            return _Aw(tr)
        if k == 2:
            pc.stop()
        if k == 5:
            loop.now = state["arg"]          # the callback took time
        tr.emit(G.Tag("cb-"))
        if k == 1:
            raise RuntimeError("callback failed")
        if k == 4:
            return 5
        return None

    pc = TI.PeriodicCallback(cb, _ct_value(case), unbits(case["jit"]))
    saved_current, saved_random = TI.IOLoop.__dict__["current"], TI.random
    log = logging.getLogger("tornado.application")
    saved_disabled = log.disabled
    log.disabled = True
    TI.IOLoop.current = staticmethod(lambda instance=True: loop)
    TI.random = rnd
    try:
        for ev in case["evs"]:
            op = ev[0]
            try:
                if op == "clock":
                    loop.now = unbits(ev[1])
                elif op == "rand":
                    rnd.r = unbits(ev[1])
                elif op == "start":
                    if ev[1] is not None:
                        loop.after_read = unbits(ev[1])
                    try:
                        pc.start()
                    finally:
                        if loop.after_read is not None:   # start() did not read the clock (mutant): keep the script aligned
                            loop.now, loop.after_read = loop.after_read, None
                elif op == "stop":
                    pc.stop()
                elif op == "fire":
                    if loop.pending:
                        h, c = loop.pending.pop(0)
                        tr.emit([G.Tag("fire"), h.i])
                        co = c()
                        if hasattr(co, "send"):
                            armed.append(co)
                        elif co is not None:
                            tr.emit(G.Tag("not-a-coroutine"))
                elif op == "run":
                    if armed:
                        co = armed.pop(0)
                        state["kind"] = ev[1]
                        state["arg"] = unbits(ev[2]) if len(ev) > 2 else None
                        n0 = len(tr.cur)
                        try:
                            co.send(None)
                            inflight.append(co)
                        except StopIteration:
                            if len(tr.cur) == n0:
                                tr.emit(G.Tag("skip"))
                elif op == "done":
                    if inflight:
                        co = inflight.pop(0)
                        try:
                            co.send(bool(ev[1]))
                            tr.emit(G.Tag("still-suspended"))
                        except StopIteration:
                            pass
                else:
                    raise AssertionError(op)
            except ERR_CLASSES as e:
                tr.emit([G.Tag("err"), G.Tag(type(e).__name__)])
            tr.next_event()
    finally:
        TI.IOLoop.current = saved_current
        TI.random = saved_random
        log.disabled = saved_disabled
        for co in armed + inflight:
            try:
                co.close()
            except BaseException:
                pass
    return tr.all


def run_real(case):
    """Same events on a real IOLoop (AsyncIOLoop over the virtual-clock asyncio loop).  IOLoop.time is scripted;
    the timers themselves run on the asyncio loop's virtual monotonic clock, which jumps to the next timer when idle."""
    import asyncio
    import tornado.ioloop as TI
    from harness.vclock import run_virtual, settle

    tr = _Trace()
    env = {"now": unbits(case["t0"]), "after_read": None, "kind": 0}
    rnd = _Rnd(unbits(case["r0"]))
    log = logging.getLogger("tornado.application")
    saved_disabled, saved_random = log.disabled, TI.random

    async def scenario(aloop):
        io = TI.IOLoop.current()
        ids = {}
        fired = asyncio.Event()
        started = asyncio.Event()
        waiters = []

        def time_():
            t = env["now"]
            if env["after_read"] is not None:
                env["now"], env["after_read"] = env["after_read"], None
            return t

        real_add, real_remove = io.add_timeout, io.remove_timeout

        def add_timeout(deadline, callback, *a, **k):
            hid = len(ids)

            def wrapped():
                pendings.discard(hid)
                tr.emit([G.Tag("fire"), hid])
                fired.set()
                return gate(callback)

            # PeriodicCallback's deadline is recorded; the real timer is armed far enough ahead (on the scripted clock)
            # that it expires only when the driver waits for it in the Fire event, in creation order
            h = real_add(time_() + 1000.0 + hid * 1e-3, wrapped)
            ids[id(h)] = (hid, h)
            pendings.add(hid)
            tr.emit([G.Tag("sched"), hid, fobs(deadline)])
            return h

        def remove_timeout(h):
            hid = ids[id(h)][0]
            tr.emit([G.Tag("remove"), hid])
            pendings.discard(hid)
            return real_remove(h)

        pendings = set()
        gates = []

        async def gate(callback):
            # the loop has created the task; hold its first step until the Run event
            g = asyncio.get_event_loop().create_future()
            gates.append(g)
            kind, arg = await g
            env["kind"], env["arg"] = kind, arg
            n0 = len(tr.cur)
            try:
                await callback()
            except ERR_CLASSES as e:
                tr.emit([G.Tag("err"), G.Tag(type(e).__name__)])
                return
            if len(tr.cur) == n0:
                tr.emit(G.Tag("skip"))

        io.time = time_
        io.add_timeout = add_timeout
        io.remove_timeout = remove_timeout

        class Aw:
            def __await__(self_):
                f = asyncio.get_event_loop().create_future()
                waiters.append(f)
                ok = yield from f.__await__()
                tr.emit(G.Tag("cb-"))
                if not ok:
                    raise RuntimeError("awaitable failed")

        def cb():
            tr.emit(G.Tag("cb+"))
            k = env["kind"]
            if k == 3:
                return Aw()
            if k == 2:
                pc.stop()
            if k == 5:
                env["now"] = env["arg"]
            tr.emit(G.Tag("cb-"))
            if k == 1:
                raise RuntimeError("callback failed")
            if k == 4:
                return 5
            return None

        pc = TI.PeriodicCallback(cb, _ct_value(case), unbits(case["jit"]))
        for ev in case["evs"]:
            op = ev[0]
            try:
                if op == "clock":
                    env["now"] = unbits(ev[1])
                elif op == "rand":
                    rnd.r = unbits(ev[1])
                elif op == "start":
                    if ev[1] is not None:
                        env["after_read"] = unbits(ev[1])
                    try:
                        pc.start()
                    finally:
                        if env["after_read"] is not None:
                            env["now"], env["after_read"] = env["after_read"], None
                elif op == "stop":
                    pc.stop()
                elif op == "fire":
                    if pendings:
                        fired.clear()
                        await asyncio.wait_for(fired.wait(), 1e9)   # virtual time jumps to the timer
                        await settle(3)
                elif op == "run":
                    if gates:
                        gates.pop(0).set_result((ev[1], unbits(ev[2]) if len(ev) > 2 else None))
                        await settle(6)
                elif op == "done":
                    if waiters:
                        waiters.pop(0).set_result(bool(ev[1]))
                        await settle(6)
                else:
                    raise AssertionError(op)
            except ERR_CLASSES as e:
                tr.emit([G.Tag("err"), G.Tag(type(e).__name__)])
            tr.next_event()
        pc.stop()
        for g in gates + waiters:
            g.cancel()
        await settle(3)
        return tr.all

    log.disabled = True
    TI.random = rnd
    try:
        return run_virtual(scenario)
    finally:
        TI.random = saved_random
        log.disabled = saved_disabled
        try:
            TI.IOLoop.clear_current()
        except Exception:
            pass


def run_impl(case):
    if case.get("mode") == "real":
        return run_real(case)
    return run_fake(case)


# ---------------------------------------------------------------- Gallina rendering
def _ev(ev):
    op = ev[0]
    if op == "clock":
        return "EClock %s" % G.gz(ev[1])
    if op == "rand":
        return "ERand %s" % G.gz(ev[1])
    if op == "start":
        return "EStart None" if ev[1] is None else "EStart (Some %s)" % G.gz(ev[1])
    if op == "stop":
        return "EStop"
    if op == "fire":
        return "EFire"
    if op == "run":
        if ev[1] == 5:
            return "ERun (KSyncClock %s)" % G.gz(ev[2])
        return "ERun %s" % KINDS[ev[1]]
    if op == "done":
        return "EDone"
    raise AssertionError(op)


def coq_input(case):
    return "(%s, %s, %s, %s, %s)" % (G.gz(case["ct"]), G.gz(case["jit"]), G.gz(case["t0"]), G.gz(case["r0"]),
                                     G.glist([_ev(e) for e in case["evs"]], "(event Z)"))


# ---------------------------------------------------------------- independent Python oracle (exact fractions)
def _q(b):
    if b is None or isinstance(b, G.Tag):
        return None
    x = unbits(b)
    if math.isnan(x) or math.isinf(x):
        return None
    return Fraction(x)


SCALE64 = Fraction(1, 2 ** 50)
MICRO = Fraction(1, 10 ** 6)


def _period(ct, jit, r):
    p = ct / 1000
    if jit != 0:
        p = p * (1 + jit * (r - Fraction(1, 2)))
    return p


def _arith(ct, jit, st, pv, now, rnd, n, d):
    """None if fine, else the name of the broken clause."""
    if None in (ct, jit, st, pv, now, rnd):
        return None
    p = _period(ct, jit, rnd)
    m0 = max(abs(st), abs(pv), abs(now))
    if p < MICRO or p > 2 ** 52 or m0 > 2 ** 52:
        return None
    if d is None:
        return "non-finite-deadline"
    m = max(m0, abs(d)) + p
    u = m * SCALE64
    if m <= 2 ** 31 and not d > pv:
        return "not-later-than-previous"
    if not d >= now - u:
        return "before-current-time"
    if pv <= now and not d <= now + p + u:
        return "more-than-a-period-ahead"
    if abs(jit) <= 1:
        k = math.floor((d - pv) / p + Fraction(1, 2))
        if k < (1 if m <= 2 ** 31 else 0) or abs(d - (pv + k * p)) > 4 * u:
            return "not-a-whole-number-of-periods"
    if jit == 0:
        k = math.floor((d - st) / p + Fraction(1, 2))
        if abs(d - (st + k * p)) > (n + 1) * u:
            return "off-grid"
    return None


def why_bad(case, o):
    """Independent statement of the property on the implementation's trace; returns None or a reason."""
    evs = case["evs"]
    if not isinstance(o, list) or len(o) != len(evs):
        return "malformed-observable"
    ct, jit = _q(case["ct"]), _q(case["jit"])
    now, rnd = case["t0"], case["r0"]
    running, busy, depth, clean = False, 0, 0, True
    start = prev = None
    started = False
    n = 0
    for ev, outs in zip(evs, o):
        op = ev[0]
        if op == "clock":
            now = ev[1]
        elif op == "rand":
            rnd = ev[1]
        elif op == "start":
            clean = clean and (not running) and busy == 0
            start = prev = now
            started = True
            n = 0
            running = True
            if ev[1] is not None:
                now = ev[1]
        elif op == "stop":
            running = False
        if not isinstance(outs, list):
            return "malformed-observable"
        for x in outs:
            if x == "cb+" and isinstance(x, G.Tag):
                if not running:
                    return "run-after-stop"
                if clean and depth != 0:
                    return "overlap"
                depth += 1
                if op == "run" and ev[1] == 2:
                    running = False
                if op == "run" and ev[1] == 5:
                    now = ev[2]
            elif x == "cb-" and isinstance(x, G.Tag):
                if depth == 0 or busy == 0:
                    return "malformed-observable"
                depth -= 1
                busy -= 1
            elif x == "skip" and isinstance(x, G.Tag):
                if busy == 0:
                    return "malformed-observable"
                busy -= 1
            elif isinstance(x, list) and x and x[0] == "fire":
                busy += 1
            elif isinstance(x, list) and x and x[0] == "sched":
                if not running:
                    return "scheduled-after-stop"
                if not started:
                    return "malformed-observable"
                bad = _arith(ct, jit, _q(start), _q(prev), _q(now), _q(rnd), n, _q(x[2]))
                if bad:
                    return bad
                prev = x[2]
                n += 1
            elif isinstance(x, list) and x and x[0] in ("remove", "err"):
                pass
            else:
                return "malformed-observable"
    return None


def py_check(case, o):
    return why_bad(case, o) is None


def signature(case, o):
    return why_bad(case, o) or "ok"


# ---------------------------------------------------------------- generator
def _ref_update(ct, jit, r, now, nxt):
    """generator-side copy of the arithmetic, only used to aim clock readings at interesting places"""
    try:
        p = ct / 1000.0
        if jit:
            p *= 1 + (jit * (r - 0.5))
        if nxt <= now:
            return nxt + (math.floor((now - nxt) / p) + 1) * p
        return nxt + p
    except (ZeroDivisionError, ValueError, OverflowError):
        return nxt


PERIODS_S = [1e-6, 1.5e-6, 1e-5, 1e-4, 0.001, 0.01, 0.05, 0.1, 0.25, 1 / 3.0, 0.5, 1.0, 1.7, 2.0, 10.0, 60.0, 3600.0, 86400.0, 7 * 86400.0]
STARTS = [0.0, 1.0, 1000.0, 1e6, 1.7e9, 1758499200.0, 1758499200.123456, 2147483647.5, 2147483648.0, 4e9, 1e12, -5.0, -1e9]
JITTERS = [0.1, 0.5, 1.0, -0.3, 0.01, 1.9]
RANDS = [0.0, 0.5, 0.25, 0.75, 0.9999999999999999, 0.123456789]
WILD = [0.0, -0.0, float("inf"), float("-inf"), float("nan"), 5e-324, 1e-310, 1e308, 1.7976931348623157e308, -1.0, 2.0 ** 53, 2.0 ** 63, 2.0 ** 64, 1e-9]


def _mk(ct_ms, jit, t0, r0, evs, mode="fake", ct_int=False):
    c = {"ct": bits(ct_ms), "jit": bits(jit), "t0": bits(t0), "r0": bits(r0), "evs": evs, "mode": mode}
    if ct_int:
        c["ct_int"] = True
    return c


def _pick_period(rng):
    x = rng.random()
    if x < 0.35:
        return rng.choice(PERIODS_S)
    if x < 0.9:
        return math.exp(rng.uniform(math.log(1e-6), math.log(3 * 86400.0)))
    return rng.choice([1e-6, 1.0000000000000002e-06, 2e-6, 1e-3])


def _pick_start(rng):
    x = rng.random()
    if x < 0.45:
        return 1.7e9 + rng.random() * 1e8
    if x < 0.75:
        return rng.choice(STARTS)
    if x < 0.9:
        return rng.random() * rng.choice([1.0, 1e3, 1e6])
    return rng.uniform(-1e6, 2.0 ** 31)


class _Sim:
    """tracks (approximately) what the object will do, to aim events; not used for checking"""

    def __init__(self, rng, ct, jit, t0, r0):
        self.rng, self.ct, self.jit = rng, ct, jit
        self.now, self.r = t0, r0
        self.next = t0
        self.running = False
        self.pending = 0
        self.armed = 0
        self.inflight = 0
        self.evs = []
        self.p = ct / 1000.0

    def sched(self):
        if self.running:
            self.next = _ref_update(self.ct, self.jit, self.r, self.now, self.next)
            self.pending += 1

    def clock(self, t):
        self.now = t
        self.evs.append(["clock", bits(t)])

    def rand(self):
        self.r = self.rng.choice(RANDS) if self.rng.random() < 0.5 else self.rng.random()
        self.evs.append(["rand", bits(self.r)])

    def start(self, skew=None):
        self.running = True
        self.next = self.now
        if skew is not None:
            self.now = skew
        self.evs.append(["start", None if skew is None else bits(skew)])
        self.sched()

    def stop(self):
        self.running = False
        self.pending = 0
        self.evs.append(["stop"])

    def fire(self):
        if self.pending:
            self.pending -= 1
            self.armed += 1
        self.evs.append(["fire"])

    def run(self, k, t=None):
        if k == 5:
            if t is None:     # the callback takes part of a period, or overruns several
                d, p = self.next, self.p
                base = max(self.now, d) if math.isfinite(d) else self.now
                t = base + p * self.rng.choice([self.rng.random() * 0.9, 1.0, self.rng.randrange(1, 6) + self.rng.random(), 0.0])
                if not math.isfinite(t):
                    t = self.now
            self.evs.append(["run", 5, bits(t)])
        else:
            self.evs.append(["run", k])
        if self.armed:
            self.armed -= 1
            if self.running:
                if k == 5:
                    self.now = t
                if k == 3:
                    self.inflight += 1
                elif k == 2:
                    self.running = False
                    self.pending = 0
                else:
                    self.sched()

    def done(self, ok=True):
        self.evs.append(["done", bool(ok)])
        if self.inflight:
            self.inflight -= 1
            self.sched()

    def aim_clock(self, style=None):
        """move the clock relative to the pending deadline"""
        rng, p, d = self.rng, self.p, self.next
        style = style or rng.choice(["exact", "late", "late", "missed", "missed", "boundary", "ulp", "back", "bigback", "early", "same", "far"])
        if not (math.isfinite(d) and math.isfinite(p)):
            t = self.now + 1.0
        elif style == "exact":
            t = d
        elif style == "late":
            t = d + p * rng.random() * rng.choice([1e-6, 1e-3, 0.5, 0.999])
        elif style == "missed":
            t = d + p * (rng.randrange(1, 6) + rng.random())
        elif style == "boundary":
            t = d + rng.randrange(0, 5) * p        # exactly (in floats) on a later grid point
        elif style == "ulp":
            base = d + rng.randrange(0, 4) * p
            t = math.nextafter(base, rng.choice([-math.inf, math.inf]))
        elif style == "back":
            t = self.now - rng.random() * rng.choice([1e-3, 0.05, 1.0])
        elif style == "bigback":
            t = self.now - p * rng.randrange(1, 50) - rng.random() * 3600
        elif style == "early":
            t = d - p * rng.random()
        elif style == "far":
            t = d + p * rng.randrange(10, 10 ** rng.randrange(2, 7))
        else:
            t = self.now
        self.clock(t)


def _structured(rng, mode="fake", timely=False):
    p = _pick_period(rng)
    ct = p * 1000.0
    jit = 0.0 if rng.random() < 0.7 else rng.choice(JITTERS)
    t0 = _pick_start(rng)
    if mode == "real":
        t0 = abs(t0)
    r0 = rng.choice(RANDS)
    s = _Sim(rng, ct, jit, t0, r0)
    coro_bias = rng.random()
    skew = None
    if rng.random() < 0.3:
        skew = t0 + rng.choice([1e-6, 1e-3, p / 2, p, 2.5 * p, -1e-3])
    if rng.random() < 0.15:
        s.aim_clock("same")
    s.start(skew)
    for _ in range(rng.randrange(1, 9)):
        x = rng.random()
        if jit and rng.random() < 0.6:
            s.rand()
        if timely:
            s.aim_clock(rng.choice(["exact", "late", "missed", "boundary", "ulp"]))
        else:
            s.aim_clock()
        s.fire()
        if x < 0.06:
            s.stop()
            if rng.random() < 0.5:
                s.run(rng.choice([0, 3]))
                continue
        k = 3 if rng.random() < coro_bias else rng.choice([0, 0, 5, 5, 5, 1, 2, 4])
        if rng.random() < 0.3:
            s.aim_clock("late" if timely else None)
        s.run(k)
        if k == 3:
            y = rng.random()
            if y < 0.15:
                s.fire()            # nothing pending while the coroutine runs
            if y < 0.1 or 0.5 < y < 0.58:
                s.stop()
            if 0.1 < y < 0.16 and not timely:
                s.start()           # restart while a callback is in flight (outside the property's scope)
            if rng.random() < 0.7:
                s.aim_clock("missed" if rng.random() < 0.5 else ("late" if timely else None))
            if rng.random() < 0.9:
                s.done(rng.random() < 0.85)
        if not s.running and rng.random() < 0.5:
            if s.inflight and rng.random() < 0.5:
                s.done()
            s.aim_clock("late")
            s.start()
    return _mk(ct, jit, t0, r0, s.evs, mode, ct_int=rng.random() < 0.3)


ALPHA_KEYS = ["start", "stop", "fire", "runS", "runA", "runX", "runT", "done", "fwd", "back"]


def _alpha_case(seq, p=0.25, t0=1000.0, lead_start=True, mode="fake"):
    evs = []
    t = t0
    if lead_start:
        evs.append(["start", None])
    for a in seq:
        if a == "start":
            evs.append(["start", None])
        elif a == "stop":
            evs.append(["stop"])
        elif a == "fire":
            evs.append(["fire"])
        elif a == "runS":
            evs.append(["run", 0])
        elif a == "runA":
            evs.append(["run", 3])
        elif a == "runX":
            evs.append(["run", 2])
        elif a == "runT":        # a plain callback that overruns two periods
            t = t + 2.25 * p
            evs.append(["run", 5, bits(t)])
        elif a == "done":
            evs.append(["done", True])
        elif a == "fwd":
            t = t + 1.375 * p
            evs.append(["clock", bits(t)])
        elif a == "back":
            t = t - 0.4375 * p
            evs.append(["clock", bits(t)])
    return _mk(p * 1000.0, 0.0, t0, 0.5, evs, mode)


def _soup(rng):
    """malformed stream: arbitrary events, arbitrary (also non-finite) numbers"""
    def num():
        x = rng.random()
        if x < 0.3:
            return rng.choice(WILD)
        if x < 0.6:
            return rng.choice(STARTS) + rng.random()
        return unbits(rng.getrandbits(64))
    ct = rng.choice([num(), _pick_period(rng) * 1000.0])
    if not (ct > 0 or math.isnan(ct)):
        ct = abs(ct) if ct != 0 and not math.isnan(ct) else 5e-324
    jit = rng.choice([0.0, 0.0, -0.0, num(), rng.choice(JITTERS), 2.0, -2.0])
    evs = []
    for _ in range(rng.randrange(1, 14)):
        x = rng.randrange(10)
        if x == 0:
            evs.append(["clock", bits(num())])
        elif x == 1:
            evs.append(["rand", bits(rng.choice([rng.random(), 0.0, num()]))])
        elif x == 2:
            evs.append(["start", rng.choice([None, None, bits(num())])])
        elif x == 3:
            evs.append(["stop"])
        elif x in (4, 5):
            evs.append(["fire"])
        elif x in (6, 7):
            k = rng.randrange(6)
            evs.append(["run", 5, bits(num())] if k == 5 else ["run", k])
        elif x == 8:
            evs.append(["done", rng.random() < 0.7])
        else:
            evs.append(["clock", bits(rng.choice(STARTS) + rng.random() * 100)])
    return _mk(ct, jit, num(), rng.choice([0.0, 0.5, num()]), evs)


def _arith_chain(rng, n):
    """long single-start chains of synchronous runs: exercises only the deadline arithmetic"""
    p = _pick_period(rng)
    jit = 0.0 if rng.random() < 0.75 else rng.choice(JITTERS)
    t0 = _pick_start(rng)
    s = _Sim(rng, p * 1000.0, jit, t0, 0.5)
    s.start(None if rng.random() < 0.7 else t0 + p * rng.random() * 3)
    for _ in range(n):
        if jit:
            s.rand()
        s.aim_clock()
        s.fire()
        s.run(rng.choice([0, 5]))
    return _mk(p * 1000.0, jit, t0, 0.5, s.evs, ct_int=rng.random() < 0.3)


def corpus_cases():
    e9 = 1758499200.0
    out = []
    # ioloop_test.PeriodicCallbackTest.test_basic / test_overrun / test_clock_backwards shapes
    for calls in ([1010, 1020, 1030, 1040, 1050], [1010, 1024, 1030, 1048, 1050], [1009, 1005, 1009.5, 1011, 1100]):
        evs = [["start", None]]
        for t in calls:
            evs += [["clock", bits(float(t))], ["fire"], ["run", 0]]
        out.append(_mk(10000.0, 0.0, 1000.0, 0.5, evs))
    # issue 2333: wall clock slightly behind at every firing
    evs = [["start", None]]
    t = e9
    for i in range(6):
        t = e9 + 0.1 * (i + 1) - 1e-4
        evs += [["clock", bits(t)], ["fire"], ["run", 0]]
    out.append(_mk(100.0, 0.0, e9, 0.5, evs))
    # jitter sequence of test_jitter
    evs = [["start", None]]
    for r, t in zip([0.5, 1, 0, 0.75], [1010, 1022.5, 1030, 1041.25]):
        evs += [["rand", bits(float(r))], ["clock", bits(float(t))], ["fire"], ["run", 0]]
    out.append(_mk(10000.0, 0.5, 1000.0, 0.5, evs))
    # coroutine callback overrunning several periods; stop while it runs; completion after stop
    out.append(_mk(1000.0, 0.0, e9, 0.5, [["start", None], ["clock", bits(e9 + 1)], ["fire"], ["run", 3], ["clock", bits(e9 + 4.5)], ["fire"],
                                          ["done", True], ["clock", bits(e9 + 5)], ["fire"], ["run", 3], ["stop"], ["done", False], ["fire"], ["run", 0]]))
    # plain callback overrunning 2.5 periods, then one that is quick (test_overrun with the time spent INSIDE the callback)
    out.append(_mk(10000.0, 0.0, 1000.0, 0.5, [["start", None], ["clock", bits(1010.0)], ["fire"], ["run", 5, bits(1035.0)], ["clock", bits(1040.0)], ["fire"],
                                               ["run", 5, bits(1042.0)], ["clock", bits(1050.0)], ["fire"], ["run", 0]]))
    out.append(_mk(10000.0, 0.0, 1000.0, 0.5, [["start", None], ["clock", bits(1010.0)], ["fire"], ["run", 5, bits(1035.0)], ["clock", bits(1040.0)], ["fire"],
                                               ["run", 5, bits(1042.0)]], mode="real"))
    # timer fired, stop() before the coroutine's first step
    out.append(_mk(1000.0, 0.0, e9, 0.5, [["start", None], ["clock", bits(e9 + 1)], ["fire"], ["stop"], ["run", 0], ["fire"]]))
    # restart while a coroutine callback is in flight: two timer chains (outside the property's scope; see NOTES.md)
    out.append(_mk(1000.0, 0.0, e9, 0.5, [["start", None], ["clock", bits(e9 + 1)], ["fire"], ["run", 3], ["stop"], ["start", None], ["done", True],
                                          ["clock", bits(e9 + 2)], ["fire"], ["fire"], ["run", 3], ["run", 3], ["done", True], ["done", True]]))
    # microsecond period at epoch scale; subnormal period (ZeroDivisionError); nan period
    out.append(_mk(0.001, 0.0, e9, 0.5, [["start", None], ["clock", bits(e9 + 1e-6)], ["fire"], ["run", 0], ["clock", bits(e9 + 7.3e-6)], ["fire"], ["run", 0]]))
    out.append(_mk(5e-324, 0.0, 10.0, 0.5, [["start", None], ["clock", bits(11.0)], ["fire"], ["run", 0]]))
    out.append(_mk(float("nan"), 0.0, 10.0, 0.5, [["start", None]]))
    out.append(_mk(1000.0, 2.0, 10.0, 0.0, [["start", None], ["fire"], ["run", 0]]))
    out.append(_mk(1000.0, 0.0, float("inf"), 0.5, [["start", None], ["fire"], ["run", 0]]))
    # the same shapes on the real loop
    out.append(_mk(1000.0, 0.0, e9, 0.5, [["start", None], ["clock", bits(e9 + 1)], ["fire"], ["run", 3], ["clock", bits(e9 + 4.5)],
                                          ["done", True], ["clock", bits(e9 + 5)], ["fire"], ["run", 0], ["stop"], ["fire"]], mode="real"))
    out.append(_mk(1000.0, 0.0, e9, 0.5, [["start", None], ["clock", bits(e9 + 1)], ["fire"], ["stop"], ["run", 0], ["fire"]], mode="real"))
    return out


def gen_cases(rng, tier):
    out = []
    quick = tier != "thorough"
    # 1. small-scope exhaustive event orders after one start()
    depth = 3 if quick else 4
    for n in range(1, depth + 1):
        for seq in itertools.product(ALPHA_KEYS, repeat=n):
            out.append(_alpha_case(seq))
    if not quick:
        for n in range(1, 4):
            for seq in itertools.product(ALPHA_KEYS, repeat=n):
                out.append(_alpha_case(seq, lead_start=False, p=1e-3, t0=1758499200.25))
        # a sample of longer orders
        for _ in range(1500):
            out.append(_alpha_case([rng.choice(ALPHA_KEYS) for _ in range(rng.randrange(5, 10))], p=rng.choice([0.25, 1e-3, 60.0]),
                                   t0=rng.choice([1000.0, 1758499200.25])))
    # 2. structured mostly-valid runs
    for _ in range(350 if quick else 2500):
        out.append(_structured(rng))
    for _ in range(100 if quick else 1000):
        out.append(_structured(rng, timely=True))
    # 3. arithmetic chains
    for _ in range(100 if quick else 1000):
        out.append(_arith_chain(rng, rng.randrange(3, 25)))
    # 4. malformed stream
    for _ in range(150 if quick else 1500):
        out.append(_soup(rng))
    # 5. the real IOLoop
    for _ in range(60 if quick else 500):
        out.append(_structured(rng, mode="real", timely=rng.random() < 0.5))
    if not quick:
        for n in range(1, 4):
            for seq in itertools.product(ALPHA_KEYS, repeat=n):
                out.append(_alpha_case(seq, mode="real"))
    return out


EXHAUSTIVE = {"quick": False, "thorough": False}


def nontrivial(case, o):
    if not isinstance(o, list) or not any(isinstance(x, list) and x and x[0] == "sched" for outs in o if isinstance(outs, list) for x in outs):
        return None
    return (case["ct"], case["jit"], case["t0"], case["r0"], repr(case["evs"]), case.get("mode"))


def classify(case, o):
    yield "mode=" + case.get("mode", "fake")
    p = unbits(case["ct"]) / 1000.0
    yield "period=" + ("nonfinite" if not math.isfinite(p) else "<1us" if p < 1e-6 else "<1ms" if p < 1e-3 else "<1s" if p < 1 else "<1h" if p < 3600 else ">=1h")
    yield "jitter=" + ("0" if unbits(case["jit"]) == 0 else "nonzero")
    t0 = unbits(case["t0"])
    yield "start=" + ("nonfinite" if not math.isfinite(t0) else "epoch" if 1e9 <= t0 < 2 ** 31 else "small" if abs(t0) < 1e9 else "large")
    if isinstance(o, list):
        flat = [x for outs in o if isinstance(outs, list) for x in outs]
        ns = sum(1 for x in flat if isinstance(x, list) and x and x[0] == "sched")
        yield "deadlines=" + ("0" if ns == 0 else "1-3" if ns < 4 else "4-9" if ns < 10 else "10+")
        if any(isinstance(x, list) and x and x[0] == "err" for x in flat):
            yield "exception"
        if "skip" in flat:
            yield "skip-after-stop"
        starts = sum(1 for e in case["evs"] if e[0] == "start")
        yield "starts=" + str(min(starts, 3))
    # clock behaviour
    ts = [unbits(e[1]) for e in case["evs"] if e[0] == "clock"]
    if any(b < a for a, b in zip(ts, ts[1:])):
        yield "clock-backwards"


def shrink(case):
    evs = case["evs"]
    for i in range(len(evs) - 1, -1, -1):
        yield dict(case, evs=evs[:i] + evs[i + 1:])
    if len(evs) > 2:
        yield dict(case, evs=evs[: len(evs) // 2])
    if case.get("ct_int"):
        yield dict(case, ct_int=False)


def case_from_json(c):
    return c


TRUSTED_BASE = [
    "translators/c39_src.py (strict ast reader of PeriodicCallback._update_next; fails closed) and the two small interpreters of coq/C39/Ast.v "
    "that give the syntax tree its meaning (Python int/float promotion, exceptions)",
    "primitive binary64 operations of Coq's vm (PrimFloat add/sub/mul/div/compare/of_uint63/ldshiftexp/frshiftexp) used to *evaluate* the float model; "
    "the theorems do not mention them",
    "harness fake loop / scripted IOLoop.time and random.random: PeriodicCallback only calls io_loop.time, add_timeout, remove_timeout and random.random",
    "FIFO choice of which pending timer / created coroutine / suspended callback an event acts on (only matters after an out-of-scope restart)",
]
ASSUMPTIONS = [
    "C39_float_update_next_within_8ulp_of_exact: finite inputs, times in [0, 2^31] s, period in [2^-20, 2^20] s, next <= now (main branch); "
    "rests on the standard-library axioms listed in ALLOWED_AXIOMS (Reals, FloatAxioms, Uint63)",
    "arithmetic clauses are checked when the effective period is at least 1 microsecond and all readings are finite; strict monotonicity of float deadlines below 2^31 s",
    "no Flocq-style error-bound theorem for the binary64 path: its tolerance clauses are evaluated on the implementation's floats, the exact statements are proved over Q",
    "overlap freedom is stated for runs in which start() is only called while idle (a restart while a coroutine callback is in flight starts a second timer chain)",
]
RULE = ("all event orders over 10 event kinds up to length 3 (quick) / 4 (thorough, + sampled lengths 5-9) after start() + structured single-start runs with clock readings aimed at/around the pending deadline "
        "(exact, late, missed periods, grid boundaries +-1ulp, backwards) + long arithmetic chains + malformed event/number soup + runs on a real IOLoop; "
        "distinct by full input; non-trivial = at least one deadline scheduled")
LEVEL_TEXT = ("Machine-checked (Coq) proofs over exact rationals that every _update_next result is later than the previous deadline, after the current time, at most one period "
              "after it when the deadline had been reached, and on the grid start + k*period for every clock sequence (induction over event lists); generic proofs for the "
              "start/stop/_run/_schedule_next machine, for every event order, that a callback is never started while the previous one runs (starts while idle), that nothing "
              "runs or is scheduled after stop, and that the model satisfies the trace checker. A bit-exact binary64 model of the arithmetic and the machine is compared with "
              "the real PeriodicCallback on every case, and the checker (with a rounding tolerance) is applied to the implementation's own deadlines.")
LEVEL_NOTE = ("Trusted: Coq kernel/vm_compute incl. primitive floats for evaluation; the scripted loop; correspondence harness. The binary64 path has no error-bound theorem.")
TECHNIQUE = "Coq proof (QArith/Qround, invariants over event lists, simulation between machine and checker) + bit-exact PrimFloat model + differential correspondence via vm_compute"
