"""C25 — outgoing cookies are emitted exactly as set.

One case = a list of set_cookie / clear_cookie / set_signed_cookie calls made by
one handler.  The implementation is driven through HTTPServer over a fake
IOStream: request 1 makes the calls, the Set-Cookie lines are read off the wire,
request 2 (same connection) carries `Cookie: <name=value parts joined by "; ">`
and the handler's `self.request.cookies` is recorded."""
import calendar
import datetime as _dt
import itertools
import logging
import time as _time

from harness import gallina as G
from harness.gallina import Tag

ID = "C25"
COQ_DIRS = ["C25"]
PROPERTY_FILE = "C25/Property.v"
RUN_IMPORTS = "From TV Require Import C25.Model C25.Run C25.ModelP4."
RUN_FN = "run_case_raw"
CHECK_FN = "check_case_raw"
INPUT_TYPE = "(list rawop * ending)"

NOW = 1000000.0          # the virtual clock of harness.vclock.run_virtual
SECRET = "c25-secret"
FIXED_NOW = _dt.datetime(2026, 1, 2, 3, 4, 5, tzinfo=_dt.timezone.utc)

TRUSTED_BASE = [
    "http.cookies of the running CPython (3.12) is part of the implementation under test; _quote/_Translator, Morsel.set, Morsel.OutputString are modelled by hand",
    "signed values (create_signed_value, property C23) are computed by Tornado and passed to the model as opaque text; the clock (time.time, datetime.now) is pinned by the harness; datetime expiries are converted with calendar.timegm in the harness (format_timestamp of an int timestamp is modelled)",
    "the 'browser' that turns a Set-Cookie header into the next request's Cookie header (name=value part up to the first ';', joined by '; ') is the harness's and the model's RFC 6265-style reader",
]
ASSUMPTIONS = [
    "legacy **kwargs of set_cookie (case-insensitive Morsel keys, comment/version) are outside the model; they bypass the attribute check (Domain='x; Secure' injects an attribute) and a CookieError raised there loses an earlier setting of the same name",
    "argument types: name and value are str or bytes (escape.native_str is modelled), domain/path/samesite are str, max_age is int, expires is None or an int timestamp (any sign and size); `if expires:` drops expires=0; the error-class thresholds of an unrepresentable expiry (ValueError / OSError / OverflowError) are those of CPython 3.12 on 64-bit Linux",
    "scope: set_cookie calls made before the response head is flushed (h_written = false is an explicit hypothesis of C25_any_ending_sends_the_jar); after flush() no header-setting API takes effect, by RequestHandler's general contract",
]
RULE = ("one case = call sequence + how the request ends (return, Finish, HTTPError(code), other exception, send_error(code), redirect); "
        "expiry timestamps at epoch/leap-day/century/year-10000 edges (thorough: four edges of every year 1970-2111); "
        "call sequences (1-4 calls, small name pool so names repeat) over an alphabet of legal characters, separators, quotes, "
        "backslash, controls, Latin-1 and non-Latin-1 code points; mostly-valid structured calls plus a fully random stream; every single "
        "code point 0..300 in each argument position; thorough: all values of length <= 2 (and attribute texts) over a 15-character alphabet "
        "and all 3-call sequences over a small call menu.  distinct by canonical JSON; non-trivial = at least one call accepted")


# ----------------------------------------------------------------------------
# cases

def call(kind="set", name="a", value="v", domain=None, expires=None, path="/", max_age=None,
         httponly=False, secure=False, samesite=None, expires_days="default"):
    if expires_days == "default":       # the API defaults: None, except set_signed_cookie's 30
        expires_days = 30 if kind == "signed" else None
    return {"kind": kind, "name": name, "value": value, "domain": domain, "expires": expires, "path": path,
            "max_age": max_age, "httponly": httponly, "secure": secure, "samesite": samesite,
            "expires_days": expires_days}


def bcall(name_b=None, value_b=None, **kw):
    """a call whose name and/or value argument is a bytes object (hex in the JSON case); the
    str fields keep a readable shadow (decoded with errors='replace') for histograms only"""
    op = call(**kw)
    if name_b is not None:
        op["name_b"] = bytes(name_b).hex()
        op["name"] = bytes(name_b).decode("utf-8", "replace")
    if value_b is not None and op["kind"] != "clear":
        op["value_b"] = bytes(value_b).hex()
        op["value"] = bytes(value_b).decode("utf-8", "replace")
    return op


def _args(op):
    """(name argument, value argument) exactly as passed to Tornado"""
    n = bytes.fromhex(op["name_b"]) if op.get("name_b") is not None else op["name"]
    v = bytes.fromhex(op["value_b"]) if op.get("value_b") is not None else op["value"]
    return n, v


def _decoded(op):
    """(name, value) after native_str, or None when an argument is not valid UTF-8"""
    out = []
    n, v = _args(op)
    if op["kind"] != "set":
        v = ""      # clear_cookie passes value=""; set_signed_cookie base64-encodes the value inside the signed text
    for a in (n, v):
        if isinstance(a, bytes):
            try:
                a = a.decode("utf-8")
            except UnicodeDecodeError:
                return None
        out.append(a)
    return tuple(out)


def mk(*ops, end=None):
    return {"ops": list(ops), "end": list(end) if end else ["return", 0]}


def _ts(dt):
    return calendar.timegm(dt.utctimetuple())


NOW_TS = calendar.timegm(FIXED_NOW.utctimetuple())


def model_call(op):
    """The `call` record the model is given for one op (signed value computed by Tornado)."""
    kind = op["kind"]
    name_arg, value_arg = _args(op)
    dec = _decoded(op)
    name, value = dec if dec is not None else (op["name"], op["value"])
    if kind != "set":
        value = op["value"]
    max_age = op["max_age"]
    expires = op["expires"]
    if kind == "clear":
        expires = None          # clear_cookie refuses the keyword; the model supplies now - 365 d itself
        max_age = None
    elif kind == "signed":
        from tornado import web
        value = web.create_signed_value(SECRET, name_arg, value_arg, clock=lambda: NOW).decode("utf-8", "replace")
    return {"name": name, "value": value, "domain": op["domain"], "expires": expires,
            "expires_days": op["expires_days"], "kind": kind, "path": op["path"],
            "max_age": max_age, "httponly": op["httponly"], "secure": op["secure"], "samesite": op["samesite"]}


def _requested_expiry(c):
    """the documented rule, written independently: an explicit (truthy) expires wins over
    expires_days; clear_cookie always asks for now - 365 days"""
    if c["kind"] == "clear":
        return NOW_TS - 365 * 86400
    if c["expires"]:
        return c["expires"]
    if c["expires_days"] is not None:
        return NOW_TS + 86400 * c["expires_days"]
    return None


def _expires_text(c):
    """independent of Tornado and of the model: datetime arithmetic + strftime-free formatting"""
    t = _requested_expiry(c)
    if t is None:
        return None
    d = _dt.datetime(1, 1, 1) + _dt.timedelta(seconds=t + 62135596800)
    return "%s, %02d %s %04d %02d:%02d:%02d GMT" % (
        ["Mon", "Tue", "Wed", "Thu", "Fri", "Sat", "Sun"][d.weekday()], d.day,
        ["Jan", "Feb", "Mar", "Apr", "May", "Jun", "Jul", "Aug", "Sep", "Oct", "Nov", "Dec"][d.month - 1],
        d.year, d.hour, d.minute, d.second)


def _gopt(x):
    return G.goption(x, G.gbytes, "str")


def _garg(a):
    return "(ABytes %s)" % G.gbytes(a) if isinstance(a, bytes) else "(AStr %s)" % G.gbytes(a)


def coq_input(case):
    out = []
    for op in case["ops"]:
        c = model_call(op)
        ctor = {"set": "OpSet", "clear": "OpClear", "signed": "OpSigned"}[op["kind"]]
        name_arg, value_arg = _args(op)
        if op["kind"] == "signed":
            value_arg = c["value"]          # the (opaque) signed text is what reaches set_cookie
        elif op["kind"] == "clear":
            value_arg = ""
        out.append("(mkRaw (%s (mkCall (@nil N) (@nil N) %s %s %s %s %s %s %s %s %s)) %s %s)" % (
            ctor, _gopt(c["domain"]), G.goption(c["expires"], G.gz, "Z"),
            G.goption(c["expires_days"], G.gz, "Z"), G.gz(NOW_TS), _gopt(c["path"]),
            G.goption(c["max_age"], G.gz, "Z"), G.gbool(c["httponly"]), G.gbool(c["secure"]), _gopt(c["samesite"]),
            _garg(name_arg), _garg(value_arg)))
    return "(%s, %s)" % (G.glist(out, "rawop"), _gending(case.get("end")))


ENDINGS = [("return", 0), ("finish", 0), ("exception", 0), ("redirect", 0), ("redirect", 1)] + \
          [(k, c) for k in ("httperror", "senderror") for c in (400, 403, 404, 409, 500, 503)]


def _gending(e):
    kind, code = e or ("return", 0)
    if kind == "return":
        return "EndReturn"
    if kind == "finish":
        return "EndFinish"
    if kind == "exception":
        return "EndException"
    if kind == "redirect":
        return "(EndRedirect %s)" % G.gbool(bool(code))
    return "(%s %s)" % ({"httperror": "EndHTTPError", "senderror": "EndSendError"}[kind], G.gn(code))


def _status_of(e):
    kind, code = e or ("return", 0)
    return {"return": 200, "finish": 200, "exception": 500, "redirect": 301 if code else 302}.get(kind, code)


# ----------------------------------------------------------------------------
# implementation runner

class _Shim:
    def __init__(self, real, **over):
        self.__dict__["_real"] = real
        self.__dict__.update(over)

    def __getattr__(self, name):
        return getattr(self._real, name)


class _FixedDT(_dt.datetime):
    @classmethod
    def now(cls, tz=None):
        return FIXED_NOW.astimezone(tz) if tz else FIXED_NOW.replace(tzinfo=None)


def _set_cookie_lines(block):
    out = []
    for line in block.split(b"\r\n")[1:]:
        if line.lower().startswith(b"set-cookie:"):
            out.append(line[len(b"set-cookie:"):].strip(b" \t").decode("latin-1"))
    return out


def run_impl(case):
    import http.cookies
    from tornado import web
    from tornado.httpserver import HTTPServer
    from harness.fake_iostream import FakeIOStream, EOF
    from harness.vclock import run_virtual, settle
    ops = case["ops"]
    res = []
    rec = {}

    class H(web.RequestHandler):
        def get(self):
            if self.request.path == "/r":
                rec["cookies"] = [[k, m.value] for k, m in self.request.cookies.items()]
                return
            for op in ops:
                kw = dict(domain=op["domain"], path=op["path"], httponly=op["httponly"], secure=op["secure"],
                          samesite=op["samesite"])
                name_arg, value_arg = _args(op)
                try:
                    if op["kind"] == "set":
                        self.set_cookie(name_arg, value_arg, expires=op["expires"], max_age=op["max_age"],
                                        expires_days=op["expires_days"], **kw)
                    elif op["kind"] == "clear":
                        if op["expires_days"] is not None:
                            kw["expires_days"] = op["expires_days"]
                        self.clear_cookie(name_arg, **kw)
                    else:
                        if op["expires"] is not None:
                            kw["expires"] = op["expires"]
                        self.set_signed_cookie(name_arg, value_arg, expires_days=op["expires_days"],
                                               max_age=op["max_age"], **kw)
                    res.append(Tag("Ok"))
                except UnicodeDecodeError:
                    res.append(Tag("UnicodeDecodeError"))
                except http.cookies.CookieError:
                    res.append(Tag("CookieError"))
                except ValueError:
                    res.append(Tag("ValueError"))
                except OverflowError:
                    res.append(Tag("OverflowError"))
                except OSError:
                    res.append(Tag("OSError"))
            self.write("x")
            kind, code = case.get("end") or ("return", 0)
            if kind == "finish":
                raise web.Finish()
            if kind == "httperror":
                raise web.HTTPError(code)
            if kind == "exception":
                raise RuntimeError("boom")
            if kind == "senderror":
                self.send_error(code)
            if kind == "redirect":
                self.redirect("/elsewhere", permanent=bool(code))

    app = web.Application([("/.*", H)], cookie_secret=SECRET)

    async def scenario(loop):
        srv = HTTPServer(app)
        s = FakeIOStream()
        srv.handle_stream(s, ("1.2.3.4", 5))
        s.feed(b"GET / HTTP/1.1\r\nHost: x\r\n\r\n")
        await settle(6)
        first = bytes(s.sent)
        if not first.startswith(b"HTTP/1.1 ") or b"\r\n\r\n" not in first:
            s.feed(EOF)
            await settle(4)
            return None
        rec["status"] = int(first[9:12])
        rec["sent1"] = len(first)
        hs = _set_cookie_lines(first.split(b"\r\n\r\n", 1)[0])
        # the user agent: name=value part of every header, joined by "; "
        nvs = [h.split(";", 1)[0].strip(" \t") for h in hs]
        req = b"GET /r HTTP/1.1\r\nHost: x\r\n"
        if nvs:
            req += b"Cookie: " + "; ".join(nvs).encode("latin-1") + b"\r\n"
        s.feed(req + b"\r\n")
        await settle(6)
        s.feed(EOF)
        await settle(4)
        return hs

    old_dt, old_time = web.datetime, web.time
    lvl = logging.root.manager.disable
    logging.disable(logging.CRITICAL)
    web.datetime = _Shim(_dt, datetime=_FixedDT)
    web.time = _Shim(_time, time=lambda: NOW)
    try:
        hs = run_virtual(scenario, start=NOW)
    finally:
        web.datetime, web.time = old_dt, old_time
        logging.disable(lvl)
    if hs is None:
        return [res, 0, Tag("NoResponse")]
    if "cookies" not in rec:
        return [res, rec["status"], [hs, Tag("SecondRequestRejected")]]
    return [res, rec["status"], [hs, rec["cookies"]]]


# ----------------------------------------------------------------------------
# independent Python oracle of the property

def _dec_requested(c):
    out = []
    if c["domain"]:
        out.append(("Domain", c["domain"]))
    if _expires_text(c) is not None:
        out.append(("expires", _expires_text(c)))
    if c["httponly"]:
        out.append(("HttpOnly", None))
    if c["max_age"] is not None:
        out.append(("Max-Age", str(c["max_age"])))
    if c["path"]:
        out.append(("Path", c["path"]))
    if c["samesite"]:
        out.append(("SameSite", c["samesite"]))
    if c["secure"]:
        out.append(("Secure", None))
    return out


def _expected(case, o):
    res = o[0]
    if len(res) != len(case["ops"]):
        return None
    acc = []
    for op, r in zip(case["ops"], res):
        if (_decoded(op) is None) != (r == "UnicodeDecodeError"):
            return None                 # undecodable bytes must raise UnicodeDecodeError, and only they
        if r == "Ok":
            c = model_call(op)
            if op["kind"] == "clear":
                c["value"] = ""
            acc.append(c)
    exp = []
    for i, c in enumerate(acc):
        if not any(d["name"] == c["name"] for d in acc[i + 1:]):
            exp.append(c)
    return exp


def py_check(case, o):
    from tornado import httputil
    if not (isinstance(o, list) and len(o) == 3 and isinstance(o[0], list)) or isinstance(o[0], Tag):
        return False
    exp = _expected(case, o)
    if exp is None:
        return False
    if o[1] != _status_of(case.get("end")):
        return False
    if isinstance(o[2], Tag) or isinstance(o[2][1], Tag):
        return False
    hs, cks = o[2]
    if len(hs) != len(exp):
        return False
    by_name = {c["name"]: c for c in exp}
    seen = set()
    for h in hs:            # the order of the Set-Cookie lines is not part of the property
        parts = h.split(";")
        nv = parts[0].strip(" \t")
        if "=" not in nv:
            return False
        c = by_name.get(nv.split("=", 1)[0])
        if c is None:
            return False
        seen.add(c["name"])
        attrs = []
        for p in parts[1:]:
            p = p.lstrip(" \t")
            attrs.append(tuple(p.split("=", 1)) if "=" in p else (p, None))
        if attrs != _dec_requested(c):
            return False
        if httputil.parse_cookie(nv) != {c["name"]: c["value"]}:
            return False
    if seen != set(by_name):
        return False
    return sorted(map(tuple, cks)) == sorted((c["name"], c["value"]) for c in exp)


# ----------------------------------------------------------------------------
# generator

LEGAL = "abzAZ019!#$%&'*+-.^_`|~:"
UNESC = " ()/<=>?@[]{}"
SPECIAL = "\";\\,"
CTRL = "\x00\t\n\r\x1f\x7f"
LATIN = "\x80\x85\xa0\xe9\xff"
WIDE = "\u0100\u20ac\u2003\u2028\u3000\U0001f600"
ALL = LEGAL + UNESC + SPECIAL + CTRL + LATIN + WIDE
NAMES = ["a", "b", "sid", "A", "x-y", "a"]
RESERVED = ["path", "Path", "EXPIRES", "max-age", "Domain", "secure", "HttpOnly", "version", "comment", "SameSite"]


def _text(rng, alphabet, lo, hi):
    return "".join(rng.choice(alphabet) for _ in range(rng.randint(lo, hi)))


def _good_value(rng):
    r = rng.random()
    if r < 0.35:
        return _text(rng, LEGAL, 0, 8)
    if r < 0.7:
        return _text(rng, LEGAL + UNESC[1:] + SPECIAL + LATIN + "\x7f", 0, 8)
    if r < 0.8:
        return "\\" + _text(rng, "0123789\\\"n" + LEGAL[:4], 0, 5)
    if r < 0.9:
        return '"' + _text(rng, LEGAL + SPECIAL, 0, 5) + rng.choice(['"', ""])
    return _text(rng, ALL, 0, 6)


def _good_attr(rng, base):
    r = rng.random()
    if r < 0.3:
        return None
    if r < 0.75:
        return rng.choice(base)
    if r < 0.85:
        return rng.choice(base) + _text(rng, LEGAL + UNESC[1:] + "\",\\" + LATIN, 0, 4)
    if r < 0.9:
        return ""
    return rng.choice(base) + rng.choice(["; Secure", ";", " x", "\r\nX: y", "\x7f", "\t", "\u20ac", "\x00", ", b=c"])


def _rand_call(rng, wild=False):
    kind = rng.choice(["set"] * 6 + ["clear", "signed"])
    if wild:
        name = _text(rng, ALL, 0, 4) if rng.random() < 0.6 else rng.choice(NAMES + RESERVED)
        value = _text(rng, ALL, 0, 6)
        dom = rng.choice([None, _text(rng, ALL, 0, 5)])
        path = rng.choice(["/", None, _text(rng, ALL, 0, 5)])
        ss = rng.choice([None, _text(rng, ALL, 0, 5)])
    else:
        r = rng.random()
        name = rng.choice(NAMES) if r < 0.85 else (rng.choice(RESERVED) if r < 0.92 else _text(rng, LEGAL + "=; \xe9", 0, 4))
        value = _good_value(rng)
        dom = _good_attr(rng, ["example.com", ".e.org", "h"])
        path = rng.choice(["/"] * 4 + [_good_attr(rng, ["/", "/app", "/a/b"])])
        ss = _good_attr(rng, ["Lax", "Strict", "None", "lax"]) if rng.random() < 0.5 else None
    if kind == "signed" and rng.random() < 0.5:
        value = _text(rng, LEGAL + UNESC + SPECIAL, 0, 6)
    return call(kind, name, value, dom,
                rng.choice([None, None, 0, 1, 86400, 1000000000, 2 ** 31, 253402300799, -1, 253402300800, 10 ** 18]),
                path,
                rng.choice([None, None, None, 0, 1, -1, 10, 3600, 2 ** 31, 10 ** 20]),
                rng.random() < 0.3, rng.random() < 0.3, ss,
                rng.choice([None, None, None, 30, 1, 0, 365, -1, -400, 4000000, -800000]) if kind != "signed"
                else rng.choice([30, 30, None, 1, 0, 365, -1, 4000000]))


def corpus_cases():
    return [
        mk(call(value="b")),
        mk(call(value="\xe9;\"\\,x=")),
        mk(call(name="a", value="1"), call(name="b", value="2"), call(name="a", value="3", secure=True)),
        mk(call(value="b", domain="x; Secure")),                 # attribute injection attempt: must raise
        mk(call(value="b", path="/\r\nX: y")),
        mk(call(value="b", samesite="Lax; Domain=evil")),
        mk(call(name="a=b; c", value="d")),
        mk(call(value="b c")),                                   # legacy control/space check
        mk(call(value="\u20ac")),                                # accepted, then the response cannot be sent
        mk(call(value="b", domain="\u20acx")),
        mk(call(value="b", max_age=0)),                          # falsy max_age
        mk(call(value="b", max_age=-5, expires=1, httponly=True, secure=True, samesite="Strict", domain="e.com", path="/p")),
        mk(call("clear", name="sid", domain="e.com")),
        mk(call("signed", name="sid", value="hello world")),
        mk(call(name="path", value="x"), call(name="", value="x"), call(name="\xe9", value="x")),
        mk(call(value="\\101\\"), call(name="b", value="\\\n")),
        mk(call(value=""), call(name="b", value='"'), call(name="c", value='""')),
        mk(call(value="1", path=""), call(value="2", path=None, domain="")),
        mk(call(value="ok"), call(value="bad value")),           # a call failing an argument check leaves the earlier setting
        mk(call(value="1"), call(name="b", value="2"), call(value="\u20ac")),   # a call failing the final header check keeps the earlier setting (moved last)
        mk(call(value="1"), call(value="2", domain="\u0100")), 
        mk(call(value="\u20ac"), call(value="3")),
        # bytes arguments (escape.native_str): decoded as strict UTF-8, UnicodeDecodeError before the jar is touched
        mk(bcall(name_b=b"sid", value_b="caf\u00e9;x".encode()), bcall(name_b=b"b", value_b=b""), bcall(value_b=b"\xff")),
        mk(call(value="1", secure=True), bcall(name_b=b"a", value_b=b"\xc3\x28"), bcall(name_b=b"\xe2\x82", value_b=b"v"),
           bcall(name_b=b"b", value_b="\u20ac".encode()), bcall(kind="clear", name_b=b"gone"), bcall(kind="clear", name_b=b"\xc0\xaf"),
           bcall(kind="signed", name_b=b"tok", value_b=b"\xff\x00raw"), bcall(kind="signed", name_b=b"\xed\xa0\x80", value_b=b"v")),
        # seeded C25_3: an explicit expires wins over expires_days (also set_signed_cookie's default 30, clear_cookie + expires_days)
        mk(call(value="v", expires=1000000000, expires_days=7), call("signed", name="s", value="v", expires=1000000000),
           call("clear", name="gone", expires_days=30), call(name="d", value="v", expires=0, expires_days=2),
           call(name="e", value="v", expires_days=-3)),
        mk(call(value="v", expires_days=4000000), call(name="b", value="v", expires_days=-800000),
           call(name="c", value="v", expires=5, expires_days=4000000), call("signed", name="s", value="v", expires_days=None)),
        # an unrepresentable expiry raises before the jar is touched (was: half-built cookie "a=v" sent, earlier setting lost)
        mk(call(value="1", secure=True), call(value="v", expires=253402300800), call(name="b", value="v", expires=10 ** 18, domain="d.e")),
        mk(call(value="v", expires=2 ** 63), call(value="v", expires=-62135596801), call(name="path", value="v", expires=10 ** 15)),
        mk(call(name="sid", value="abc"), call(name="p", value="q", max_age=0), end=("httperror", 403)),   # seeded C25_2
        mk(call(name="sid", value="abc"), end=("exception", 0)),
        mk(call(name="sid", value="abc"), call("signed", name="t", value="v"), end=("senderror", 409)),
        mk(call(name="sid", value="abc"), end=("redirect", 0)),
        mk(call(name="sid", value="abc"), end=("finish", 0)),
    ]


def _singles():
    """every code point 0..300 (+ a few wide ones) in each argument position"""
    out = []
    pts = list(range(0, 301)) + [0x2003, 0x2028, 0x3000, 0xFEFF, 0x1F600]
    for cp in pts:
        ch = chr(cp)
        cs = [call(value=ch), call(name="b", value="x" + ch + "y"), call(name="c" + ch, value="v"),
              call(name="d", value="v", domain="h" + ch), call(name="e", value="v", path="/" + ch),
              call(name="f", value="v", samesite=ch)]
        if cp < 256:
            out.append(mk(*cs))
        else:               # an accepted non-Latin-1 text suppresses the whole response: one call per case
            out += [mk(c) for c in cs]
    return out


SMALL = "a:\"\\;,= 0\n\xe9\u20ac7/\x7f"


def gen_cases(rng, tier):
    out = []
    n_struct, n_wild = (700, 250) if tier == "quick" else (3500, 1500)
    out += _singles()
    def ending():
        return rng.choice(ENDINGS) if rng.random() < 0.45 else ("return", 0)
    for _ in range(n_struct):
        out.append(mk(*[_rand_call(rng) for _ in range(rng.choice([1, 1, 2, 2, 3, 4]))], end=ending()))
    for _ in range(n_wild):
        out.append(mk(*[_rand_call(rng, wild=True) for _ in range(rng.choice([1, 2, 3]))], end=ending()))
    # every ending after a fixed multi-cookie scenario (set, overwrite, rejected call, clear, signed)
    for e in ENDINGS:
        out.append(mk(call(name="sid", value="old", domain="old.example.com", secure=True),
                      call(name="sid", value="abc123", domain="example.com", path="/app", httponly=True),
                      call(name="pref", value='a;b,"c"=\xe9', max_age=0, samesite="Lax"),
                      call(name="bad name", value="x"), call("clear", name="gone"), call("signed", name="tok", value="v"),
                      end=e))
        out.append(mk(end=e))
    # expiry timestamps: epoch edges, leap days, century rules, year 9999/10000, random instants
    stamps = [1, 59, 60, 3599, 3600, 86399, 86400, 68169599, 68169600, 951782399, 951782400, 951868799, 951868800,
              4102444799, 4102444800, 4107455999, 4107456000, 4107542400, 13569465600, 32503680000, 253402300799,
              2 ** 31 - 1, 2 ** 31, 2 ** 32,
              253402300800, 10 ** 12, 10 ** 15, 67768036191676799, 67768036191676800, 10 ** 18, 2 ** 63 - 1, 2 ** 63, 10 ** 30,
              -1, -86400, -86401, -2208988800, -62135596800, -62135596801, -10 ** 15, -67768040609740800,
              -67768040609740801, -2 ** 63, -2 ** 63 - 1, -10 ** 30]
    if tier == "thorough":
        for y in range(1970, 2112):
            for mo, d in ((2, 28), (3, 1), (12, 31), (1, 1)):
                t0 = calendar.timegm((y, mo, d, 0, 0, 0))
                stamps += [t0 - 1, t0, t0 + 86399]
    stamps += [rng.randrange(1, 2 ** 33) for _ in range(60 if tier == "quick" else 600)]
    stamps += [rng.randrange(-62135596800, 253402300800) for _ in range(40 if tier == "quick" else 600)]
    for i in range(0, len(stamps), 4):
        out.append(mk(*[call(name="t%d" % k, value="v", expires=t) for k, t in enumerate(stamps[i:i + 4])]))
    # bytes arguments: valid UTF-8 of every text class, every malformed shape, in name / value / both, all kinds
    bad = [b"\xff", b"\x80", b"\xc3", b"\xc3\x28", b"\xc0\xaf", b"\xc1\xbf", b"\xe2\x82", b"\xe2\x28\xa1", b"\xe0\x80\xaf",
           b"\xed\xa0\x80", b"\xed\xbf\xbf", b"\xf0\x9f\x98", b"\xf0\x8f\xbf\xbf", b"\xf4\x90\x80\x80", b"\xf5\x80\x80\x80",
           b"ok\xfe", b"\xffok", b"a\xc3\xa9\xc3"]
    good = [b"", b"a", b"v1", "caf\u00e9".encode(), "\u00ff\u0080".encode(), "\u20ac".encode(), "\U0001f600".encode(),
            b'a;b,"c"\\=', b"x y", b"\x7f", "\ud7ff\ue000".encode(), "\U0010ffff".encode(), b"\xc2\x80", b"\xdf\xbf", b"\xe0\xa0\x80",
            b"\xef\xbf\xbf", b"\xf0\x90\x80\x80", b"\xf4\x8f\xbf\xbf"]
    for b in bad + good:
        out.append(mk(call(name="keep", value="1"), bcall(name_b=b"keep", value_b=b), bcall(name_b=b if b else b"n", value_b=b"v"),
                      bcall(kind="clear", name_b=b or b"c"), bcall(kind="signed", name_b=b"s", value_b=b),
                      bcall(kind="signed", name_b=b if b else b"t", value="v")))
    for _ in range(120 if tier == "quick" else 1500):
        ops = []
        for _k in range(rng.choice([1, 2, 3])):
            op = _rand_call(rng)
            r = rng.random()
            nb = op["name"].encode("utf-8", "surrogatepass") if r < 0.6 else None
            vb = op["value"].encode("utf-8", "surrogatepass") if rng.random() < 0.7 else None
            if rng.random() < 0.2:
                junk = rng.choice(bad)
                if rng.random() < 0.5 or nb is None:
                    vb = (vb or b"") + junk
                else:
                    nb = nb + junk
            ops.append(bcall(name_b=nb, value_b=vb, **{k: v for k, v in op.items() if k not in ("name", "value")}
                             , name=op["name"], value=op["value"]))
        out.append(mk(*ops, end=ending()))
    if tier == "thorough":      # every 1- and 2-byte string as a value; every byte as a 1-byte name
        for b0 in range(256):
            out.append(mk(bcall(name_b=b"n", value_b=bytes([b0])), bcall(name_b=bytes([b0]), value_b=b"v")))
        lead = [0x00, 0x41, 0x7f, 0x80, 0xbf, 0xc0, 0xc1, 0xc2, 0xdf, 0xe0, 0xed, 0xef, 0xf0, 0xf4, 0xf5, 0xff]
        for b0 in lead:
            for b1 in lead + [0x9f, 0xa0, 0x8f, 0x90]:
                for b2 in (None, 0x80, 0xbf, 0x41):
                    raw = bytes([b0, b1] + ([b2] if b2 is not None else []))
                    out.append(mk(bcall(name_b=b"n", value_b=raw)))
    # expires x expires_days x kind: the precedence rule on every combination
    for kind in ("set", "signed", "clear"):
        for ex in (None, 0, 1, 1000000000, 253402300799, 253402300800, -5):
            for ed in (None, 0, 1, 30, -365, 4000000):
                out.append(mk(call(kind, name="k", value="v", expires=ex, expires_days=ed)))
    # boundary numbers
    for m in [0, 1, -1, 9, 10, 99, 100, 2 ** 31 - 1, 2 ** 63, -2 ** 63, 10 ** 30]:
        out.append(mk(call(value="v", max_age=m)))
    if tier == "thorough":
        vals = [""] + list(SMALL) + ["".join(p) for p in itertools.product(SMALL, repeat=2)]
        for i in range(0, len(vals), 4):     # every value of length <= 2, four names per response
            out.append(mk(*[call(name="n%d" % k, value=v) for k, v in enumerate(vals[i:i + 4])]))
        for v in ["\\" + "".join(p) for p in itertools.product("0123478\\\"a", repeat=3)][::1]:
            out.append(mk(call(value=v)))
        for i in range(0, len(vals), 3):     # ... as domain / path / samesite text
            ch = vals[i:i + 3]
            out.append(mk(*[call(name="n%d" % k, value="v", domain="h" + v, path="/" + v, samesite=v or None)
                            for k, v in enumerate(ch)]))
        menu = [call(name="a", value="1"), call(name="a", value="2", secure=True), call(name="b", value="3"),
                call(name="a", value="bad value"), call("clear", name="a"), call(name="b", value="4", domain="x;y"),
                call(name="A", value="5")]
        for n in (1, 2, 3):
            for k, seq in enumerate(itertools.product(menu, repeat=n)):
                out.append(mk(*seq, end=ENDINGS[k % len(ENDINGS)] if n == 3 else None))
        for e in ENDINGS:               # all 2-call sequences x every ending
            for seq in itertools.product(menu, repeat=2):
                out.append(mk(*seq, end=e))
    return out


# ----------------------------------------------------------------------------
# evidence helpers

def nontrivial(case, o):
    if not isinstance(o, list) or not any(r == "Ok" for r in o[0]):
        return None
    return G.jsonable(case)


def classify(case, o):
    yield "calls=%d" % len(case["ops"])
    for op in case["ops"]:
        yield "kind=" + op["kind"]
        if op.get("name_b") is not None or op.get("value_b") is not None:
            yield "bytes-arg=" + ("undecodable" if _decoded(op) is None else "utf8")
    if isinstance(o, list) and isinstance(o[0], list):
        for r in o[0]:
            yield "result=" + str(r)
        yield "response=" + ("none" if isinstance(o[2], Tag) else "%d-set-cookie" % min(len(o[2][0]), 3))
        yield "end=" + (case.get("end") or ("return", 0))[0]
        names = [op["name"] for op, r in zip(case["ops"], o[0]) if r == "Ok"]
        if len(names) != len(set(names)):
            yield "same-name-twice"
    text = "".join((op["name"] or "") + (op["value"] or "") + (op["domain"] or "") + (op["path"] or "") + (op["samesite"] or "")
                   for op in case["ops"])
    if any(ord(c) > 255 for c in text):
        yield "has-non-latin1"
    if any(c in text for c in ";\"\\,"):
        yield "has-separator-or-quote"
    if any(ord(c) < 33 or ord(c) == 127 for c in text):
        yield "has-control-or-space"


def signature(case, o):
    try:
        res = o[0]
        ok = [op for op, r in zip(case["ops"], res) if r == "Ok"]
        if isinstance(o[2], Tag) and str(o[2]) == "NoResponse" and ok:
            return "non-latin1-accepted"
        # a call that returned normally, is not superseded by a later successful call of the
        # same name, yet has no header because a later call of that name raised
        names = [h.split(";", 1)[0].split("=", 1)[0].strip(" \t") for h in o[2][0]]
        ops = case["ops"]
        for i, (op, r) in enumerate(zip(ops, res)):
            if r != "Ok" or op["name"] in names:
                continue
            later = [(q, rq) for q, rq in list(zip(ops, res))[i + 1:] if q["name"] == op["name"]]
            if later and all(rq != "Ok" for _, rq in later):
                return "failed-reset-drops-earlier-setting"
        if ok and not o[2][0] and (case.get("end") or ["return"])[0] not in ("return", "finish"):
            return "cookies-lost-on-error-response"
        if any(op["kind"] != "clear" and op["max_age"] == 0 for op in ok):
            return "falsy-max-age-dropped"
    except Exception:
        pass
    return "other"


def shrink(case):
    for cand in _shrink_ops(case):
        cand["end"] = case.get("end") or ["return", 0]
        yield cand
    if (case.get("end") or ["return", 0])[0] != "return":
        yield {"ops": case["ops"], "end": ["return", 0]}


def _shrink_ops(case):
    ops = case["ops"]
    for i, op in enumerate(ops):        # bytes argument -> its str shadow
        for key in ("name_b", "value_b"):
            if op.get(key) is not None:
                yield {"ops": ops[:i] + [{k: v for k, v in op.items() if k != key}] + ops[i + 1:]}
    if len(ops) > 1:
        for i in range(len(ops)):
            yield {"ops": ops[:i] + ops[i + 1:]}
    for i, op in enumerate(ops):
        for key, small in (("domain", None), ("samesite", None), ("path", "/"), ("expires", None), ("max_age", None),
                           ("httponly", False), ("secure", False), ("kind", "set")):
            if op[key] != small:
                yield {"ops": ops[:i] + [dict(op, **{key: small})] + ops[i + 1:]}
        for key in ("value", "name", "domain", "path", "samesite"):
            v = op[key]
            if isinstance(v, str) and len(v) > 1:
                yield {"ops": ops[:i] + [dict(op, **{key: v[:len(v) // 2]})] + ops[i + 1:]}
                yield {"ops": ops[:i] + [dict(op, **{key: v[1:]})] + ops[i + 1:]}
                yield {"ops": ops[:i] + [dict(op, **{key: v[:-1]})] + ops[i + 1:]}


LEVEL_TEXT = ("Machine-checked (Coq) model of set_cookie validation, http.cookies quoting and Morsel.OutputString, the per-response cookie jar, "
              "flush's header check, and parse_cookie/_unquote_cookie, with theorems for every call and every call sequence: an accepted call's "
              "header is read back by parse_cookie as exactly (name, value), a user agent reads exactly the requested attributes (nothing injected), "
              "the jar holds exactly the last accepted setting per name, and the next request's cookies are exactly those pairs. The model is "
              "compared with the running implementation (through HTTPServer on a fake stream) on every generated case.")
LEVEL_NOTE = ("Trusted: Coq kernel/vm_compute; the hand-written model of CPython's http.cookies; opaque expiry/signature text; the harness's user agent. "
              "Legacy **kwargs are not modelled.")
TECHNIQUE = "Coq proof (induction over text and over call sequences) + differential correspondence via vm_compute"
