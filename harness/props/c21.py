"""C21 — escaping and encoding helpers of tornado.escape are safe and invertible.

One case = one operation (or a composition escape -> unescape) on the real
tornado.escape functions, compared with the Gallina model C21.Run.run_case and
checked by C21.Run.check_case.  Text is carried as a list of code points and
bytes as a list of byte values so that cases are JSON-serialisable and lone
surrogates survive."""
import itertools
import json

from harness import gallina as G

ID = "C21"
COQ_DIRS = ["C21"]
PROPERTY_FILE = "C21/Property.v"
RUN_IMPORTS = "From TV Require Import C21.Model C21.Run."
RUN_FN = "run_case"
CHECK_FN = "check_case"
INPUT_TYPE = "c21_in"
T = G.Tag

TRUSTED_BASE = [
    "CPython 3.12 standard library (html, urllib.parse, json, the UTF-8 and latin-1 codecs) is modelled by hand in coq/Lib/C21_Utf8.v, "
    "coq/Lib/C21_Pct.v and coq/C21/Model.v and tied to the running interpreter only by the correspondence cases",
    "html.unescape: numeric references are modelled fully; of the named references only amp/lt/gt/quot (with or without ';') and apos; "
    "are modelled, any other name is reported as OutsideModel by both the model and an independent regex-based predicate in this harness",
    "json_decode is modelled for str input only (the C scanner of json.loads with default options; floats/NaN/Infinity are consumed but reported as OutsideModel); "
    "bytes input to json_decode (encoding detection) is exercised by py_check only",
    "recursive_unicode: dictionary keys are restricted to None/int/str/bytes",
]
ASSUMPTIONS = [
    "byte strings hold values < 256; str arguments hold code points <= 0x10FFFF",
    "JSON values: null, booleans, integers, strings, lists, string-keyed objects (no floats)",
]
RULE = ("per operation: fixed boundary inputs (incl. leading U+FEFF / EF BB BF, U+FFFE, truncated and doubled BOMs for every decoding helper) + random strings over an alphabet of delimiters, controls, UTF-8 boundary bytes, astral and surrogate "
        "code points; thorough adds exhaustive small scopes (all byte strings up to length 3 over a 25-byte UTF-8 boundary alphabet and of length 4 over 8 bytes, every numeric "
        "character reference near the table boundaries, all query strings up to length 4 over {a,=,&,+,%,4,1}); distinct by canonical input; "
        "non-trivial = input non-empty")

# ---------------------------------------------------------------- values
def s_(text):
    return ["s", [ord(c) for c in text]] if isinstance(text, str) else ["s", list(text)]


def b_(data):
    return ["b", list(data)]


def py_sval(v):
    kind, data = v
    return "".join(map(chr, data)) if kind == "s" else bytes(data)


def g_sval(v):
    kind, data = v
    return "(%s %s)" % ("SStr" if kind == "s" else "SBytes", G.gbytes(bytes(data)) if kind == "b" else gcps(data))


def gcps(cps):
    if not cps:
        return "(@nil N)"
    return "[" + ";".join(str(c) for c in cps) + "]%N"


def py_jv(v):
    t = v[0]
    if t == "null":
        return None
    if t in ("bool", "int"):
        return v[1]
    if t == "str":
        return "".join(map(chr, v[1]))
    if t == "arr":
        return [py_jv(x) for x in v[1]]
    if t == "obj":
        return {"".join(map(chr, k)): py_jv(x) for k, x in v[1]}
    raise ValueError(t)


def g_jv(v):
    t = v[0]
    if t == "null":
        return "JNull"
    if t == "bool":
        return "(JBool %s)" % G.gbool(v[1])
    if t == "int":
        return "(JInt %s)" % G.gz(v[1])
    if t == "str":
        return "(JStr %s)" % gcps(v[1])
    if t == "arr":
        return "(JArr %s)" % G.glist([g_jv(x) for x in v[1]], "jv")
    if t == "obj":
        return "(JObj %s)" % G.glist(["(%s, %s)" % (gcps(k), g_jv(x)) for k, x in v[1]], "(list N * jv)")
    raise ValueError(t)


def py_pv(v):
    t = v[0]
    if t == "none":
        return None
    if t == "int":
        return v[1]
    if t == "str":
        return "".join(map(chr, v[1]))
    if t == "bytes":
        return bytes(v[1])
    if t == "list":
        return [py_pv(x) for x in v[1]]
    if t == "tuple":
        return tuple(py_pv(x) for x in v[1])
    if t == "dict":
        return {py_pv(k): py_pv(x) for k, x in v[1]}
    raise ValueError(t)


def g_pv(v):
    t = v[0]
    if t == "none":
        return "PNone"
    if t == "int":
        return "(PInt %s)" % G.gz(v[1])
    if t == "str":
        return "(PStr %s)" % gcps(v[1])
    if t == "bytes":
        return "(PBytes %s)" % gcps(v[1])
    if t == "list":
        return "(PList %s)" % G.glist([g_pv(x) for x in v[1]], "pyval")
    if t == "tuple":
        return "(PTuple %s)" % G.glist([g_pv(x) for x in v[1]], "pyval")
    if t == "dict":
        return "(PDict %s)" % G.glist(["(%s, %s)" % (g_pv(k), g_pv(x)) for k, x in v[1]], "(pyval * pyval)")
    raise ValueError(t)


def o_pv(x):
    """a Python value returned by utf8 / to_unicode / recursive_unicode -> observable"""
    if x is None:
        return None
    if isinstance(x, bool):
        raise TypeError("bool not modelled")
    if isinstance(x, int):
        return x
    if isinstance(x, str):
        return [T("str"), x]
    if isinstance(x, bytes):
        return [T("bytes"), x]
    if isinstance(x, list):
        return [T("list"), [o_pv(i) for i in x]]
    if isinstance(x, tuple):
        return [T("tuple"), [o_pv(i) for i in x]]
    if isinstance(x, dict):
        return [T("dict"), [[o_pv(k), o_pv(v)] for k, v in x.items()]]
    raise TypeError(type(x))


def ostr(x):
    assert type(x) is str, type(x)
    return [T("str"), x]


def obytes(x):
    assert type(x) is bytes, type(x)
    return [T("bytes"), x]


# ---------------------------------------------------------------- implementation runner
KNOWN_NAMES = {"amp", "amp;", "lt", "lt;", "gt", "gt;", "quot", "quot;", "apos;"}


def unescape_in_model(text):
    import html
    for m in html._charref.finditer(text):
        g = m.group(1)
        if not g.startswith("#") and g not in KNOWN_NAMES:
            return False
    return True


def unesc_obs(val):
    from tornado import escape
    try:
        text = escape.to_unicode(val)
    except UnicodeDecodeError:
        return T("UnicodeDecodeError")
    if not unescape_in_model(text):
        return T("OutsideModel")
    return ostr(escape.xhtml_unescape(val))


def url_unesc_obs(val, enc, plus):
    from tornado import escape
    try:
        r = escape.url_unescape(val, encoding=enc, plus=plus)
    except UnicodeDecodeError:
        return T("UnicodeDecodeError")
    except UnicodeEncodeError:
        return T("UnicodeEncodeError")
    return obytes(r) if enc is None else ostr(r)


def qs_obs(val, keep, strict):
    from tornado import escape
    try:
        d = escape.parse_qs_bytes(val, keep_blank_values=keep, strict_parsing=strict)
    except UnicodeEncodeError:
        return T("UnicodeEncodeError")
    except ValueError:
        return T("ValueError")
    out = []
    for k, vs in d.items():
        assert type(k) is str and all(type(v) is bytes for v in vs)
        out.append([k, list(vs)])
    return out


class _Float(Exception):
    pass


def o_jv(x):
    if x is None or isinstance(x, bool) or isinstance(x, int):
        return x
    if isinstance(x, float):
        raise _Float()
    if isinstance(x, str):
        return [T("str"), x]
    if isinstance(x, list):
        return [T("list"), [o_jv(i) for i in x]]
    if isinstance(x, dict):
        return [T("dict"), [[k, o_jv(v)] for k, v in x.items()]]
    raise TypeError(type(x))


def jdec_obs(text):
    from tornado import escape
    try:
        r = escape.json_decode(text)
    except ValueError:
        return T("ValueError")
    try:
        return o_jv(r)
    except _Float:
        return T("OutsideModel")


def run_impl(case):
    from tornado import escape
    op = case["op"]
    if op == "html":
        try:
            e = escape.xhtml_escape(py_sval(case["v"]))
        except UnicodeDecodeError:
            return [T("UnicodeDecodeError")]
        return [ostr(e), unesc_obs(e)]
    if op == "htmlun":
        return unesc_obs(py_sval(case["v"]))
    if op == "url":
        try:
            e = escape.url_escape(py_sval(case["v"]), plus=case["plus"])
        except UnicodeEncodeError:
            return [T("UnicodeEncodeError")]
        return [ostr(e), url_unesc_obs(e, "utf-8", case["plus"]), url_unesc_obs(e, None, case["plus"])]
    if op == "urlun":
        return url_unesc_obs(py_sval(case["v"]), "utf-8" if case["enc"] else None, case["plus"])
    if op == "json":
        e = escape.json_encode(py_jv(case["v"]))
        return [ostr(e), jdec_obs(e)]
    if op == "jsondec":
        return jdec_obs(py_sval(case["v"]))
    if op == "utf8":
        try:
            r = escape.utf8(py_pv(case["v"]))
        except TypeError:
            return [T("TypeError")]
        except UnicodeEncodeError:
            return [T("UnicodeEncodeError")]
        try:
            u = o_pv(escape.to_unicode(r))
        except TypeError:
            u = T("TypeError")
        except UnicodeDecodeError:
            u = T("UnicodeDecodeError")
        return [o_pv(r), u]
    if op == "touni":
        try:
            r = escape.to_unicode(py_pv(case["v"]))
        except TypeError:
            return [T("TypeError")]
        except UnicodeDecodeError:
            return [T("UnicodeDecodeError")]
        try:
            u = o_pv(escape.utf8(r))
        except TypeError:
            u = T("TypeError")
        except UnicodeEncodeError:
            u = T("UnicodeEncodeError")
        return [o_pv(r), u]
    if op == "recuni":
        try:
            return o_pv(escape.recursive_unicode(py_pv(case["v"])))
        except UnicodeDecodeError:
            return T("UnicodeDecodeError")
    if op == "qs":
        return qs_obs(py_sval(case["v"]), case["keep"], case["strict"])
    if op == "qsrt":
        q = "&".join(escape.url_escape(bytes(k)) + "=" + escape.url_escape(bytes(v)) for k, v in case["ps"])
        return [obytes(q.encode("latin-1")), qs_obs(q.encode("latin-1"), case["keep"], case["strict"]),
                qs_obs(q, case["keep"], case["strict"])]
    if op == "qsraw":
        q = b"&".join(_min_escape(bytes(k)) + b"=" + _min_escape(bytes(v)) for k, v in case["ps"])
        return [obytes(q), qs_obs(q, case["keep"], case["strict"]), qs_obs(q.decode("latin-1"), case["keep"], case["strict"])]
    raise ValueError(op)


def _min_escape(b):
    """only & = + % are percent-encoded; every other byte stays raw (independent of tornado and urllib)"""
    return b"".join(b"%%%02X" % c if c in (38, 61, 43, 37) else bytes([c]) for c in b)


def coq_input(case):
    op = case["op"]
    if op == "html":
        return "(IHtml %s)" % g_sval(case["v"])
    if op == "htmlun":
        return "(IHtmlUn %s)" % g_sval(case["v"])
    if op == "url":
        return "(IUrl %s %s)" % (g_sval(case["v"]), G.gbool(case["plus"]))
    if op == "urlun":
        return "(IUrlUn %s %s %s)" % (g_sval(case["v"]), "EncUtf8" if case["enc"] else "EncNone", G.gbool(case["plus"]))
    if op == "json":
        return "(IJson %s)" % g_jv(case["v"])
    if op == "jsondec":
        return "(IJsonDec %s)" % gcps(case["v"][1])
    if op == "utf8":
        return "(IUtf8 %s)" % g_pv(case["v"])
    if op == "touni":
        return "(IToUni %s)" % g_pv(case["v"])
    if op == "recuni":
        return "(IRecUni %s)" % g_pv(case["v"])
    if op == "qs":
        return "(IQs %s %s %s)" % (g_sval(case["v"]), G.gbool(case["keep"]), G.gbool(case["strict"]))
    if op == "qsraw":
        return "(IQsRaw %s %s %s)" % (G.glist(["(%s, %s)" % (gcps(k), gcps(v)) for k, v in case["ps"]], "(list N * list N)"),
                                      G.gbool(case["keep"]), G.gbool(case["strict"]))
    if op == "qsrt":
        return "(IQsRT %s %s %s)" % (G.glist(["(%s, %s)" % (gcps(k), gcps(v)) for k, v in case["ps"]], "(list N * list N)"),
                                     G.gbool(case["keep"]), G.gbool(case["strict"]))
    raise ValueError(op)


# ---------------------------------------------------------------- independent Python oracle
def _has_surrogate_pair(v):
    t = v[0]
    if t == "str":
        s = v[1]
        return any(0xD800 <= x <= 0xDBFF and 0xDC00 <= y <= 0xDFFF for x, y in zip(s, s[1:]))
    if t == "arr":
        return any(_has_surrogate_pair(x) for x in v[1])
    if t == "obj":
        return any(_has_surrogate_pair(["str", k]) or _has_surrogate_pair(x) for k, x in v[1])
    return False


def py_check(case, o):
    """The property, re-stated in Python on the implementation's observable (independent of the model)."""
    from tornado import escape
    op = case["op"]
    if op == "html":
        val = py_sval(case["v"])
        if isinstance(val, bytes):
            try:
                val = val.decode("utf-8")
            except UnicodeDecodeError:
                return o == [T("UnicodeDecodeError")]
        if len(o) != 2:
            return False
        e = o[0][1]
        import re
        if any(c in e for c in "<>\"'"):
            return False
        if re.sub(r"&(amp|lt|gt|quot|#x27);", "", e).count("&"):
            return False
        return o[1] == [T("str"), val]
    if op == "url":
        val = py_sval(case["v"])
        if isinstance(val, str):
            try:
                raw = val.encode("utf-8")
            except UnicodeEncodeError:
                return o == [T("UnicodeEncodeError")]
        else:
            raw = val
        if len(o) != 3 or o[2] != [T("bytes"), raw]:
            return False
        if isinstance(val, str) and o[1] != [T("str"), val]:
            return False
        return True
    if op == "json":
        val = py_jv(case["v"])
        enc = o[0][1]
        if "</" in enc:
            return False
        if _has_surrogate_pair(case["v"]):
            # outside the statement's quantifier (text with lone surrogates): a high surrogate directly followed by a
            # low one is written as \udXXX\udYYY and json.loads reads that back as ONE astral character
            return True
        return escape.json_decode(enc) == val and escape.json_decode(enc.encode("ascii")) == val
    if op == "utf8":
        val = py_pv(case["v"])
        if isinstance(val, str) and len(o) == 2:
            return o[1] == [T("str"), val]
        if not isinstance(val, (str, bytes, type(None))):
            return o == [T("TypeError")]
        return True
    if op == "touni":
        val = py_pv(case["v"])
        if isinstance(val, bytes) and len(o) == 2:
            return o[1] == [T("bytes"), val]
        if not isinstance(val, (str, bytes, type(None))):
            return o == [T("TypeError")]
        return True
    if op in ("qsrt", "qsraw"):
        want = {}
        for k, v in case["ps"]:
            if v or case["keep"]:
                want.setdefault(bytes(k).decode("latin-1"), []).append(bytes(v))
        w = [[k, vs] for k, vs in want.items()]
        return o[1] == w and o[2] == w
    return True


# ---------------------------------------------------------------- generators
TEXT_ALPHA = [0, 9, 10, 12, 13, 31, 32, 34, 35, 37, 38, 39, 43, 47, 48, 49, 52, 55, 59, 60, 61, 62, 65, 70, 92, 97, 102, 120,
              126, 127, 128, 159, 160, 233, 255, 256, 0x7FF, 0x800, 0x20AC, 0xD7FF, 0xE000, 0xFEFF, 0xFFFD, 0xFFFE, 0xFFFF, 0x10000, 0x1F600, 0x10FFFF]
SURR = [0xD800, 0xDBFF, 0xDC00, 0xDFFF]
U8_BOUNDARY = [0x00, 0x41, 0x7F, 0x80, 0x8F, 0x90, 0x9F, 0xA0, 0xBF, 0xC0, 0xC1, 0xC2, 0xDF, 0xE0, 0xE1, 0xEC, 0xED, 0xEE, 0xEF,
               0xF0, 0xF1, 0xF3, 0xF4, 0xF5, 0xFF]


# codec-sensitive leading sequences: a byte-order mark must be ordinary data for every helper
BOM_TEXTS = [[0xFEFF], [0xFEFF, 104, 101, 108, 108, 111], [0xFEFF, 0xFEFF], [0xFEFF, 0xFEFF, 97], [0xFFFE], [0xFFFE, 97],
             [97, 0xFEFF, 98], [0xFEFF, 60, 38, 62, 34, 39], [0xFEFF, 32, 43, 47, 37, 52, 49], [0xFEFF, 233, 0x1F600]]
BOM_BYTES = [list("".join(map(chr, s)).encode("utf-8")) for s in BOM_TEXTS] + \
    [[0xEF, 0xBB], [0xEF, 0xBB, 0x41], [0xEF], [0xEF, 0xBB, 0xBF, 0xFF], [0xFF, 0xFE], [0xFE, 0xFF], [0xFF, 0xFE, 0x61, 0x00],
     [0xEF, 0xBB, 0xBF, 0xEF, 0xBB], [0x2B, 0x2F, 0x76, 0x38]]


def bom_cases():
    """Every operation that decodes or encodes, on inputs that start with U+FEFF / EF BB BF and relatives (both tiers)."""
    out = []
    for s in BOM_TEXTS:
        out.append(C("utf8", v=["str", s]))
        out.append(C("touni", v=["str", s]))
        out.append(C("html", v=["s", s]))
        out.append(C("htmlun", v=["s", s]))
        out.append(C("json", v=["str", s]))
        out.append(C("json", v=["obj", [[s, ["arr", [["str", s]]]]]]))
        for plus in (True, False):
            out.append(C("url", v=["s", s], plus=plus))
            for enc in (True, False):
                out.append(C("urlun", v=["s", s], enc=enc, plus=plus))
    for b in BOM_BYTES:
        out.append(C("touni", v=["bytes", b]))
        out.append(C("utf8", v=["bytes", b]))
        out.append(C("recuni", v=["bytes", b]))
        out.append(C("recuni", v=["list", [["bytes", b], ["tuple", [["bytes", b]]], ["dict", [[["bytes", b], ["bytes", b]]]]]]))
        out.append(C("html", v=["b", b]))
        out.append(C("htmlun", v=["b", b]))
        for plus in (True, False):
            out.append(C("url", v=["b", b], plus=plus))
            for enc in (True, False):
                out.append(C("urlun", v=["b", b], enc=enc, plus=plus))
                out.append(C("urlun", v=s_("".join("%%%02X" % x for x in b) + "a"), enc=enc, plus=plus))
        out.append(C("qs", v=["b", b + [61] + b], keep=True, strict=False))
        out.append(C("qsrt", ps=[[b, b], [b, []]], keep=True, strict=True))
    return out


def rtext(rng, n=None, surr=0.0, alpha=TEXT_ALPHA):
    n = rng.randrange(0, 9) if n is None else n
    out = []
    for _ in range(n):
        r = rng.random()
        if r < surr:
            out.append(rng.choice(SURR))
        elif r < 0.8:
            out.append(rng.choice(alpha))
        else:
            c = rng.choice([rng.randrange(0, 128), rng.randrange(128, 0x800), rng.randrange(0x800, 0xD800),
                            rng.randrange(0xE000, 0x10000), rng.randrange(0x10000, 0x110000)])
            out.append(c)
    return out


def rbytes(rng, n=None):
    n = rng.randrange(0, 9) if n is None else n
    return [rng.choice(U8_BOUNDARY + [32, 37, 38, 43, 47, 61]) if rng.random() < 0.6 else rng.randrange(256) for _ in range(n)]


def rvalid_bytes(rng):
    lead = rng.choice(BOM_TEXTS) if rng.random() < 0.12 else []
    return list("".join(map(chr, lead + rtext(rng))).encode("utf-8"))


def rsval(rng, surr=0.05):
    r = rng.random()
    if r < 0.55:
        lead = rng.choice(BOM_TEXTS) if rng.random() < 0.1 else []
        return ["s", lead + rtext(rng, surr=surr)]
    if r < 0.8:
        return ["b", rvalid_bytes(rng)]
    return ["b", rbytes(rng)]


HTML_PIECES = ["\ufeff", "\ufffe", "&", "&amp;", "&amp", "&lt;", "&lt", "&gt;", "&gt", "&quot;", "&quot", "&apos;", "&#", "&#x", "&#X", "&#x27;", "&#39;",
               "&#X41", "&#65", "&#0;", "&#13;", "&#x80;", "&#150;", "&#159;", "&#xD800;", "&#xDFFF;", "&#x110000;", "&#1114111;",
               "&#xFFFE;", "&#11;", "&#x7f;", "&#xFDD0;", "&#x1FFFF;", "&#00065;", "&#x0041;", "&#xg;", "&#x;", "&#;", "&#a",
               "a", ";", " ", "#", "x", "X", "1", "f", "<", ">", "\"", "'", "\t", "\n", "é", "\U0001F600", "&&", "&;", "& ", "&a ", "&amp;amp;"]
HTML_OUTSIDE = ["&apos", "&notin;", "&ampx", "&AMP;", "&nbsp;", "&a", "&x;", "&ltx;", "&quo", "&abcdefghijklmnopqrstuvwxyzabcdefghij;", "&é;"]

URL_PIECES = ["\ufeff", "%EF%BB%BF", "%ef%bb", "\ufffe", "%41", "%e9", "%E9", "%c3%a9", "%C3%A9", "%zz", "%", "%4", "%%41", "+", " ", "/", "a", "~", "%2B", "%2b", "%20", "%25", "%e2%82%ac",
              "%f0%9f%98%80", "%ed%a0%80", "%c0%af", "%e2%82", "%ff", "%80", "é", "€", "\U0001F600", "&", "=", "%1", "%g1", "%1g", "%00"]

QS_PIECES = ["%EF%BB%BF", "a", "b", "=", "&", "+", "%41", "%4", "%", "%zz", "%e9", "%26", "%3D", "%2B", "é", "ÿ", ";", " ", "a=1", "&&", "==", "a=&", "=b"]


JDEC_PIECES = ["{", "}", "[", "]", ",", ":", "\"", "\"a\"", "\"\\u00e9\"", "\"\\ud83d\\ude00\"", "\"\\uD83D\\uDE00\"", "\"\\ud83d\"",
               "\"\\ud83dx\"", "\"\\ud83d\\u0041\"", "\"\\udc00\"", "\"\\ud83d\\ude0\"", "\"\\ud83d\\ude0g\"", "\\", "\"\\/\"", "\"<\\/\"", "\"\\x\"",
               "\"\\n\\t\\r\\b\\f\\\\\\\"\"", " ", "\n", "\t", "\r", "\x0c", "null", "true", "false", "nul", "tru", "NaN", "Infinity", "-Infinity", "-Inf",
               "-", "0", "01", "-0", "-01", "12", "1.5", "1.", "1e5", "1e", "1E+5", "1e+", "1e-", "1.5e-3", ".5", "-.5", "12345678901234567890123",
               "\"\\u12g4\"", "\"\\u12\"", "\"\x01\"", "\"\x1f\"", "\"\x7f\"", "\ufeff", "\"k\":1", "{\"a\":1,\"a\":2,\"b\":3,\"a\":4}", "[1,]", "[,1]",
               "{\"a\"}", "{\"a\":}", "{1:2}", "{\"a\":1,}", "\"é€\U0001F600\"", "[[]]", "{}", "[ ]", "{ }", "[1 ,2]", "{\"a\" : [ ] }", "\xa0", "'a'", "u"]


def rconcat(rng, pieces, n=None):
    n = rng.randrange(0, 6) if n is None else n
    return "".join(rng.choice(pieces) for _ in range(n))


def rjv(rng, depth=0):
    r = rng.random()
    if depth >= 3 or r < 0.55:
        k = rng.randrange(6)
        if k == 0:
            return ["null"]
        if k == 1:
            return ["bool", rng.random() < 0.5]
        if k == 2:
            return ["int", rng.choice([0, 1, -1, 9, 10, -10, 255, 2 ** 31, -2 ** 63, 2 ** 70 + 12345, rng.randrange(-10 ** 6, 10 ** 6), 10 ** 25, 100, 1001])]
        return ["str", rjstr(rng)]
    if r < 0.8:
        return ["arr", [rjv(rng, depth + 1) for _ in range(rng.randrange(0, 4))]]
    keys, items = set(), []
    for _ in range(rng.randrange(0, 4)):
        k = tuple(rjstr(rng))
        if k in keys:
            continue
        keys.add(k)
        items.append([list(k), rjv(rng, depth + 1)])
    return ["obj", items]


JSON_PIECES = ["\ufeff", "\ufffe", "</", "<", "/", "</script>", "<\\/", "\\", "\"", "\n", "\r", "\t", "\b", "\f", "\x00", "\x1f", " ", "~", "\x7f", "\x80", "é", "€",
               "￿", "\U00010000", "\U0001F600", "\U0010FFFF", "a", "<<//", "<</", "u", "\\u"]


def rjstr(rng):
    r = rng.random()
    if r < 0.6:
        return [ord(c) for c in rconcat(rng, JSON_PIECES, rng.randrange(0, 5))]
    return rtext(rng, rng.randrange(0, 5), surr=0.1)


def rpv(rng, depth=0, scalar=False):
    r = rng.random()
    if scalar or depth >= 3 or r < 0.6:
        k = rng.randrange(5)
        if k == 0:
            return ["none"]
        if k == 1:
            return ["int", rng.choice([0, 5, -7, 2 ** 40])]
        if k == 2:
            return ["str", rtext(rng, rng.randrange(0, 4), surr=0.1)]
        if k == 3:
            return ["bytes", rvalid_bytes(rng)[:6] if rng.random() < 0.85 else rbytes(rng, rng.randrange(1, 4))]
        return ["bytes", list(rng.choice([b"a", b"", b"k", "é".encode()]))]
    if r < 0.75:
        return ["list", [rpv(rng, depth + 1) for _ in range(rng.randrange(0, 4))]]
    if r < 0.87:
        return ["tuple", [rpv(rng, depth + 1) for _ in range(rng.randrange(0, 4))]]
    items, seen = [], set()
    for _ in range(rng.randrange(0, 4)):
        k = rng.choice([["str", [97]], ["bytes", [97]], ["str", [107]], ["bytes", [107]], ["none"], ["int", 1], rpv(rng, scalar=True)])
        key = repr(k)
        if key in seen:
            continue
        seen.add(key)
        items.append([k, rpv(rng, depth + 1)])
    return ["dict", items]


def _esc_json(v):
    """json.dumps of a generated value (stdlib only: used to build damaged inputs for json_decode, not as an oracle)"""
    import json as _json
    return _json.dumps(py_jv(v))


def C(op, **kw):
    d = {"op": op}
    d.update(kw)
    return d


def corpus_cases():
    out = [
        C("html", v=s_("<a href=\"x\">it's & co</a>")),
        C("html", v=s_("&amp;lt; &#x27; &quot")),
        C("html", v=b_("café <b>".encode())),
        C("html", v=b_(b"\xff<")),
        C("html", v=["s", [0xD800, 60]]),
        C("url", v=s_("a b+c/d~%41é\U0001F600"), plus=True),
        C("url", v=s_("a b+c/d~%41é\U0001F600"), plus=False),
        C("url", v=b_(bytes(range(256))), plus=True),
        C("url", v=b_(bytes(range(256))), plus=False),
        C("url", v=["s", [0xDC00]], plus=True),
        C("urlun", v=b_(b"\xff+%41"), enc=False, plus=False),
        C("urlun", v=b_(b"\xff+%41"), enc=False, plus=True),
        C("urlun", v=s_("%ed%a0%80%f0%9f+%zz"), enc=True, plus=True),
        C("json", v=["str", [ord(c) for c in "</script><\\/ \U0001F600"]]),
        C("json", v=["arr", [["str", [60]], ["str", [47]]]]),
        C("json", v=["obj", [[[60, 47], ["int", -(2 ** 70)]]]]),
        C("utf8", v=["str", [0xFEFF, 104, 101, 108, 108, 111]]),          # to_unicode(utf8(BOM + "hello")) must keep the BOM
        C("touni", v=["bytes", [0xEF, 0xBB, 0xBF, 104, 101, 108, 108, 111]]),
        C("html", v=["b", [0xEF, 0xBB, 0xBF, 60]]),
        C("recuni", v=["list", [["bytes", [0xEF, 0xBB, 0xBF]]]]),
        C("json", v=["str", [0xDBFF, 0xDC00]]),          # adjacent lone surrogates: decode merges them (outside the quantifier)
        C("json", v=["str", [0xDC00, 0xDBFF, 65]]),      # isolated lone surrogates do round-trip
        C("utf8", v=["int", 5]), C("utf8", v=["str", [0xD800]]), C("utf8", v=["list", []]),
        C("touni", v=["int", 5]), C("touni", v=["bytes", [0xC0, 0xAF]]), C("touni", v=["dict", []]),
        C("recuni", v=["dict", [[["bytes", [97]], ["int", 1]], [["str", [97]], ["list", [["bytes", [98]], ["tuple", [["bytes", [0xC3, 0xA9]]]]]]]]]),
        C("qs", v=b_(b"a=1&a=2&b=%e9+x&c&=d&e="), keep=False, strict=False),
        C("qs", v=b_(b"a=1&a=2&b=%e9+x&c&=d&e="), keep=True, strict=False),
        C("qs", v=b_(b"a=1&c"), keep=True, strict=True),
        C("qs", v=s_("k=€"), keep=False, strict=False),
        C("qsrt", ps=[[[97, 32, 38], [61, 43, 37, 255]], [[97, 32, 38], []], [[], [0]]], keep=True, strict=False),
        C("qsrt", ps=[[[97, 32, 38], [61, 43, 37, 255]], [[97, 32, 38], []], [[], [0]]], keep=False, strict=True),
        C("qsraw", ps=[[[113], [118, 111, 105, 108, 0xC3, 0xA0]]], keep=False, strict=False),     # trailing 0xA0 must survive
        C("qsraw", ps=[[[0xA0, 110], [118]], [[9], [32, 13, 10]]], keep=True, strict=True),
    ]
    return out


def gen_cases(rng, tier):
    thorough = tier != "quick"
    k = 4 if thorough else 1
    out = bom_cases()
    # ---- HTML escape -> unescape
    for c in [38, 60, 62, 34, 39, 59, 35]:
        out.append(C("html", v=["s", [c]]))
    for _ in range(100 * k):
        v = rsval(rng)
        if rng.random() < 0.5:
            v = s_(rconcat(rng, HTML_PIECES + HTML_OUTSIDE))
        out.append(C("html", v=v))
    # ---- HTML unescape alone
    for p in HTML_PIECES + HTML_OUTSIDE:
        out.append(C("htmlun", v=s_(p)))
        out.append(C("htmlun", v=s_(p + "z")))
    for _ in range(120 * k):
        pieces = HTML_PIECES if rng.random() < 0.8 else HTML_PIECES + HTML_OUTSIDE
        t = rconcat(rng, pieces, rng.randrange(1, 6))
        out.append(C("htmlun", v=(s_(t) if rng.random() < 0.8 else b_(t.encode("utf-8")))))
    nums = set(range(0, 0xA2)) | set(range(0xD7FE, 0xD802)) | set(range(0xDFFE, 0xE002)) | set(range(0xFDCE, 0xFDF2)) | \
        set(range(0xFFFC, 0x10002)) | {0x1FFFD, 0x1FFFE, 0x1FFFF, 0x20000, 0x10FFFD, 0x10FFFE, 0x10FFFF, 0x110000, 0x110001, 2 ** 32, 10 ** 20}
    if thorough:
        nums |= set(range(0, 0x300))
        for pl in range(1, 17):
            nums |= {pl * 0x10000 - 2, pl * 0x10000 - 1, pl * 0x10000, pl * 0x10000 + 0xFFFD, pl * 0x10000 + 0xFFFE, pl * 0x10000 + 0xFFFF}
    nums = sorted(nums)
    if not thorough:
        nums = [n for i, n in enumerate(nums) if n < 0x21 or 0x7E <= n <= 0xA1 or i % 2 == 0]
    for n in nums:
        form = rng.choice(["&#%d;", "&#x%x;", "&#X%X;", "&#%d", "&#x%x "]) if not thorough else None
        for f in ([form] if form else ["&#%d;", "&#x%x", "&#X%X;"]):
            out.append(C("htmlun", v=s_(f % n)))
    # ---- URL escape -> unescape (both result types)
    for plus in (True, False):
        for _ in range(70 * k):
            out.append(C("url", v=rsval(rng), plus=plus))
        for bs in ([[b] for b in range(256)] if thorough else [list(range(i, i + 16)) for i in range(0, 256, 16)]):
            out.append(C("url", v=["b", bs], plus=plus))
        for c in ([32, 43, 47, 37, 126, 127, 128, 0x7FF, 0x800, 0xFFFF, 0x10000, 0x10FFFF, 0xD7FF, 0xE000]):
            out.append(C("url", v=["s", [c]], plus=plus))
    # ---- URL unescape alone
    for enc in (True, False):
        for plus in (True, False):
            for p in URL_PIECES:
                out.append(C("urlun", v=s_(p), enc=enc, plus=plus))
            for _ in range(35 * k):
                t = rconcat(rng, URL_PIECES, rng.randrange(1, 6))
                r = rng.random()
                if r < 0.6:
                    v = s_(t)
                elif r < 0.8:
                    v = b_(t.encode("utf-8"))
                else:
                    v = ["b", list(t.encode("utf-8")) + rbytes(rng, 2)]
                out.append(C("urlun", v=v, enc=enc, plus=plus))
    # percent-encoded byte sequences: drives the UTF-8 'replace' decoder
    seqs = []
    if thorough:
        for n in (1, 2, 3):
            seqs += [list(t) for t in itertools.product(U8_BOUNDARY, repeat=n)]
        small = [0x41, 0x80, 0x8F, 0x90, 0xBF, 0xE0, 0xF0, 0xF4]
        seqs += [list(t) for t in itertools.product(small, repeat=4)]
    else:
        seqs += [[b] for b in U8_BOUNDARY]
        seqs += [list(t) for t in itertools.product(U8_BOUNDARY, repeat=2) if rng.random() < 0.3]
        for _ in range(200):
            seqs.append([rng.choice(U8_BOUNDARY) for _ in range(rng.choice([3, 3, 4, 4, 5, 6]))])
    for i, sq in enumerate(seqs):
        both = thorough and len(sq) <= 2     # longer sequences alternate between the replace and the strict decoder
        if both or i % 2 == 0:
            out.append(C("urlun", v=s_("".join("%%%02x" % b for b in sq)), enc=True, plus=False))
        if both or i % 2 == 1:
            out.append(C("touni", v=["bytes", sq]))
    # ---- JSON
    for _ in range(150 * k):
        out.append(C("json", v=rjv(rng)))
    # ---- json_decode on arbitrary text: pieces, and damaged encodings of random values
    for p in JDEC_PIECES:
        out.append(C("jsondec", v=s_(p)))
    for _ in range(200 * k):
        out.append(C("jsondec", v=s_(rconcat(rng, JDEC_PIECES, rng.randrange(1, 6)))))
    for _ in range(100 * k):
        e = list(_esc_json(rjv(rng)))
        r = rng.random()
        if e and r < 0.3:
            del e[rng.randrange(len(e))]
        elif r < 0.6:
            e.insert(rng.randrange(len(e) + 1), rng.choice(" \n\t,:]}[{\"\\0e.-"))
        elif e and r < 0.8:
            i = rng.randrange(len(e))
            e[i] = rng.choice(" ,:]}[{\"\\1a")
        out.append(C("jsondec", v=s_("".join(e))))
    if thorough:
        for n in range(0, 5):
            for tup in itertools.product("[]{},:\"1", repeat=n):
                out.append(C("jsondec", v=s_("".join(tup))))
        for tup in itertools.product(["\"", "\\", "u", "d", "8", "c", "0", "/", "n"], repeat=5):
            if rng.random() < 0.03:
                out.append(C("jsondec", v=s_("\"" + "".join(tup) + "\"")))
    for c in list(range(0, 0x30)) + [0x5C, 0x7E, 0x7F, 0x80, 0xFF, 0x100, 0xFFF, 0x1000, 0xD7FF, 0xD800, 0xDFFF, 0xE000, 0xFFFF, 0x10000, 0x103FF, 0x10400, 0x10FFFF]:
        out.append(C("json", v=["str", [c]]))
    for z in [0, 1, -1, 9, 10, 99, 100, -100, 2 ** 63, -2 ** 63 - 1, 10 ** 30]:
        out.append(C("json", v=["int", z]))
    # ---- utf8 / to_unicode / recursive_unicode
    for _ in range(80 * k):
        out.append(C("utf8", v=rpv(rng)))
        out.append(C("touni", v=rpv(rng)))
        out.append(C("recuni", v=rpv(rng)))
    for c in TEXT_ALPHA + SURR + [0x7F, 0x80, 0x7FF, 0x800, 0xFFFF, 0x10000]:
        out.append(C("utf8", v=["str", [c]]))
        out.append(C("utf8", v=["str", [65, c, 66]]))
    # ---- parse_qs_bytes
    flags = [(a, b) for a in (False, True) for b in (False, True)]
    for _ in range(120 * k):
        t = rconcat(rng, QS_PIECES, rng.randrange(0, 8))
        keep, strict = rng.choice(flags)
        r = rng.random()
        if r < 0.5:
            v = b_(t.encode("latin-1"))
        elif r < 0.85:
            v = s_(t)
        else:
            v = s_(t + rng.choice(["€", "Ā=Ā", "=€", "&\U0001F600"]) + rconcat(rng, QS_PIECES, 2))
        out.append(C("qs", v=v, keep=keep, strict=strict))
    if thorough:
        for n in range(0, 5):
            for t in itertools.product("a=&+%41", repeat=n):
                keep, strict = flags[(len(out)) % 4] if n == 4 else (None, None)
                for kp, st in ([(keep, strict)] if n == 4 else flags):
                    out.append(C("qs", v=b_("".join(t).encode()), keep=kp, strict=st))
    else:
        for n in range(0, 4):
            for t in itertools.product("a=&+%4", repeat=n):
                keep, strict = rng.choice(flags)
                out.append(C("qs", v=b_("".join(t).encode()), keep=keep, strict=strict))
    # ---- parse_qs_bytes(encode(pairs))
    for _ in range(80 * k):
        ps = []
        names = [rbytes(rng, rng.randrange(0, 4)) for _ in range(3)]
        for _ in range(rng.randrange(0, 5)):
            ps.append([rng.choice(names), rng.choice([[], rbytes(rng, rng.randrange(0, 5)), [rng.randrange(256)]])])
        keep, strict = rng.choice(flags)
        out.append(C("qsrt", ps=ps, keep=keep, strict=strict))
    # ---- raw (minimally escaped) query strings: every byte value first, last and inside a name / value
    WSLIKE = [0x09, 0x0A, 0x0B, 0x0C, 0x0D, 0x1C, 0x1D, 0x1E, 0x1F, 0x20, 0x85, 0xA0]
    for w in WSLIKE:
        out.append(C("qsraw", ps=[[[w, 110], [118]]], keep=False, strict=False))            # first byte of the string
        out.append(C("qsraw", ps=[[[113], [118, w]]], keep=False, strict=True))             # last byte of the string
        out.append(C("qsraw", ps=[[[110, w, 110], [118, w, 118]], [[w], [w]]], keep=True, strict=False))
        out.append(C("qs", v=["b", [w, 110, 61, 118, w]], keep=False, strict=False))
        out.append(C("qs", v=["s", [w, 110, 61, 118, w]], keep=True, strict=True))
        out.append(C("qs", v=["b", [110, 61, 118, w, w]], keep=False, strict=False))
    out.append(C("qsraw", ps=[[[113], [118, 111, 105, 108, 0xC3, 0xA0]]], keep=False, strict=False))   # b'q=voil\xc3\xa0'
    for bv in range(256):
        if thorough or bv % 3 == 0 or bv in WSLIKE or bv in (37, 38, 43, 61):
            out.append(C("qsraw", ps=[[[bv, 97], [98, bv]]], keep=False, strict=True))
    for _ in range(60 * k):
        ps = []
        for _ in range(rng.randrange(1, 4)):
            kk = [rng.choice(WSLIKE + [37, 38, 43, 61, 97, 0xC3, 0xFF]) if rng.random() < 0.6 else rng.randrange(256) for _ in range(rng.randrange(0, 4))]
            vv = [rng.choice(WSLIKE + [37, 38, 43, 61, 97, 0xC3, 0xFF]) if rng.random() < 0.6 else rng.randrange(256) for _ in range(rng.randrange(0, 4))]
            ps.append([kk, vv])
        keep, strict = rng.choice(flags)
        out.append(C("qsraw", ps=ps, keep=keep, strict=strict))
    for b in range(256):
        if thorough or b % 4 == 0 or b in (32, 37, 38, 43, 61):
            out.append(C("qsrt", ps=[[[b], [b, b]]], keep=True, strict=True))
    return out


# ---------------------------------------------------------------- evidence helpers
def _payload(case):
    op = case["op"]
    if op in ("qsrt", "qsraw"):
        return case["ps"]
    v = case["v"]
    return v[1] if len(v) > 1 else []


def nontrivial(case, o):
    if not _payload(case):
        return None
    return json.dumps(case, sort_keys=True)


def classify(case, o):
    yield "op=" + case["op"]
    if isinstance(o, G.Tag):
        yield "result=" + str(o)
    elif isinstance(o, list) and len(o) == 1 and isinstance(o[0], G.Tag):
        yield "result=" + str(o[0])
    if case["op"] in ("html", "htmlun", "url", "urlun", "qs", "jsondec"):
        yield "arg=" + ("str" if case["v"][0] == "s" else "bytes")
        n = len(case["v"][1])
        yield "len=" + ("0" if n == 0 else "1" if n == 1 else "2-8" if n <= 8 else "9+")


def signature(case, o):
    return "%s:%s" % (case["op"], o if isinstance(o, G.Tag) else "value")


def shrink(case):
    op = case["op"]
    if op in ("qsrt", "qsraw"):
        ps = case["ps"]
        for i in range(len(ps)):
            yield dict(case, ps=ps[:i] + ps[i + 1:])
        for i, (k, v) in enumerate(ps):
            if k:
                yield dict(case, ps=ps[:i] + [[k[:-1], v]] + ps[i + 1:])
            if v:
                yield dict(case, ps=ps[:i] + [[k, v[:-1]]] + ps[i + 1:])
        return
    v = case["v"]
    if op in ("html", "htmlun", "url", "urlun", "qs", "jsondec"):
        kind, data = v
        if data:
            yield dict(case, v=[kind, data[: len(data) // 2]])
            yield dict(case, v=[kind, data[len(data) // 2:]])
            for i in range(len(data)):
                yield dict(case, v=[kind, data[:i] + data[i + 1:]])
        return
    if v[0] in ("arr", "list", "tuple", "obj", "dict"):
        items = v[1]
        for i in range(len(items)):
            yield dict(case, v=[v[0], items[:i] + items[i + 1:]])
        for it in items:
            yield dict(case, v=(it if v[0] in ("arr", "list", "tuple") else it[1]))
    if v[0] in ("str", "bytes") and v[1]:
        yield dict(case, v=[v[0], v[1][:-1]])
        yield dict(case, v=[v[0], v[1][1:]])


LEVEL_TEXT = ("Machine-checked (Coq) proofs over a hand-written executable model of tornado.escape and the standard-library routines it wraps: "
              "xhtml_unescape(xhtml_escape(s)) = s and the escaped text contains no <, >, quote, apostrophe and no & outside the five entities; "
              "url_unescape(url_escape(x)) = x in both plus modes, for text and for the bytes-returning form; the UTF-8 encoder and strict decoder "
              "are mutually inverse; json_encode output never contains '</' and json_decode(json_encode(v)) = v for every JSON value without floats "
              "and lone surrogates (a model of the json.loads scanner is proved to invert the printer followed by the '</' replacement); "
              "recursive_unicode leaves no byte string; parse_qs_bytes of an escaped name=value list returns exactly the grouped pairs. "
              "The model is compared with the running implementation on generated and exhaustively enumerated small inputs.")
LEVEL_NOTE = ("Trusted: Coq kernel/vm_compute; the hand-written model of CPython's html/urllib.parse/json/codecs behaviour, tied to the interpreter "
              "only by the correspondence run; the harness. json_decode of bytes and floats are not modelled; named HTML "
              "references other than the five produced ones are outside the model.")
TECHNIQUE = "Coq proofs (structural induction, transducer run lemmas, lia with div/mod) + differential correspondence via vm_compute"
