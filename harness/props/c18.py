"""C18 — native masking routine vs reference definition."""
import importlib.machinery
import importlib.util
import os
import shutil
import subprocess
import sysconfig
import tempfile

from harness import gallina as G
from harness.framework import REPO, COQ, SCRATCH

ID = "C18"
COQ_DIRS = ["C18", "Gen"]
PROPERTY_FILE = "C18/Property.v"
RUN_IMPORTS = "From TV Require Import C18.Model C18.Run."
RUN_FN = "run_case"
CHECK_FN = "check_case"
INPUT_TYPE = "(bool * list N * list N)"
TRUSTED_BASE = [
    "translators/c18_src.py (strict token-pattern reader of speedups.c / _websocket_mask_python; fails closed)",
    "gcc building tornado/speedups.c from the working tree; C undefined behaviour (unaligned/aliasing word access) is outside the model; payloads at every address residue mod 8 are presented through ctypes views (the `s#` parser rejects memoryview but accepts them) and compared with the same model, which is alignment-independent",
    "machine words are modelled as N assembled from bytes (both endiannesses proved); this host is little-endian",
]
ASSUMPTIONS = ["payload and mask elements are bytes (< 256)"]
RULE = ("lengths 0..L exhaustively (several masks each) x {compiled, python fallback} plus random long payloads and bad mask lengths; "
        "distinct by (routine, mask, data); non-trivial = payload non-empty or mask rejected")


def pre_build():
    import importlib
    import sys
    sys.path.insert(0, os.path.join(os.path.dirname(COQ), "translators"))
    import c18_src
    importlib.reload(c18_src)
    c18_src.emit(REPO, os.path.join(COQ, "Gen", "C18_src.v"))


_ext = {}


def native():
    if "f" in _ext:
        return _ext["f"]
    d = tempfile.mkdtemp(prefix="c18_", dir=SCRATCH)
    try:
        inc = sysconfig.get_paths()["include"]
        so = os.path.join(d, "speedups.so")
        subprocess.run(["gcc", "-shared", "-fPIC", "-O2", "-I", inc, os.path.join(REPO, "tornado", "speedups.c"), "-o", so],
                       check=True, stdout=subprocess.PIPE, stderr=subprocess.STDOUT, timeout=120)
        loader = importlib.machinery.ExtensionFileLoader("speedups", so)
        spec = importlib.util.spec_from_loader("speedups", loader)
        mod = importlib.util.module_from_spec(spec)
        loader.exec_module(mod)
        _ext["f"] = mod.websocket_mask
    finally:
        shutil.rmtree(d, ignore_errors=True)
    return _ext["f"]


def run_impl(case):
    isc, mask, data, off = case["c"], case["mask"].encode("latin-1"), case["data"].encode("latin-1"), case.get("off", 0)
    if isc:
        f = native()
        arg = data
        if off and data:
            # a ctypes view at a chosen offset of a (malloc-aligned) bytearray: the only way
            # the `s#` parser lets Python present a payload that is not 8-byte aligned
            import ctypes
            raw = bytearray(len(data) + 8)
            base = ctypes.addressof(ctypes.c_char.from_buffer(raw))
            shift = (off - base) % 8          # address of the payload = off (mod 8)
            raw[shift:shift + len(data)] = data
            arg = (ctypes.c_char * len(data)).from_buffer(raw, shift)
            assert ctypes.addressof(arg) % 8 == off % 8
    else:
        from tornado.util import _websocket_mask_python as f
        arg = data
    try:
        return bytes(f(mask, arg))
    except ValueError:
        return G.Tag("ValueError")


def coq_input(case):
    return "(%s, %s, %s)" % (G.gbool(case["c"]), G.gbytes(case["mask"].encode("latin-1")), G.gbytes(case["data"].encode("latin-1")))


def py_check(case, o):
    mask, data = case["mask"].encode("latin-1"), case["data"].encode("latin-1")
    if len(mask) != 4:
        return o == G.Tag("ValueError") and isinstance(o, G.Tag)
    return o == bytes(b ^ mask[i % 4] for i, b in enumerate(data))


def mk(isc, mask, data, off=0):
    return {"c": isc, "mask": bytes(mask).decode("latin-1"), "data": bytes(data).decode("latin-1"), "off": off}


def corpus_cases():
    return [mk(True, b"\x01\x02\x03\x04", bytes(range(13))), mk(True, b"abc", b"x"), mk(False, b"abcde", b"")]


def gen_cases(rng, tier):
    out = []
    L = 72 if tier == "quick" else 300
    for n in range(L + 1):
        for off in ((0, n % 8 or 1, (n * 3 + 5) % 8) if tier == "quick" else range(8)):
            mask = bytes(rng.randrange(256) for _ in range(4))
            data = bytes(rng.randrange(256) for _ in range(n))
            out.append(mk(True, mask, data, off))
        out.append(mk(False, bytes(rng.randrange(256) for _ in range(4)), bytes(rng.randrange(256) for _ in range(n))))
    for _ in range(30 if tier == "quick" else 400):
        n = rng.choice([rng.randrange(73, 600), rng.randrange(600, 4097)])
        mask = rng.choice([bytes(rng.randrange(256) for _ in range(4)), b"\xff\x00\xff\x00", b"\x00\x00\x00\x01", b"\x80\x00\x00\x00"])
        out.append(mk(rng.random() < 0.8, mask, bytes(rng.randrange(256) for _ in range(n)), rng.randrange(8)))
    for ml in (0, 1, 2, 3, 5, 8):
        for isc in (True, False):
            out.append(mk(isc, bytes(rng.randrange(256) for _ in range(ml)), bytes(rng.randrange(256) for _ in range(rng.randrange(12)))))
    if tier == "thorough":   # the full alignment sweep (checked against the reference by py_check only)
        for n in range(301, 4097, 1):
            mask = bytes(rng.randrange(256) for _ in range(4))
            out.append(mk(True, mask, bytes(rng.randrange(256) for _ in range(n)), n % 8))
    return out


def coq_select(i, case):
    return len(case["data"]) <= 600 or i % 16 == 0


def nontrivial(case, o):
    if len(case["data"]) == 0 and len(case["mask"]) == 4:
        return None
    return (case["c"], case["mask"], case["data"])


def classify(case, o):
    n = len(case["data"])
    yield "routine=" + ("native" if case["c"] else "python")
    yield "len=" + ("0" if n == 0 else "1-3" if n < 4 else "4-7" if n < 8 else "8-71" if n < 72 else "72+")
    yield "tail=%d" % (n % 4)
    yield "masklen=%d" % len(case["mask"])
    if case["c"]:
        yield "addr%%8=%d" % (case.get("off", 0) % 8)


def signature(case, o):
    return "len%%8=%d" % (len(case["data"]) % 8)


def shrink(case):
    d = case["data"]
    if len(d) > 0:
        yield dict(case, data=d[: len(d) // 2])
        yield dict(case, data=d[:-1])
        yield dict(case, data=d[1:])
    if case.get("off"):
        yield dict(case, off=0)

LEVEL_TEXT = ("Machine-checked (Coq) proof that the word-level strategy of speedups.c (8-byte blocks with the doubled mask, 4-byte blocks, "
              "direct-indexed tail; both endiannesses) equals byte i XOR mask[i mod 4] for every mask and payload length, that bad mask lengths "
              "are rejected, and that masking is an involution. The strategy description is regenerated from speedups.c on every run by a "
              "fail-closed translator and the compiled routine + Python fallback are compared with the model on all lengths up to a bound.")
LEVEL_NOTE = ("Trusted: Coq kernel/vm_compute; the token-pattern translator; gcc; the N-from-bytes word model (C UB such as unaligned access is not modelled "
              "and cannot be provoked through the s# API); correspondence harness.")
TECHNIQUE = "Coq proof (induction over blocks, N bitwise lemmas) + translator from speedups.c + differential correspondence via vm_compute"
