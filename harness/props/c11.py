"""C11 — IOStream reads return exactly the incoming bytes, in order, per request.

Also hosts the driver shared with C13 (Session: the real BaseIOStream over the
scripted FakeIOStream transport, every future settlement / add_callback /
close_fd logged in true order)."""
import asyncio
import errno
import logging

from harness import gallina as G
from harness.gallina import Tag

ID = "C11"
COQ_DIRS = ["C11"]
PROPERTY_FILE = "C11/Property.v"
RUN_IMPORTS = "From TV Require Import C11.Model C11.Trace C11.Run."
RUN_FN = "run_case"
CHECK_FN = "check_case"
INPUT_TYPE = "input"

FILL = 46
READ, WRITE, ERROR = 0x001, 0x004, 0x018

_loop = None


def _ensure_loop():
    global _loop
    if _loop is None or _loop.is_closed():
        _loop = asyncio.new_event_loop()
        asyncio.set_event_loop(_loop)
        for name in ("tornado.general", "tornado.application", "tornado.access", "asyncio"):
            logging.getLogger(name).setLevel(logging.CRITICAL + 1)
            logging.getLogger(name).propagate = False
    return _loop


def errkind(e):
    from tornado.iostream import UnsatisfiableReadError, StreamBufferFullError
    if e is None:
        return None
    if isinstance(e, UnsatisfiableReadError):
        return Tag("EUnsat")
    if isinstance(e, StreamBufferFullError):
        return Tag("EBufFull")
    if isinstance(e, AssertionError):
        return Tag("EAssert")
    if isinstance(e, OSError):
        return Tag({errno.ECONNRESET: "EReset", errno.EIO: "EOSErr", errno.EPROTO: "EFd",
                    errno.ECONNREFUSED: "EConn"}.get(e.errno, "E?%s" % e.errno))
    return Tag("E?" + type(e).__name__)


def exn_obs(x):
    from tornado.iostream import UnsatisfiableReadError, StreamBufferFullError, StreamClosedError
    if isinstance(x, StreamClosedError):
        return [Tag("raise"), [Tag("StreamClosedError"), errkind(x.real_error)]]
    for cls, name in ((UnsatisfiableReadError, "UnsatisfiableReadError"), (StreamBufferFullError, "StreamBufferFullError"),
                      (AssertionError, "AssertionError"), (AttributeError, "AttributeError"), (OSError, "OSError")):
        if isinstance(x, cls):
            return [Tag("raise"), Tag(name)]
    raise x


class Session:
    """One real stream + the event log.  do(op) executes one program step and returns its record."""

    def __init__(self, chunk, maxbuf, maxw):
        _ensure_loop()
        import tornado.iostream as tio
        from harness.fake_iostream import FakeIOStream, _LoopProxy
        sess = self
        self.events = []
        self.nfut = 0
        self.futs = []
        self.last_buf = None
        self.cbq = []

        class LFuture(asyncio.Future):
            def __init__(self, *a, **k):
                super().__init__(*a, **k)
                self.fid = sess.nfut
                sess.nfut += 1
                sess.futs.append(self)

            def set_result(self, r):
                if isinstance(r, bool) or r is None or isinstance(r, tio.BaseIOStream):
                    o = Tag("ok")
                elif isinstance(r, int):
                    o = [Tag("int"), r, bytes(sess.last_buf[:r]) if sess.last_buf is not None else b""]
                else:
                    o = bytes(r)
                sess.events.append([Tag("done"), self.fid, o])
                super().set_result(r)

            def set_exception(self, e):
                if isinstance(e, tio.StreamClosedError):
                    o = [Tag("closed"), errkind(e.real_error)]
                else:
                    o = [Tag("exception"), type(e).__name__]
                sess.events.append([Tag("done"), self.fid, o])
                super().set_exception(e)

        class Proxy(_LoopProxy):
            def add_callback(self, cb, *a, **k):
                if cb is sess.user_cb:
                    sess.events.append([Tag("add_callback"), Tag("user_close_cb")])
                    sess.cbq.append("user")
                elif getattr(cb, "__func__", None) is tio.BaseIOStream.close:
                    sess.events.append([Tag("add_callback"), Tag("deferred_close")])
                    sess.cbq.append("deferred")
                else:
                    raise RuntimeError("unexpected add_callback %r" % (cb,))

        class FakeSock:
            def connect(self, addr):
                if sess.connect_fail:
                    raise OSError(errno.ECONNREFUSED, "scripted connect failure")
                raise BlockingIOError(errno.EINPROGRESS, "in progress")

            def getsockopt(self, level, opt):
                return errno.ECONNREFUSED if sess.soerr else 0

            def fileno(self):
                return -1

        class Driven(FakeIOStream):
            connect = tio.IOStream.connect
            _handle_connect = tio.IOStream._handle_connect

            def close_fd(self):
                sess.events.append(Tag("close_fd"))
                self.socket = None          # as IOStream.close_fd does
                super().close_fd()

            def get_fd_error(self):
                return OSError(errno.EPROTO, "scripted fd error") if sess.fderr else None

        self.tio = tio
        self._orig_future = tio.Future
        tio.Future = LFuture
        try:
            self.s = Driven(max_buffer_size=maxbuf, read_chunk_size=chunk, max_write_buffer_size=maxw)
        except BaseException:
            tio.Future = self._orig_future
            raise
        self.s.io_loop = Proxy(self.s.io_loop._loop)
        self.s.socket = FakeSock()
        self.connect_fail = False
        self.soerr = False
        self.fderr = False
        self.user_cb = lambda: None

    def finish(self):
        self.tio.Future = self._orig_future
        for f in self.futs:
            if f.done() and not f.cancelled():
                f.exception()
        _loop.run_until_complete(asyncio.sleep(0))

    def status(self):
        s = self.s
        st = s._state
        code = -1 if st is None else (1 if st & READ else 0) + (2 if st & WRITE else 0)
        return [bool(s.closed()), code, s._read_buffer_size]

    def _call(self, fn):
        try:
            r = fn()
        except Exception as x:   # noqa: BLE001 — mapped to the model's `RetRaise`
            return exn_obs(x)
        if r is None:
            return None
        return r.fid

    def do(self, op):
        from harness.fake_iostream import EOF, Err
        s = self.s
        n0 = len(self.events)
        kind = op[0]
        ret = None
        if kind == "read":
            r = op[1]
            if r[0] == "bytes":
                ret = self._call(lambda: s.read_bytes(r[1], partial=r[2]))
            elif r[0] == "into":
                buf = bytearray([FILL]) * r[1]

                def f():
                    # the buffer becomes "the latest caller buffer" as soon as read_into installs it
                    prev = self.last_buf
                    self.last_buf = buf
                    try:
                        return s.read_into(buf, partial=r[2])
                    except AssertionError:
                        self.last_buf = prev
                        raise
                    except self.tio.StreamClosedError:
                        if s._read_buffer is not buf:
                            self.last_buf = prev
                        raise
                ret = self._call(f)
            elif r[0] == "until":
                ret = self._call(lambda: s.read_until(b(r[1]), max_bytes=r[2]))
            elif r[0] == "regex":
                ret = self._call(lambda: s.read_until_regex(regex_src(r[1]), max_bytes=r[2]))
            elif r[0] == "uclose":
                ret = self._call(lambda: s.read_until_close())
            else:
                raise ValueError(r)
        elif kind == "write":
            ret = self._call(lambda: s.write(b(op[1])))
        elif kind == "connect":
            self.connect_fail = bool(op[1])
            ret = self._call(lambda: s.connect(("192.0.2.1", 9)))
        elif kind == "setcb":
            s.set_close_callback(self.user_cb)
        elif kind == "close":
            if op[1]:
                s.close(exc_info=OSError(errno.EIO, "scripted local error"))
            else:
                s.close()
        elif kind == "arrive":
            t = op[1]
            item = EOF if t[0] == "eof" else Err(errno.ECONNRESET if t[1] else errno.EIO) if t[0] == "err" else b(t[1])
            s.feed(item, notify=False)
        elif kind == "script":
            x = op[1]
            s.send_script.append("block" if x[0] == "block" else Err(errno.ECONNRESET if x[1] else errno.EIO) if x[0] == "err" else int(x[1]))
        elif kind == "event":
            _, r, w, e, soerr, fderr = op
            if s._state is not None and not s.closed():
                mask = (READ if (r and s._state & READ) else 0) | (WRITE if (w and s._state & WRITE) else 0) | (ERROR if e else 0)
                if mask:
                    self.soerr, self.fderr = bool(soerr), bool(fderr)
                    ret = self._call(lambda: s._handle_events(s.fileno(), mask))
        elif kind == "runcb":
            q, self.cbq = self.cbq, []
            for c in q:
                if c == "user":
                    self.events.append([Tag("ran"), Tag("user_close_cb")])
                else:
                    self.events.append([Tag("ran"), Tag("deferred_close")])
                    s.close()
        else:
            raise ValueError(op)
        return [ret, self.events[n0:], self.status()]

    def final(self):
        return [bytes(self.s.sent), errkind(self.s.error), False]


def b(x):
    return x.encode("latin-1") if isinstance(x, str) else bytes(x)


def s_(x):
    return bytes(x).decode("latin-1")


def regex_src(p):
    """pattern = list of [optional, negated, set(str latin-1)] -> Python bytes regex source"""
    out = b""
    for opt, neg, st in p:
        cls = b"".join(b"\\x%02x" % c for c in b(st))
        if neg:
            out += (b"[^" + cls + b"]") if cls else b"[\\x00-\\xff]"
        else:
            out += (b"[" + cls + b"]") if cls else b"[^\\x00-\\xff]"
        if opt:
            out += b"?"
    return out


def run_program(case):
    sess = Session(case["chunk"], case["maxbuf"], case.get("maxw"))
    try:
        out = [sess.do(op) for op in case["ops"]]
        out.append(sess.final())
    finally:
        sess.finish()
    return out


def run_impl(case):
    return run_program(case)


def py_check(case, obs):
    from harness.props import c11_oracle
    return c11_oracle.py_check(case, obs)


# ---------------------------------------------------------------- Gallina rendering
def g_optnat(x):
    return G.goption(x, G.gnat, "nat")


def g_pat(p):
    return G.glist(["(mkatom %s %s %s)" % (G.gbool(o), G.gbool(n), G.gbytes(b(st))) for o, n, st in p], "atom")


def g_rreq(r):
    if r[0] == "bytes":
        return "(RBytes %s %s)" % (G.gnat(r[1]), G.gbool(r[2]))
    if r[0] == "into":
        return "(RInto %s %s)" % (G.gnat(r[1]), G.gbool(r[2]))
    if r[0] == "until":
        return "(RUntil %s %s)" % (G.gbytes(b(r[1])), g_optnat(r[2]))
    if r[0] == "regex":
        return "(RRegex %s %s)" % (g_pat(r[1]), g_optnat(r[2]))
    if r[0] == "uclose":
        return "RUntilClose"
    raise ValueError(r)


def g_op(op):
    k = op[0]
    if k == "read":
        return "(ORead %s)" % g_rreq(op[1])
    if k == "write":
        return "(OWrite %s)" % G.gbytes(b(op[1]))
    if k == "connect":
        return "(OConnect %s)" % G.gbool(op[1])
    if k == "setcb":
        return "OSetCloseCb"
    if k == "close":
        return "(OClose %s)" % G.gbool(op[1])
    if k == "arrive":
        t = op[1]
        tok = "TEof" if t[0] == "eof" else "(TErr %s)" % G.gbool(t[1]) if t[0] == "err" else "(TData %s)" % G.gbytes(b(t[1]))
        return "(OArrive %s)" % tok
    if k == "script":
        x = op[1]
        st = "SBlock" if x[0] == "block" else "(SErr %s)" % G.gbool(x[1]) if x[0] == "err" else "(SAccept %s)" % G.gnat(x[1])
        return "(OSendScript %s)" % st
    if k == "event":
        return "(OEvent %s)" % " ".join(G.gbool(x) for x in op[1:6])
    if k == "runcb":
        return "ORunCallbacks"
    raise ValueError(op)


def coq_input(case):
    return "(%s, %s, %s, %s)" % (G.gnat(case["chunk"]), G.gnat(case["maxbuf"]), g_optnat(case.get("maxw")),
                                 G.glist([g_op(o) for o in case["ops"]], "op"))


# ---------------------------------------------------------------- generation
ALPH = b"ab\r\n"


def eff_cfg(chunk, maxbuf):
    """(chunk, maxbuf) as BaseIOStream.__init__ computes them"""
    return min(chunk, maxbuf // 2), maxbuf


def mkcase(chunk, maxbuf, ops, maxw=None):
    c, m = eff_cfg(chunk, maxbuf)
    return {"chunk": c, "maxbuf": m, "maxw": maxw, "ops": ops}


def split_pattern(rng, data, chunk, style):
    n = len(data)
    if n == 0:
        return []
    if style == "all":
        cuts = []
    elif style == "one":
        cuts = list(range(1, n))
    elif style == "chunk":
        step = max(1, chunk + rng.choice([-1, 0, 1]))
        cuts = list(range(step, n, step))
    elif style == "double":
        cuts, k = [], 1
        while k < n:
            cuts.append(k)
            k = k * 2 + rng.choice([0, 0, 1])
    else:
        cuts = sorted(set(rng.randrange(1, n) for _ in range(rng.randrange(1, 8)))) if n > 1 else []
    cuts = [0] + cuts + [n]
    return [data[a:c] for a, c in zip(cuts, cuts[1:]) if c > a]


RE_POOL = [
    [[True, False, "\r"], [False, False, "\n"], [True, False, "\r"], [False, False, "\n"]],   # \r?\n\r?\n (http1connection)
    [[False, False, "\n"], [True, False, "\r"]],
    [[False, False, "a"], [True, False, "b"], [False, True, "a"]],
    [[True, False, "a"], [True, False, "b"]],
    [[False, False, "ab"], [False, False, "\r\n"]],
    [[False, True, ""], [False, False, "b"]],
]


def plan_read(rng, rest, closing):
    """choose a read request that is usually satisfiable by the remaining stream `rest`"""
    n = len(rest)
    k = rng.random()
    if k < 0.22:
        m = rng.choice([0, 1, 2, 3, max(0, n - 1), n, n + 1, rng.randrange(0, n + 2)])
        return ["bytes", min(m, 600), rng.random() < 0.4]
    if k < 0.40:
        m = rng.choice([0, 1, 2, 5, n, n + 1, rng.randrange(0, n + 2)])
        return ["into", min(m, 600), rng.random() < 0.4]
    if k < 0.68:
        dl = rng.choice([1, 1, 2, 2, 3, 4, 5])
        if n >= dl and rng.random() < 0.8:
            i = rng.randrange(0, min(n - dl, 40) + 1)
            d = rest[i:i + dl]
        else:
            d = bytes(rng.choice(ALPH + b"z") for _ in range(dl))
        hit = rest.find(d)
        end = hit + len(d) if hit >= 0 else n
        mx = rng.choice([None, None, end - 1, end, end + 1, rng.randrange(0, n + 2)])
        if rng.random() < 0.03:
            d = b""
        return ["until", s_(d), None if mx is None else max(0, min(mx, 4000))]
    if k < 0.90:
        p = rng.choice(RE_POOL)
        mx = rng.choice([None, None, rng.randrange(0, min(n, 12) + 2), rng.randrange(0, n + 2)])
        return ["regex", p, mx]
    return ["uclose"]


def gen_program(rng, tier, wild=False):
    """an adaptive program: the next read is issued when the previous one has settled"""
    maxbuf = rng.choice([4096, 4096, 4096, 64, 16, 8, 33])
    chunk = rng.choice([1, 2, 3, 4, 7, 8, 16, 64, 2048])
    chunk, maxbuf = eff_cfg(chunk, maxbuf)
    if chunk == 0:
        chunk, maxbuf = 1, 2
    L = rng.choice([0, 1, 2, 3, 5, 8, 13, 21, 34, 60, 100]) if tier == "quick" else rng.choice([0, 1, 3, 8, 21, 60, 150, 400])
    alph = ALPH if rng.random() < 0.8 else bytes(range(256))
    data = bytes(rng.choice(alph) for _ in range(L))
    style = rng.choice(["all", "one", "chunk", "double", "rand", "rand"])
    toks = [["data", s_(x)] for x in split_pattern(rng, data, chunk, style)]
    end = rng.random()
    if end < 0.45:
        toks.append(["eof"])
    elif end < 0.6:
        toks.append(["err", rng.random() < 0.6])
    if rng.random() < 0.1 and toks:
        toks.insert(rng.randrange(len(toks) + 1), rng.choice([["eof"], ["err", True], ["err", False]]))
    sess = Session(chunk, maxbuf, None)
    ops = []

    def do(op):
        ops.append(op)
        return sess.do(op)
    try:
        if rng.random() < 0.3:
            do(["setcb"])
        pre = rng.randrange(0, len(toks) + 1) if rng.random() < 0.4 else 0
        ti = 0
        for _ in range(pre):
            do(["arrive", toks[ti]])
            ti += 1
        nreads = rng.randrange(1, 9)
        consumed = 0
        for _ in range(nreads):
            r = plan_read(rng, data[min(len(data), sess_consumed(sess)):], ti >= len(toks))
            rec = do(["read", r])
            if not isinstance(rec[0], int):
                if not wild:
                    break
                continue
            fut = sess.futs[rec[0]]
            guard = 0
            while not fut.done() and guard < 3 * len(toks) + 6:
                guard += 1
                if ti < len(toks) and rng.random() < 0.8:
                    do(["arrive", toks[ti]])
                    ti += 1
                    if rng.random() < 0.25 and ti < len(toks):
                        do(["arrive", toks[ti]])
                        ti += 1
                elif ti >= len(toks) and rng.random() < 0.5:
                    break
                do(["event", True, False, False, False, False])
                if wild and rng.random() < 0.1:
                    do(["read", plan_read(rng, data, False)])
            if wild and rng.random() < 0.15:
                do(rng.choice([["close", False], ["close", True], ["runcb"], ["event", True, False, True, False, rng.random() < 0.5], ["setcb"]]))
        if rng.random() < 0.5:
            do(["runcb"])
        if rng.random() < 0.3:
            do(["close", False])
            do(["read", plan_read(rng, data[min(len(data), sess_consumed(sess)):], True)])
            do(["runcb"])
    finally:
        sess.finish()
    return {"chunk": chunk, "maxbuf": maxbuf, "maxw": None, "ops": ops}


def sess_consumed(sess):
    n = 0
    for e in sess.events:
        if isinstance(e, list) and e[0] == "done":
            o = e[2]
            if isinstance(o, bytes):
                n += len(o)
            elif isinstance(o, list) and o[0] == "int":
                n += o[1]
    return n


def soup(rng, n):
    """malformed stream: an arbitrary op sequence (reads while reading, after close, errors ...)"""
    ops = []
    for _ in range(n):
        k = rng.random()
        if k < 0.3:
            ops.append(["read", plan_read(rng, bytes(rng.choice(ALPH) for _ in range(rng.randrange(0, 6))), False)])
        elif k < 0.6:
            t = rng.random()
            ops.append(["arrive", ["eof"] if t < 0.1 else ["err", rng.random() < 0.5] if t < 0.18 else
                        ["data", s_(bytes(rng.choice(ALPH) for _ in range(rng.randrange(1, 7))))]])
        elif k < 0.85:
            ops.append(["event", True, rng.random() < 0.3, rng.random() < 0.08, False, rng.random() < 0.5])
        elif k < 0.9:
            ops.append(["close", rng.random() < 0.3])
        elif k < 0.95:
            ops.append(["runcb"])
        else:
            ops.append(["setcb"])
    chunk, maxbuf = eff_cfg(rng.choice([1, 2, 3, 4, 64]), rng.choice([4096, 8, 6, 16]))
    return {"chunk": chunk, "maxbuf": maxbuf, "maxw": None, "ops": ops}


def corpus_cases():
    A = lambda x: ["arrive", ["data", x]]
    return [
        # defect witnesses (fixed in /repo d6489b0): a read pending at close left stale read state behind
        mkcase(64, 4096, [A("ab"), ["arrive", ["eof"]], ["read", ["bytes", 1, False]], ["read", ["into", 4, False]],
                          ["read", ["bytes", 1, False]], ["read", ["uclose"]]]),
        mkcase(64, 4096, [A("abcdefXY"), ["read", ["until", "XY", 3]], ["read", ["regex", [[False, False, "c"]], None]]]),
        mkcase(64, 4096, [A("ab"), ["arrive", ["eof"]], ["read", ["bytes", 1, False]], ["read", ["bytes", 1, False]],
                          ["read", ["into", 4, False]], ["close", False], ["read", ["bytes", 1, False]]]),
        # delimiter straddling two arrivals, 1-byte chunks
        mkcase(1, 4096, [["read", ["until", "\r\n", None]], A("a\r"), ["event", True, False, False, False, False],
                         A("\nb"), ["event", True, False, False, False, False], ["read", ["bytes", 1, False]]]),
        # max_bytes: delimiter just beyond the limit
        mkcase(4, 4096, [["read", ["until", "\n", 3]], A("abc\n"), ["event", True, False, False, False, False]]),
        # read_into with a saved tail
        mkcase(8, 4096, [A("abcdefgh"), ["read", ["bytes", 1, False]], ["read", ["into", 3, False]], ["read", ["bytes", 4, False]]]),
        # 4-byte delimiter, 1-byte first delivery, then everything at once (incremental-scan offsets)
        mkcase(2048, 4096, [["read", ["until", "\r\n\r\n", None]], A("G"), ["event", True, False, False, False, False],
                            A("ET / HTTP/1.0\r\n\r\nmore\r\n\r\nx"), ["event", True, False, False, False, False],
                            ["read", ["until", "\r\n\r\n", None]]]),
        mkcase(2048, 4096, [A("GE"), ["read", ["until", "\r\n\r\n", 12]], A("T /\r\n\r\nbody"),
                            ["event", True, False, False, False, False], ["read", ["bytes", 4, False]]]),
        # buffer full
        mkcase(4, 8, [["read", ["bytes", 20, False]], A("aaaaaaaaaaaa"), ["event", True, False, False, False, False]]),
    ]


def exhaustive_small(rng, tier):
    """small scope: every arrival split of a short stream x a fixed family of two-read programs"""
    out = []
    streams = [b"a\r\n\r\nb", b"ab\nab"] if tier == "quick" else [b"a\r\n\r\nb", b"ab\nab", b"\n\r\n\nab", b"abab\r\n"]
    progs = [
        [["until", "\n", None], ["bytes", 2, False]],
        [["regex", RE_POOL[0], None], ["bytes", 1, True]],
        [["into", 3, False], ["until", "b", 2]],
        [["bytes", 2, True], ["uclose"]],
        [["regex", RE_POOL[1], 3], ["into", 2, True]],
        [["until", "ab", 4], ["uclose"]],
    ]
    ev = ["event", True, False, False, False, False]
    for data in streams:
        n = len(data)
        for mask in range(1 << (n - 1)):
            cuts = [0] + [i + 1 for i in range(n - 1) if mask >> i & 1] + [n]
            parts = [data[a:c] for a, c in zip(cuts, cuts[1:])]
            pi = mask % len(progs) if tier == "quick" else None
            for j, prog in enumerate(progs):
                if pi is not None and j != pi:
                    continue
                for chunk in ((2,) if tier == "quick" else (1, 2, 64)):
                    ops = [["read", prog[0]]]
                    for p in parts:
                        ops += [["arrive", ["data", s_(p)]], ev]
                    ops += [["read", prog[1]], ["arrive", ["eof"]], ev, ev]
                    out.append(mkcase(chunk, 4096, ops))
    return out


LONG_DELIMS = [b"\r\n\r\n", b"\r\n\r\n", b"\r\n.", b"--x", b"\n\n\n", b"END", b"\r\n--b", b"abcab", b"\r\n\r"]


def gen_straddle(rng, tier):
    """read_until with a 3-5 byte delimiter, a tiny first delivery (shorter than len(delimiter)-1, so an
    unsuccessful scan happens on a buffer shorter than the delimiter), then the rest in one or two large
    deliveries; the delimiter occurs once or twice, with trailing data; optional max_bytes around the first
    hit; pipelined follow-up reads."""
    d = rng.choice(LONG_DELIMS)
    dl = len(d)
    filler = lambda n: bytes(rng.choice(b"GET/ xy") for _ in range(n))
    pre = filler(rng.choice([0, 1, 2, 3, 5, 9, 14]))
    if rng.random() < 0.25:                      # a partial delimiter inside the prefix
        k = rng.randrange(1, dl)
        pre = pre + d[:k] + filler(rng.randrange(1, 3))
    mid = filler(rng.choice([0, 1, 4, 7]))
    twice = rng.random() < 0.55
    tail = filler(rng.choice([0, 1, 3, 6]))
    data = pre + d + mid + (d if twice else b"") + tail
    end1 = data.find(d) + dl
    first = rng.randrange(1, max(2, dl - 1))     # 1 .. dl-2
    if rng.random() < 0.15:
        first = rng.choice([dl - 1, dl])         # boundary: the first delivery is just long enough
    first = min(first, len(data))
    rest = data[first:]
    parts = [data[:first]]
    if len(rest) > 1 and rng.random() < 0.4:
        cut = rng.randrange(1, len(rest))
        parts += [rest[:cut], rest[cut:]]
    elif rest:
        parts.append(rest)
    mx = rng.choice([None, None, None, end1, end1 + 1, end1 + rng.randrange(2, 9), end1 - 1, len(data) + 5])
    chunk = rng.choice([2048, 2048, 64, 64, 4, 3])
    ev = ["event", True, False, False, False, False]
    A = lambda x: ["arrive", ["data", s_(x)]]
    r1 = ["read", ["until", s_(d), mx]]
    ops = []
    if rng.random() < 0.5:                       # read pending, then the tiny delivery arrives
        ops += [r1, A(parts[0]), ev]
    else:                                        # tiny delivery already in the socket: inline scan
        ops += [A(parts[0]), r1]
    joined = rng.random() < 0.35                 # both remaining deliveries visible to one readiness event
    for i, pt in enumerate(parts[1:]):
        ops.append(A(pt))
        if not (joined and i == 0 and len(parts) > 2):
            ops.append(ev)
    k = rng.random()                             # pipelined follow-ups
    if k < 0.4:
        ops.append(["read", ["until", s_(d), rng.choice([None, None, len(mid) + dl, len(mid) + dl + 3])]])
    elif k < 0.6:
        ops.append(["read", ["bytes", rng.choice([1, len(mid), len(mid) + 1]), rng.random() < 0.3]])
    elif k < 0.75:
        ops.append(["read", ["regex", RE_POOL[0], None]])
    if rng.random() < 0.6:
        ops += [["arrive", ["eof"]], ev, ["read", ["uclose"]]]
    else:
        ops.append(["read", ["bytes", max(1, len(tail)), True]])
    return mkcase(chunk, 4096, ops)


def gen_cases(rng, tier):
    out = []
    n = 300 if tier == "quick" else 2500
    for i in range(n):
        out.append(gen_program(rng, tier, wild=(i % 5 == 4)))
    for i in range(170 if tier == "quick" else 1200):
        out.append(gen_straddle(rng, tier))
    for i in range(60 if tier == "quick" else 600):
        out.append(soup(rng, rng.randrange(3, 14)))
    out += exhaustive_small(rng, tier)
    return out


# ---------------------------------------------------------------- evidence helpers
def _reads(case, obs):
    """(request, fid or raise-record) for each read op"""
    for op, rec in zip(case["ops"], obs):
        if op[0] == "read":
            yield op[1], rec


def outcomes(obs):
    d = {}
    for rec in obs[:-1]:
        for e in rec[1]:
            if isinstance(e, list) and e and e[0] == "done":
                d.setdefault(e[1], []).append(e[2])
    return d


def nontrivial(case, obs):
    if not isinstance(obs, list) or not any(op[0] == "read" for op in case["ops"]):
        return None
    return (case["chunk"], case["maxbuf"], repr(case["ops"]))


def classify(case, obs):
    ops = case["ops"]
    yield "ops=%s" % ("1-4" if len(ops) < 5 else "5-12" if len(ops) < 13 else "13-40" if len(ops) < 41 else "41+")
    yield "chunk=%s" % (case["chunk"] if case["chunk"] < 5 else "5+")
    if case["maxbuf"] < 100:
        yield "small max_buffer_size"
    for op in ops:
        if op[0] == "read":
            yield "read:" + op[1][0] + (":partial" if op[1][0] in ("bytes", "into") and op[1][2] else "") + \
                (":max" if op[1][0] in ("until", "regex") and op[1][2] is not None else "") + \
                (":delim>=3" if op[1][0] == "until" and len(op[1][1]) >= 3 else "")
        elif op[0] == "arrive":
            yield "arrive:" + op[1][0] + (":1byte" if op[1][0] == "data" and len(op[1][1]) == 1 else "")
    if isinstance(obs, list):
        oc = outcomes(obs)
        for f, l in oc.items():
            for o in l:
                if isinstance(o, list) and o[0] == "closed":
                    yield "future failed: " + str(o[1])
                else:
                    yield "future completed with data"
        for rec in obs[:-1]:
            if isinstance(rec[0], list):
                yield "call raised " + (rec[0][1] if isinstance(rec[0][1], str) else rec[0][1][0])


def signature(case, obs):
    oc = outcomes(obs) if isinstance(obs, list) else {}
    for r, rec in _reads(case, obs if isinstance(obs, list) else []):
        if isinstance(rec[0], int):
            for o in oc.get(rec[0], []):
                if isinstance(o, list) and o[0] == "int" and r[0] != "into":
                    return "stale-read-into-buffer"
    return "read-contract"


def shrink(case):
    ops = case["ops"]
    for i in range(len(ops) - 1, -1, -1):
        yield dict(case, ops=ops[:i] + ops[i + 1:])
    for i, op in enumerate(ops):
        if op[0] == "arrive" and op[1][0] == "data" and len(op[1][1]) > 1:
            yield dict(case, ops=ops[:i] + [["arrive", ["data", op[1][1][:-1]]]] + ops[i + 1:])


TRUSTED_BASE = [
    "harness/fake_iostream.py scripted transport + the Session driver in harness/props/c11.py (monkeypatched tornado.iostream.Future subclass that logs settlements in order; IOLoop proxy that records add_callback)",
    "regex reads are modelled for the subset `sequence of one-byte classes, each optionally ?` (includes http1connection's \\r?\\n\\r?\\n); Python's re engine is tied to the Gallina matcher only by the correspondence cases",
    "the model follows iostream.py function by function but is hand-written (no translator)",
]
ASSUMPTIONS = [
    "single-threaded use: one program step (a stream method call, one readiness event, or one round of IOLoop callbacks) runs to completion before the next",
    "futures are not cancelled by the application",
]
RULE = ("adaptive read programs (<= 8 reads: bytes/partial/into/until/regex with and without max_bytes/until_close) over streams up to a few "
        "hundred bytes under arrival patterns all-at-once / 1-byte / read_chunk_size +-1 / doubling / random, ending in EOF, reset, error or nothing; "
        "read_until with 3-5 byte delimiters (once/twice + trailing data) under tiny-first-delivery-then-bulk arrivals with max_bytes around the hit and pipelined follow-ups; "
        "plus arbitrary op soups and an exhaustive sweep of every arrival split of short streams; distinct by (chunk, max_buffer, op list)")
LEVEL_TEXT = ("Machine-checked (Coq) proofs over an executable model of BaseIOStream's read path (_find_read_pos, _read_to_buffer(_loop), _try_inline_read, "
              "_handle_read, _consume/_finish_read, read_into's buffer swap, _check_max_bytes, close/_signal_closed, _handle_events) for all operation sequences and "
              "all arrival patterns; the model is compared with the real BaseIOStream (driven over a scripted transport) on every generated program.")
LEVEL_NOTE = "Trusted: Coq kernel/vm_compute; the hand-written model (tied by correspondence); the scripted transport and driver."
TECHNIQUE = "Coq proof (state invariants by induction over operation sequences) + differential correspondence via vm_compute"
