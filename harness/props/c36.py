"""C36 — future combinators (gen.multi, gen.WaitIterator, gen.with_timeout,
concurrent.chain_future) driven event by event on a real asyncio loop whose
ready queue is stepped one handle at a time.

case = {"k": "multi"|"chain"|"timeout"|"wait",
        "init": [state...]      state   = None | ["res", n] | ["exn", code] | ["cancel"]
        "args": [input index...], "keys": None | [int...],
        "ev": [event...],       event   = ["c", i, outcome] | ["x"] | ["s"] | ["t"] | ["n"]
        "q": [class...],        quiet_exceptions (multi, with_timeout): "E" Exception | "U" UserErr | "C" | "T" | "I"
        "td": bool}             with_timeout: deadline given as a datetime.timedelta instead of an absolute time
exception code: int n -> UserErr(n); "C" CancelledError; "T" TimeoutError; "I" InvalidStateError
"""
import asyncio
import datetime
import heapq
import itertools
import logging

from harness import gallina as G

ID = "C36"
COQ_DIRS = ["C36"]
PROPERTY_FILE = "C36/Property.v"
RUN_IMPORTS = "From TV Require Import C36.Model C36.Run."
RUN_FN = "run_case"
CHECK_FN = "check_case"
INPUT_TYPE = "tcase"

TRUSTED_BASE = [
    "asyncio.Future / BaseEventLoop semantics as summarised at the top of coq/C36/Model.v (done futures are immutable; done callbacks "
    "are appended to the FIFO ready queue in registration order; cancelled handles are skipped) -- exercised, not proved, by the correspondence",
    "the harness steps the real SelectorEventLoop by popping loop._ready one handle at a time and moves the with_timeout TimerHandle from "
    "loop._scheduled to loop._ready on a TimerFire event (private CPython attributes); WaitIterator._return_result is wrapped per instance "
    "to log what it yields",
    "inputs are tornado/asyncio Futures settled with int results, Exception subclasses or cancel(); concurrent.futures.Future inputs, "
    "non-Exception BaseExceptions other than CancelledError and nested yieldables (convert_yielded) are not modelled",
]
ASSUMPTIONS = ["multi: child indices are valid (the only hypothesis of any theorem)"]
RULE = ("per combinator: every event sequence up to a length bound over {complete i with result/exception/cancel, cancel output, loop step, "
        "deadline, next()} with and without a draining tail; every outcome assignment x completion order x already-done subset of up to 4 "
        "inputs (exhaustive in thorough incl. n = 4; sampled in quick); random longer schedules; malformed cases; distinct by canonical JSON; non-trivial = at least "
        "one input done")


class UserErr(Exception):
    def __init__(self, code):
        Exception.__init__(self, code)
        self.code = code


_state = {}


def _env():
    if "loop" not in _state:
        loop = asyncio.SelectorEventLoop()
        _state["loop"] = loop
        _state["errs"] = 0

        def handler(lp, ctx):
            if str(ctx.get("message", "")).startswith("Exception in callback"):
                _state["errs"] += 1
        loop.set_exception_handler(handler)

        class Count(logging.Handler):
            def emit(self, record):
                if record.levelno >= logging.ERROR:
                    _state["logs"] = _state.get("logs", 0) + 1
        from tornado.log import app_log
        app_log.addHandler(Count())
        app_log.propagate = False
        app_log.setLevel(logging.ERROR)
    return _state["loop"]


def _mk_exc(code):
    if code == "C":
        return asyncio.CancelledError()
    if code == "T":
        return asyncio.TimeoutError()
    if code == "I":
        return asyncio.InvalidStateError()
    return UserErr(int(code))


def _quiet(case):
    cls = {"E": Exception, "U": UserErr, "C": asyncio.CancelledError, "T": asyncio.TimeoutError, "I": asyncio.InvalidStateError}
    return tuple(cls[q] for q in case.get("q", []))


def _settle(f, oc):
    """external set_result / set_exception / cancel; a done future refuses"""
    try:
        if oc[0] == "res":
            f.set_result(oc[1])
        elif oc[0] == "exn":
            f.set_exception(_mk_exc(oc[1]))
        else:
            f.cancel()
    except asyncio.InvalidStateError:
        pass


def _exn_obs(e):
    if isinstance(e, UserErr):
        return e.code
    return G.Tag(type(e).__name__)


def _fut_obs(f, val=lambda v: v):
    if not f.done():
        return G.Tag("pending")
    if f.cancelled():
        return G.Tag("cancelled")
    e = f.exception()
    if e is not None:
        return [G.Tag("exn"), _exn_obs(e)]
    return [G.Tag("res"), val(f.result())]


def _step(loop):
    if loop._ready:
        h = loop._ready.popleft()
        if not h._cancelled:
            h._run()


def _key(k):
    return "k%d" % k


def case_ok(case):
    n = len(case["init"])
    k = case["k"]
    if k in ("multi", "wait"):
        if not all(0 <= a < n for a in case["args"]):
            return False
        if case["keys"] is not None and len(case["keys"]) != len(case["args"]):
            return False
        return True
    want = 2 if k == "chain" else 1
    return n == want and not case["args"] and case["keys"] is None


def run_impl(case):
    if not case_ok(case):
        return G.Tag("BadCase")
    loop = _env()
    asyncio.set_event_loop(loop)
    try:
        return _run(case, loop)
    finally:
        loop._ready.clear()
        loop._scheduled.clear()
        loop._timer_cancelled_count = 0
        asyncio.set_event_loop(None)


def _run(case, loop):
    from tornado import gen
    from tornado.concurrent import Future, chain_future
    from tornado.ioloop import IOLoop
    _state["errs"] = 0
    _state["logs"] = 0
    kind = case["k"]
    ins = [Future() for _ in case["init"]]
    for f, s in zip(ins, case["init"]):
        if s is not None:
            _settle(f, s)
    assert not loop._ready
    idx = {id(f): i for i, f in enumerate(ins)}
    keys = case["keys"]
    out = None
    th = None
    wi = None
    nexts, ylog, nexterr, entry = [], [], [0], [None]
    if kind == "multi":
        ch = [ins[a] for a in case["args"]]
        if keys is None:
            out = (gen.multi_future if case.get("td") else gen.multi)(ch, quiet_exceptions=_quiet(case))
        else:
            assert len(set(keys)) == len(keys)
            out = (gen.multi_future if case.get("td") else gen.multi)({_key(k): f for k, f in zip(keys, ch)}, quiet_exceptions=_quiet(case))
    elif kind == "chain":
        chain_future(ins[0], ins[1])
    elif kind == "timeout":
        io = IOLoop.current()
        deadline = datetime.timedelta(seconds=3600) if case.get("td") else io.time() + 3600
        out = gen.with_timeout(deadline, ins[0], quiet_exceptions=_quiet(case))
        ths = [h for h in loop._scheduled]
        assert len(ths) == 1
        th = ths[0]
    else:
        fs = [ins[a] for a in case["args"]]
        if keys is None:
            wi = gen.WaitIterator(*fs)
        else:
            assert len(set(keys)) == len(keys)
            wi = gen.WaitIterator(**{_key(k): f for k, f in zip(keys, fs)})
        orig = wi._return_result

        def wrapped(done):
            running = wi._running_future
            entry[0] = running
            res = orig(done)
            ylog.append((wi.current_index, idx[id(wi.current_future)], running))
            return res
        wi._return_result = wrapped

    for ev in case["ev"]:
        t = ev[0]
        if t == "c":
            if 0 <= ev[1] < len(ins):
                _settle(ins[ev[1]], ev[2])
        elif t == "s":
            _step(loop)
        elif t == "x":
            if kind in ("multi", "timeout"):
                out.cancel()
            elif kind == "chain":
                ins[1].cancel()
            elif nexts:
                nexts[-1].cancel()
        elif t == "t":
            if th is not None and th in loop._scheduled and not th._cancelled:
                loop._scheduled.remove(th)
                heapq.heapify(loop._scheduled)
                th._scheduled = False
                loop._ready.append(th)
        elif t == "n":
            if wi is not None:
                entry[0] = None
                try:
                    nexts.append(wi.next())
                except Exception:
                    nexterr[0] += 1
                    nexts.append(entry[0])

    ins_obs = [_fut_obs(f) for f in ins]
    errs, logs = _state["errs"], _state["logs"]

    def ready_idx():
        return [idx[id(h._args[0])] for h in loop._ready]
    if kind == "multi":
        if keys is None:
            val = lambda v: list(v)
        else:
            val = lambda v: [[int(k[1:]), x] for k, x in v.items()]
        return [ins_obs, _fut_obs(out, val), logs, errs, ready_idx()]
    if kind == "chain":
        return [ins_obs, len(loop._ready), errs]
    if kind == "timeout":
        names = {"copy": "copy", "<lambda>": "remove", "error_callback": "errcb"}   # a cancelled handle has no callback left
        tasks = [G.Tag("timeout" if h is th else names[getattr(h._callback, "__name__", "?")]) for h in loop._ready]
        loc = "heap" if th in loop._scheduled else "ready" if th in loop._ready else "gone"
        return [ins_obs, _fut_obs(out), tasks, bool(th._cancelled), G.Tag(loc), logs, errs]
    rid = {id(f): i for i, f in enumerate(nexts)}

    def keycode(k):
        return k if isinstance(k, int) else int(k[1:])
    cidx = None if wi.current_index is None else keycode(wi.current_index)
    cfut = None if wi.current_future is None else idx[id(wi.current_future)]
    running = None if wi._running_future is None else rid[id(wi._running_future)]
    unf = [[idx[id(f)], keycode(k)] for f, k in wi._unfinished.items()]
    fin = [idx[id(f)] for f in wi._finished]
    yl = [[keycode(k), f, rid[id(r)]] for (k, f, r) in ylog]
    rdy = ready_idx()
    return [ins_obs, [_fut_obs(f) for f in nexts], yl, fin, cidx, cfut, running, rdy, errs, nexterr[0], bool(wi.done()), unf]


# ---------------------------------------------------------------- Gallina rendering
def g_exn(code):
    return {"C": "ECancelled", "T": "ETimeout", "I": "EInvalidState"}.get(code) or "(EUser %s)" % G.gn(int(code))


def g_outcome(oc):
    if oc[0] == "res":
        return "(Res %s)" % G.gn(oc[1])
    if oc[0] == "exn":
        return "(Exn %s)" % g_exn(oc[1])
    return "Cancelled"


def g_state(s):
    return "None" if s is None else "(Some %s)" % g_outcome(s)


def g_event(ev):
    t = ev[0]
    if t == "c":
        return "(Complete %s %s)" % (G.gnat(ev[1]), g_outcome(ev[2]))
    return {"x": "CancelOut", "s": "Step", "t": "TimerFire", "n": "Next"}[t]


def coq_input(case):
    kind = {"multi": "KMulti", "chain": "KChain", "timeout": "KTimeout", "wait": "KWait"}[case["k"]]
    keys = "None" if case["keys"] is None else "(Some %s)" % G.glist([G.gn(k) for k in case["keys"]], "N")
    qn = {"E": "QException", "U": "QUser", "C": "QCancelled", "T": "QTimeout", "I": "QInvalid"}
    return "(mkCase %s %s %s %s %s %s)" % (
        kind, G.glist([g_state(s) for s in case["init"]], "(fstate N)"),
        G.glist([G.gnat(a) for a in case["args"]], "nat"), keys,
        G.glist([qn[q] for q in case.get("q", [])], "qclass"),
        G.glist([g_event(e) for e in case["ev"]], "event"))


# ---------------------------------------------------------------- independent oracle
def _final_ins(case):
    st = list(case["init"])
    for ev in case["ev"]:
        if ev[0] == "c" and 0 <= ev[1] < len(st) and st[ev[1]] is None:
            st[ev[1]] = ev[2]
    return st


def _st_obs(s):
    if s is None:
        return G.Tag("pending")
    if s[0] == "res":
        return [G.Tag("res"), s[1]]
    if s[0] == "exn":
        c = s[1]
        return [G.Tag("exn"), c if isinstance(c, int) else G.Tag({"C": "CancelledError", "T": "TimeoutError", "I": "InvalidStateError"}[c])]
    return G.Tag("cancelled")


def py_check(case, o):
    if not case_ok(case):
        return o == G.Tag("BadCase") and isinstance(o, G.Tag)
    if not isinstance(o, list):
        return False
    fin = _final_ins(case)
    if case["k"] == "chain":          # the target is also written by the copy
        if len(o[0]) != 2 or o[0][0] != _st_obs(fin[0]):
            return False
    elif o[0] != [_st_obs(s) for s in fin]:
        return False
    cancel = any(e[0] == "x" for e in case["ev"])
    k = case["k"]
    if k == "multi":
        out, ready = o[1], o[4]
        ch = [fin[a] for a in case["args"]]
        if all(s is not None for s in ch):
            bad = [s for s in ch if s[0] != "res"]
            if bad:
                b = bad[0]
                want = _st_obs(b) if b[0] == "exn" else [G.Tag("exn"), G.Tag("CancelledError")]
            else:
                vals = [s[1] for s in ch]
                want = [G.Tag("res"), vals if case["keys"] is None else [[kk, v] for kk, v in zip(case["keys"], vals)]]
            if out == want:
                return True
            if cancel and out == G.Tag("cancelled"):
                return True
            return bool(ready) and out == G.Tag("pending")
        return out == G.Tag("pending") or (cancel and out == G.Tag("cancelled"))
    if k == "timeout":
        r, ready = o[1], o[2]
        v = case["init"][0]
        if v is None:
            for e in case["ev"]:
                if e[0] == "c" and e[1] == 0:
                    v = e[2]
                    break
                if e[0] == "t":
                    v = ["exn", "T"]
                    break
        if cancel and r == G.Tag("cancelled"):
            return True
        if v is None:
            return r == G.Tag("pending")
        return r == _st_obs(v) or (bool(ready) and r == G.Tag("pending"))
    if k == "chain":
        a, b = fin[0], o[0][1]
        ext = case["init"][1]
        for e in case["ev"]:
            if ext is None and e[0] == "c" and e[1] == 1:
                ext = e[2]
            if ext is None and e[0] == "x":
                ext = ["cancel"]
        if a is None:
            return b == _st_obs(ext)
        return b == _st_obs(a) or (ext is not None and b == _st_obs(ext)) or (o[1] > 0 and b == G.Tag("pending"))
    # wait: every watched position yielded at most once, no exception from next() or callbacks,
    # and once everything is done and drained every position has been yielded
    yl, finq, ready = o[2], o[3], o[7]
    if o[8] != 0 or o[9] != 0:
        return False
    pairs = sorted((kk, f) for kk, f, _ in yl)
    args = case["args"]
    keys = case["keys"] if case["keys"] is not None else list(range(len(args)))
    held = {}
    for kk, f in zip(keys, args):     # _unfinished: one entry per distinct future, last index wins
        held[f] = kk
    allp = sorted((kk, f) for f, kk in held.items())
    if len(set(pairs)) != len(pairs) or any(p not in allp for p in pairs):
        return False
    for kk, f, r in yl:
        if o[1][r] != o[0][f] or o[0][f] == G.Tag("pending"):
            return False
    if all(fin[a] is not None for a in args) and not ready and not finq:
        return pairs == allp and o[10] is True
    return True


# ---------------------------------------------------------------- generator
OUTS = [["res", 7], ["exn", 3], ["cancel"]]


def mk(k, init, args, keys, ev, q=(), td=False):
    return {"k": k, "init": init, "args": list(args), "keys": keys, "ev": [list(e) for e in ev], "q": list(q), "td": bool(td)}


def tail(case, extra=0):
    """drain: enough loop steps (and next() calls) to reach quiescence"""
    k = case["k"]
    n = len(case["ev"]) + len(case["args"]) + 6 + extra
    if k == "wait":
        t = [["s"]] * n + [["n"]] * (len(case["args"]) + 1) + [["s"]] * 2
    else:
        t = [["s"]] * n
    return dict(case, ev=case["ev"] + [list(e) for e in t])


def alphabet(k, n):
    a = []
    for i in range(n):
        for oc in OUTS:
            a.append(["c", i, oc])
    a.append(["s"])
    if k == "wait":
        a.append(["n"])
    if k == "timeout":
        a.append(["t"])
    a.append(["x"])
    return a


SHAPES = {
    "multi": [([None, None], [0, 1], None)],
    "chain": [([None, None], [], None)],
    "timeout": [([None], [], None)],
    "wait": [([None, None], [0, 1], None), ([None], [0, 0], None)],
}


def sequences(k, L, with_plain=True):
    out = []
    for init, args, keys in SHAPES[k]:
        al = alphabet(k, len(init))
        if k == "wait":   # fewer outcomes keep the sweep small
            al = [e for e in al if e[0] != "c" or e[2][0] != "exn"]
        for l in range(L + 1):
            for seq in itertools.product(al, repeat=l):
                c = mk(k, list(init), args, keys, seq)
                if with_plain or l == L:
                    out.append(c)
                out.append(tail(c))
    return out


def orders(k, nmax, rng, sample=None, one_style=False):
    """every outcome assignment x completion order x already-done subset"""
    out = []
    for n in range(0, nmax + 1):
        if k == "chain" and n != 2:
            continue
        if k == "timeout" and n != 1:
            continue
        combos = []
        for outs in itertools.product(OUTS, repeat=n):
            for pre in itertools.product([False, True], repeat=n):
                later = [i for i in range(n) if not pre[i]]
                for perm in itertools.permutations(later):
                    combos.append((outs, pre, perm))
        if sample is not None and len(combos) > sample:
            combos = rng.sample(combos, sample)
        for outs, pre, perm in combos:
            init = [list(outs[i]) if pre[i] else None for i in range(n)]
            args = list(range(n)) if k in ("multi", "wait") else []
            for style in ((rng.randrange(2),) if one_style else (0, 1)):
                ev = []
                for i in perm:
                    ev.append(["c", i, list(outs[i])])
                    if style == 1:
                        ev.append(["s"])
                        if k == "wait":
                            ev.append(["n"])
                if k == "timeout":
                    pos = rng.randrange(len(ev) + 1)
                    ev.insert(pos, ["t"])
                q = rng.choice([[], [], ["U"], ["E"], ["C"], ["T", "U"]]) if k in ("multi", "timeout") else []
                out.append(tail(mk(k, init, args, None, ev, q, td=(k in ("multi", "timeout") and rng.random() < 0.25))))
    return out


def rand_outcome(rng):
    r = rng.random()
    if r < 0.4:
        return ["res", rng.choice([0, 1, 7, 255, 70000])]
    if r < 0.7:
        return ["exn", rng.choice([0, 3, 9, "C", "T", "I"])]
    return ["cancel"]


def rand_case(rng, k=None):
    k = k or rng.choice(["multi", "multi", "wait", "wait", "timeout", "chain"])
    if k == "chain":
        n = 2
    elif k == "timeout":
        n = 1
    else:
        n = rng.choice([0, 1, 2, 2, 3, 3, 4, 5])
    init = [rand_outcome(rng) if rng.random() < 0.25 else None for _ in range(n)]
    args, keys = [], None
    if k in ("multi", "wait"):
        m = rng.choice([n, n, n, max(n - 1, 0), n + 1, n + 2]) if n else 0
        if rng.random() < (0.45 if k == "multi" else 0.3) and n:
            args = [rng.randrange(n) for _ in range(m)]          # duplicates allowed
        else:
            args = list(range(n))
            rng.shuffle(args)
            args = args[:m]
        if rng.random() < 0.35:
            keys = rng.sample(range(0, 12), len(args))
    ev = []
    for _ in range(rng.randrange(0, 14)):
        r = rng.random()
        if r < 0.42 and n:
            ev.append(["c", rng.randrange(n), rand_outcome(rng)])
        elif r < 0.72:
            ev.append(["s"])
        elif r < 0.80:
            ev.append(["x"])
        elif r < 0.90:
            ev.append(["n"] if k == "wait" else ["t"] if k == "timeout" else ["s"])
        else:
            ev.append(rng.choice([["t"], ["n"], ["c", n + rng.randrange(2), ["res", 1]]]))
    q = []
    if k in ("multi", "timeout") and rng.random() < 0.5:
        q = rng.sample(["E", "U", "C", "T", "I"], rng.choice([1, 1, 2, 3]))
    c = mk(k, init, args, keys, ev, q, td=(k in ("multi", "timeout") and rng.random() < 0.3))
    return tail(c) if rng.random() < 0.7 else c


def malformed(rng):
    return [
        mk("multi", [None], [1], None, [["s"]]),
        mk("multi", [None, None], [0, 5], None, []),
        mk("multi", [None, None], [0, 1], [4], []),
        mk("wait", [None], [0, 2], None, [["n"]]),
        mk("wait", [None, None], [0, 1], [1, 2, 3], []),
        mk("chain", [None], [], None, []),
        mk("chain", [None, None, None], [], None, [["s"]]),
        mk("chain", [None, None], [0], None, []),
        mk("timeout", [], [], None, [["t"]]),
        mk("timeout", [None, None], [], None, []),
        mk("timeout", [None], [], [1], []),
    ]


def corpus_cases():
    C = ["cancel"]
    return [
        # the four witnesses of DESIGN.md section 8 (fixed in /repo by 825cf9f, c5049eb)
        tail(mk("multi", [None, None], [0, 1], None, [["c", 0, C], ["c", 1, ["res", 1]]])),
        tail(mk("chain", [None, None], [], None, [["c", 0, C]])),
        tail(mk("timeout", [None], [], None, [["c", 0, C]])),
        tail(mk("wait", [None, None], [0, 1], None, [["n"], ["c", 1, C], ["s"], ["n"], ["c", 0, ["res", 2]]])),
        tail(mk("multi", [None, None], [0, 1, 0], None, [["c", 0, C], ["c", 1, ["exn", 4]]])),
        tail(mk("multi", [["cancel"], ["res", 2]], [0, 1], [3, 5], [])),
        tail(mk("multi", [], [], [], [])),
        tail(mk("timeout", [None], [], None, [["t"], ["c", 0, ["exn", 2]]])),
        tail(mk("timeout", [None], [], None, [["c", 0, ["res", 2]], ["t"]])),
        tail(mk("wait", [["res", 1], None], [1, 0], [7, 9], [["c", 1, C]])),
        # quiet_exceptions / logging of later failures; timedelta deadline; multi_future alias
        tail(mk("multi", [None, None, None], [0, 1, 2], None, [["c", 2, ["exn", 1]], ["c", 1, C], ["c", 0, ["exn", 2]]])),
        tail(mk("multi", [None, None, None], [0, 1, 2], None, [["c", 2, ["exn", 1]], ["c", 1, C], ["c", 0, ["exn", 2]]], ["U"])),
        tail(mk("multi", [None, None, None], [0, 1, 2], [5, 6, 7], [["c", 2, ["exn", 1]], ["c", 1, C], ["c", 0, ["exn", 2]]], ["E", "C"], td=True)),
        tail(mk("multi", [None, None], [0, 1, 0], None, [["x"], ["c", 0, ["exn", 1]], ["c", 1, ["exn", "T"]]], ["T"])),
        tail(mk("timeout", [None], [], None, [["t"], ["s"], ["c", 0, ["exn", 2]]], ["U"], td=True)),
        tail(mk("timeout", [None], [], None, [["t"], ["s"], ["c", 0, ["exn", 2]]], ["T"])),
        tail(mk("timeout", [None], [], None, [["t"], ["c", 0, ["exn", "T"]]], ["E"])),
        # the consumer abandons (cancels) the future it got from next(); inputs finish before it asks again
        tail(mk("wait", [None, None], [0, 1], None, [["n"], ["x"], ["c", 1, ["res", 3]], ["s"], ["c", 0, ["res", 4]]])),
        tail(mk("wait", [None], [0], [6], [["n"], ["x"], ["c", 0, ["exn", 2]], ["s"], ["n"], ["x"]])),
        tail(mk("wait", [None, None, None], [2, 0, 1], None, [["n"], ["c", 0, C], ["x"], ["s"], ["c", 2, ["res", 1]], ["s"], ["n"], ["x"], ["c", 1, ["res", 2]]])),
    ] + dup_wait_cases(None)


def dup_wait_cases(rng):
    """WaitIterator given the same future twice (raised KeyError before /repo 98876ad): yielded once, last index"""
    return [
        tail(mk("wait", [None], [0, 0], None, [["c", 0, ["res", 5]]])),
        mk("wait", [None], [0, 0], None, [["c", 0, ["res", 5]], ["s"], ["s"], ["n"], ["n"]]),
        mk("wait", [["res", 2]], [0, 0], [1, 2], [["n"], ["n"]]),
        tail(mk("wait", [None, None], [0, 1, 0], None, [["c", 1, ["res", 1]], ["c", 0, ["cancel"]]])),
        tail(mk("wait", [None, ["exn", 2]], [1, 0, 1, 0], [4, 5, 6, 7], [["n"], ["c", 0, ["res", 1]]])),
    ]


def gen_cases(rng, tier):
    out = []
    out += malformed(rng)
    if tier == "quick":
        for k in ("multi", "chain", "timeout", "wait"):
            out += sequences(k, 2)
        for k in ("multi", "wait"):
            out += orders(k, 3, rng, sample=40)
            out += orders(k, 4, rng, sample=30)[-60:]
        out += orders("chain", 2, rng)
        out += orders("timeout", 1, rng)
        for _ in range(500):
            out.append(rand_case(rng))
    else:
        for k in ("multi", "chain", "timeout"):
            out += sequences(k, 4, with_plain=False)
            out += sequences(k, 3)
        out += sequences("wait", 4, with_plain=False)
        out += sequences("wait", 3)
        for k in ("multi", "wait"):
            out += orders(k, 3, rng)
            out += [c for c in orders(k, 4, rng, one_style=True) if len(c["init"]) == 4]   # exhaustive for n = 4
        out += orders("chain", 2, rng)
        out += orders("timeout", 1, rng)
        for _ in range(3000):
            out.append(rand_case(rng))
    return out


def is_dup_wait(case):
    return case["k"] == "wait" and len(set(case["args"])) != len(case["args"])


def nontrivial(case, o):
    if not case_ok(case):
        return None
    if not any(s is not None for s in _final_ins(case)):
        return None
    return G.jsonable(case)


def classify(case, o):
    yield "kind=" + case["k"]
    if not case_ok(case):
        yield "malformed"
        return
    fin = _final_ins(case)
    yield "inputs=%d" % len(fin)
    yield "events=" + ("0" if not case["ev"] else "1-4" if len(case["ev"]) < 5 else "5-12" if len(case["ev"]) < 13 else "13+")
    if any(s is not None for s in case["init"]):
        yield "has-already-done-input"
    if any(s is not None and s[0] == "cancel" for s in fin):
        yield "has-cancelled-input"
    if len(set(case["args"])) != len(case["args"]):
        yield "has-duplicate-arg"
    if any(e[0] == "x" for e in case["ev"]):
        yield "consumer-cancel"
    if case["keys"] is not None:
        yield "keyed"
    if case.get("q"):
        yield "quiet-exceptions"
    if case.get("td"):
        yield "alt-entry(timedelta/multi_future)"
    if isinstance(o, list):
        quiet = {"multi": lambda: not o[4], "chain": lambda: o[1] == 0, "timeout": lambda: not o[2], "wait": lambda: not o[7]}[case["k"]]()
        yield "quiescent" if quiet else "mid-flight"


def signature(case, o):
    return "kind=" + case["k"] + ("-duplicate-arg" if len(set(case["args"])) != len(case["args"]) else "")


def shrink(case):
    """a handful of candidates per round (every candidate costs a coqc run)"""
    ev = case["ev"]
    if len(ev) > 3:
        yield dict(case, ev=ev[: len(ev) // 2])
        # drop the trailing run of identical events down to two
        j = len(ev)
        while j > 0 and ev[j - 1] == ev[-1]:
            j -= 1
        if len(ev) - j > 2:
            yield dict(case, ev=ev[: j + 2])
    for i in range(len(ev) - 1, max(len(ev) - 9, -1), -1):
        yield dict(case, ev=ev[:i] + ev[i + 1:])
    if case["keys"] is not None:
        yield dict(case, keys=None)
    if case.get("q"):
        yield dict(case, q=[])
    if case.get("td"):
        yield dict(case, td=False)
    if case["k"] in ("multi", "wait") and case["args"]:
        yield dict(case, args=case["args"][:-1], keys=None if case["keys"] is None else case["keys"][:-1])


LEVEL_TEXT = ("Machine-checked (Coq) state-machine models of multi_future, chain_future, with_timeout and WaitIterator over a model of asyncio "
              "futures and the loop's FIFO ready queue; theorems by invariant/induction over ALL event sequences (completions with any outcome "
              "in any order incl. repeated and already-done ones, consumer cancellation, loop steps, deadline, next()), for any number of inputs.")
LEVEL_NOTE = ("Trusted: Coq kernel/vm_compute; asyncio's future/loop semantics as stated in Model.v; the stepping harness (private loop attributes); "
              "the hand-written model is tied to /repo by the differential correspondence only.")
TECHNIQUE = "Coq proof (inductive invariants over event lists) + differential correspondence on exhaustively enumerated small schedules via vm_compute"
