"""C38 — IOLoop callbacks and timeouts run once, in order, and survive errors.

A case is one of
  * kind "prog":    a finite *scheduling program* (a tree of callback bodies) run on a real
                    tornado IOLoop (AsyncIOLoop) over the virtual-clock asyncio loop of
                    harness/vclock.py until the loop is idle;
  * kind "sync":    IOLoop.run_sync(func, timeout) where func is such a body;
  * kind "threads": several OS threads calling IOLoop.add_callback concurrently on a loop that
                    is idle in select() in its own thread; the caller threads are plain threads
                    or are themselves running another asyncio event loop (harness-level stress
                    check ONLY: real preemption is not modelled; the model evaluates one canonical
                    interleaving and the call_soon / call_soon_threadsafe decision).

Body  = {"l": label, "ops": [op...], "out": ["none"] | ["val"] | ["raise", e] | ["fut", f]}
op    = ["cb", body]             io_loop.add_callback(body)
        ["to", form, t, body]    form 0: add_timeout(T0+t)   1: call_later(t)
                                 form 2: add_timeout(timedelta(seconds=t))   3: call_at(T0+t)      (t in ticks)
                                 form [2, days]: add_timeout(timedelta(days=days, seconds=t))
        ["rm", k]                remove_timeout(k-th handle created so far); no-op when there is none
        ["af", f, body]          add_future(future f, body)
        ["sr", f, v] ["se", f, e] ["cf", f]    set_result / set_exception / cancel on future f
The observable is the event trace (scheduling calls, iteration markers with the virtual clock,
callback starts/ends, log records); empty iterations are squashed on both sides."""
import asyncio
import datetime
import logging
import threading
import time as _time

from harness import gallina as G
from harness.vclock import VirtualLoop

ID = "C38"
COQ_DIRS = ["C38"]
PROPERTY_FILE = "C38/Property.v"
RUN_IMPORTS = "From TV Require Import C38.Model C38.Run."
RUN_FN = "run_case"
CHECK_FN = "check_case"
INPUT_TYPE = "c38_input"

T0 = 4096.0          # virtual start (exactly representable; all times are T0 + k*TICK, exact in binary64)
TICK = 0.25
DAY_TICKS = 345600
T = G.Tag
# event codes (first element of every trace event)
SC, ST, RM, AF, RS, OR, RUN, END, LOG, LOGD, BAD, IT, ADV, AERR = range(1, 15)
EVNAMES = {SC: "sc", ST: "st", RM: "rm", AF: "af", RS: "rs", OR: "or", RUN: "run", END: "end", LOG: "log", LOGD: "logd", BAD: "log?", IT: "it", ADV: "adv", AERR: "aerr"}


class UserErr(Exception):
    def __init__(self, e):
        Exception.__init__(self, e)
        self.e = e


def ticks(x):
    q = (x - T0) / TICK
    assert q == int(q), x
    return int(q)


class _IdleStopSelector:
    """wraps the virtual selector: marks iterations, and turns 'idle with no timers' into loop.stop()"""

    def __init__(self, inner, loop, run):
        self._inner, self._loop, self._run = inner, loop, run

    def select(self, timeout=None):
        try:
            ev = self._inner.select(timeout)
        except RuntimeError:
            if not self._loop.stuck:
                raise
            self._loop.stuck = False
            self._run.idle = True
            self._loop.stop()
            ev = []
        self._run.emit([IT, ticks(self._loop.vnow)])
        return ev

    def __getattr__(self, name):
        return getattr(self._inner, name)


def squash(tr):
    out = []
    for i, e in enumerate(tr):
        if e[0] == IT and (i + 1 == len(tr) or tr[i + 1][0] == IT):
            continue
        out.append(e)
    return out


class _Run:
    def __init__(self):
        self.tr = []
        self.idle = False
        self.next = 0
        self.handles = []
        self.futs = {}
        self.fut_ids = {}

    def emit(self, e):
        self.tr.append(e)

    # ------------------------------------------------------------ program interpretation
    def fut(self, f):
        if f not in self.futs:
            run = self

            class ObservedFuture(asyncio.Future):
                """records every successful cancel(), whoever calls it (a program op or run_sync's timeout)"""

                def cancel(fu, msg=None):
                    ok = asyncio.Future.cancel(fu, msg)
                    if ok:
                        run.emit([RS, f, 2, 0])
                    return ok
            fu = ObservedFuture(loop=self.vloop)
            self.futs[f] = fu
            self.fut_ids[id(fu)] = f
        return self.futs[f]

    def new_inst(self):
        i = self.next
        self.next += 1
        return i

    def make_fn(self, inst, body, kind):
        """kind: 0 add_callback, 1 timeout, 2 add_future, 3 run_sync's function"""
        def fn(*_args):
            self.emit([RUN, inst, kind, body["l"]])
            try:
                for op in body["ops"]:
                    self.do_op(op)
                out = body["out"]
                if out[0] == "raise":
                    raise UserErr(out[1])
            except UserErr as e:
                self.emit([END, inst, 2, e.e])
                raise
            except asyncio.InvalidStateError:
                self.emit([END, inst, 4, 0])
                raise
            if out[0] == "val":
                self.emit([END, inst, 1, 0])
                return 42
            if out[0] == "fut":
                fu = self.fut(out[1])
                self.emit([END, inst, 3, out[1]])
                return fu
            self.emit([END, inst, 0, 0])
            return None
        fn.inst = inst
        return fn

    def do_op(self, op):
        io = self.io
        k = op[0]
        if k == "cb":
            i = self.new_inst()
            self.emit([SC, i])
            io.add_callback(self.make_fn(i, op[1], 0))
        elif k == "to":
            form, t, body = op[1], op[2], op[3]
            i = self.new_inst()
            fn = self.make_fn(i, body, 1)
            nowt = ticks(io.time())
            days = 0
            if isinstance(form, list):
                form, days = form
            d = t if form in (0, 3) else nowt + t + days * DAY_TICKS
            self.emit([ST, i, d])
            if form == 0:
                h = io.add_timeout(T0 + t * TICK, fn)
            elif form == 1:
                h = io.call_later(t * TICK, fn)
            elif form == 2:
                h = io.add_timeout(datetime.timedelta(days=days, seconds=t * TICK), fn)
            else:
                h = io.call_at(T0 + t * TICK, fn)
            self.handles.append((i, h))
        elif k == "rm":
            if op[1] < len(self.handles):
                i, h = self.handles[op[1]]
                self.emit([RM, i])
                io.remove_timeout(h)
        elif k == "af":
            i = self.new_inst()
            self.emit([AF, i, op[1]])
            io.add_future(self.fut(op[1]), self.make_fn(i, op[2], 2))
        elif k in ("sr", "se", "cf"):
            fu = self.fut(op[1])
            try:
                if k == "sr":
                    fu.set_result(op[2])
                    self.emit([RS, op[1], 0, op[2]])
                elif k == "se":
                    fu.set_exception(UserErr(op[2]))
                    self.emit([RS, op[1], 1, op[2]])
                else:
                    fu.cancel()
            except asyncio.InvalidStateError:
                self.emit([OR])
                raise
        elif k == "adv":
            self.vloop.vnow += max(0, op[1]) * TICK
            self.emit([ADV, ticks(self.vloop.vnow)])
        else:
            raise AssertionError(op)

    # ------------------------------------------------------------ log capture
    def on_log(self, record):
        if record.levelno < logging.WARNING:
            return
        try:
            cb = record.args[0]
            func = getattr(cb, "func", None)
            if hasattr(func, "inst"):
                self.emit([LOG, func.inst])
                return
            if getattr(func, "__name__", "") == "_discard_future_result":
                self.emit([LOGD, self.fut_ids.get(id(cb.args[0]), -1)])
                return
        except Exception:
            pass
        self.emit([BAD])

    def fstate(self, f):
        fu = self.futs.get(f)
        if fu is None or not fu.done():
            return T("pending")
        if fu.cancelled():
            return T("cancelled")
        return T("exc") if fu.exception() is not None else T("ok")

    # ------------------------------------------------------------ drivers
    def run(self, case):
        from tornado.ioloop import IOLoop
        from tornado import gen
        vloop = VirtualLoop(T0)
        self.vloop = vloop
        vloop._selector = _IdleStopSelector(vloop._selector, vloop, self)
        vloop.set_exception_handler(lambda lp, ctx: self.emit([AERR]) if "never retrieved" not in ctx.get("message", "") else None)
        real_time, real_mono = _time.time, _time.monotonic
        _time.time = lambda: vloop.vnow
        _time.monotonic = lambda: vloop.vnow

        class H(logging.Handler):
            def emit(h, record):
                self.on_log(record)
        hs = []
        for name in ("tornado.application", "tornado.general", "asyncio"):
            lg = logging.getLogger(name)
            h = H()
            hs.append((lg, h, lg.propagate, lg.level))
            lg.addHandler(h)
            lg.propagate = False
        io = None
        try:
            io = IOLoop(asyncio_loop=vloop, make_current=True)
            self.io = io
            body = case["body"]
            if case["kind"] == "prog":
                i = self.new_inst()
                self.emit([SC, i])
                io.add_callback(self.make_fn(i, body, 0))
                io.start()
                res = T("idle") if self.idle else T("stopped?")
            else:
                i = self.new_inst()
                fn = self.make_fn(i, body, 3)
                to = case["timeout"]
                try:
                    v = io.run_sync(fn, timeout=None if to is None else to * TICK)
                    res = [T("ret"), v] if v is not None else T("retnone")
                except UserErr as e:
                    res = [T("exc"), e.e]
                except gen.BadYieldError:
                    res = T("badyield")
                except asyncio.TimeoutError:
                    res = T("timeout")
                except asyncio.InvalidStateError:
                    res = T("invalidstate")
                except RuntimeError as e:
                    if "stopped before Future completed" not in str(e):
                        raise
                    res = T("idle") if self.idle else T("stopped")
                out = body["out"]
                res = [res, self.fstate(out[1]) if out[0] == "fut" else T("-")]
            for fu in self.futs.values():
                if fu.done() and not fu.cancelled():
                    fu.exception()
            return [res, squash(self.tr)]
        finally:
            _time.time, _time.monotonic = real_time, real_mono
            for lg, h, p, lv in hs:
                lg.removeHandler(h)
                lg.propagate = p
                lg.setLevel(lv)
            try:
                if io is not None:
                    io.close()
                else:
                    vloop.close()
            except Exception:
                pass
            asyncio.set_event_loop(None)


THREAD_DEADLINE = 25.0     # real seconds; generous because the machine may be loaded


def run_threads(case):
    """harness-level stress: IOLoop A runs in its own thread and is IDLE in select() with no timers; n caller threads
    make m add_callback calls each.  mode "noloop": plain threads; mode "otherloop": every caller thread is RUNNING ITS
    OWN asyncio event loop and calls A.add_callback from inside a coroutine of that loop.  The callbacks must be
    delivered without any further wake-up; after THREAD_DEADLINE a breaker (add_callback(stop) from this thread, which
    has no running loop and therefore always wakes A) ends the run."""
    from tornado.ioloop import IOLoop
    n, m, mode = case["n"], case["m"], case.get("mode", "noloop")
    box, seen = {}, []
    ready, idle, all_ran = threading.Event(), threading.Event(), threading.Event()
    chain = mode != "otherloop"     # in "otherloop" mode NOTHING but the loop-running caller threads may touch A:
    #                                 any call from a plain thread would wake A and deliver stranded callbacks too
    total = n * m + (m if chain else 0)

    def cb(tid, k):
        seen.append((tid, k))
        if tid == n and k + 1 < m:            # the loop thread keeps scheduling too (same loop: plain call_soon)
            box["io"].add_callback(cb, n, k + 1)
        if len(seen) >= total:
            all_ran.set()

    def loop_thread():
        io = IOLoop(asyncio_loop=asyncio.new_event_loop(), make_current=False)
        box["io"] = io
        ready.set()
        io.add_callback(idle.set)
        try:
            io.start()
        finally:
            io.close()

    ta = threading.Thread(target=loop_thread, daemon=True)
    ta.start()
    if not (ready.wait(THREAD_DEADLINE) and idle.wait(THREAD_DEADLINE)):
        raise RuntimeError("loop thread did not start")
    _time.sleep(0.3)                            # let A block in select()
    io = box["io"]

    def plain_worker(tid):
        for k in range(m):
            io.add_callback(cb, tid, k)
            if k % 7 == tid % 7:
                _time.sleep(0)

    def loop_worker(tid):
        async def main():
            await asyncio.sleep(0)
            for k in range(m):
                io.add_callback(cb, tid, k)     # called while THIS thread's own event loop is running
                if k % 5 == tid % 5:
                    await asyncio.sleep(0)
        asyncio.run(main())
    ths = [threading.Thread(target=(loop_worker if mode == "otherloop" else plain_worker), args=(t,), daemon=True) for t in range(n)]
    for t in ths:
        t.start()
    if chain:
        starter = threading.Thread(target=lambda: io.add_callback(cb, n, 0), daemon=True)   # the loop thread's own chain
        starter.start()
        ths = ths + [starter]
    for t in ths:
        t.join(THREAD_DEADLINE)
    delivered = all_ran.wait(THREAD_DEADLINE)
    snapshot = list(seen)
    io.add_callback(io.stop)                    # breaker / normal shutdown
    ta.join(THREAD_DEADLINE)
    tids = range(n + 1) if chain else range(n)
    once = sorted(snapshot) == sorted((t, k) for t in tids for k in range(m))
    order = all([k for (t, k) in snapshot if t == tid] == sorted(k for (t, k) in snapshot if t == tid) for tid in tids)
    return [T("threads"), once, order, bool(delivered)]


def run_impl(case):
    if case["kind"] == "threads":
        return run_threads(case)
    return _Run().run(case)


# ---------------------------------------------------------------- Gallina rendering
FORMS = ["FAbs", "FLater", "FDelta", "FCallAt"]


def g_out(o):
    if o[0] == "none":
        return "RetNone"
    if o[0] == "val":
        return "RetVal"
    if o[0] == "raise":
        return "(RaiseE %s)" % G.gz(o[1])
    return "(RetFut %s)" % G.gnat(o[1])


def g_op(op):
    k = op[0]
    if k == "cb":
        return "OCb %s" % g_body(op[1])
    if k == "to":
        fm = op[1]
        gfm = "(FDelta %s)" % G.gz(fm[1]) if isinstance(fm, list) else ("(FDelta 0)" if fm == 2 else FORMS[fm])
        return "OTo %s %s %s" % (gfm, G.gz(op[2]), g_body(op[3]))
    if k == "rm":
        return "ORm %s" % G.gnat(op[1])
    if k == "af":
        return "OAf %s %s" % (G.gnat(op[1]), g_body(op[2]))
    if k == "sr":
        return "OSr %s %s" % (G.gnat(op[1]), G.gz(op[2]))
    if k == "se":
        return "OSe %s %s" % (G.gnat(op[1]), G.gz(op[2]))
    if k == "cf":
        return "OCf %s" % G.gnat(op[1])
    if k == "adv":
        return "OAdv %s" % G.gz(op[1])
    raise AssertionError(op)


def g_body(b):
    return "(Body %s %s %s)" % (G.gnat(b["l"]), G.glist([g_op(o) for o in b["ops"]], "op"), g_out(b["out"]))


def coq_input(case):
    if case["kind"] == "prog":
        return "(IProg %s)" % g_body(case["body"])
    if case["kind"] == "sync":
        return "(ISync %s %s)" % (g_body(case["body"]), G.goption(case["timeout"], G.gz, "Z"))
    return "(IThreads %s %s %s)" % (G.gnat(case["n"]), G.gnat(case["m"]), "COtherLoop" if case.get("mode") == "otherloop" else "CNoLoop")


# ---------------------------------------------------------------- program construction
def B(ops=(), out=("none",)):
    return {"l": 0, "ops": [list(o) for o in ops], "out": list(out)}


def sub_bodies(op):
    return [x for x in op if isinstance(x, dict)]


def relabel(body):
    """preorder labels"""
    n = [0]

    def go(b):
        b = {"l": n[0], "ops": [], "out": list(b["out"])}
        n[0] += 1
        return b

    def rec(b):
        nb = go(b)
        for op in b["ops"]:
            nb["ops"].append([rec(x) if isinstance(x, dict) else x for x in op])
        return nb
    return rec(body)


def size(body):
    return 1 + sum(1 + sum(size(x) for x in sub_bodies(op)) for op in body["ops"])


def prog(body):
    return {"kind": "prog", "body": relabel(body)}


def sync(body, timeout):
    return {"kind": "sync", "body": relabel(body), "timeout": timeout}


def rand_out(rng, nf):
    r = rng.random()
    if r < 0.55:
        return ["none"]
    if r < 0.63:
        return ["val"]
    if r < 0.80:
        return ["raise", rng.randrange(1, 9)]
    return ["fut", rng.randrange(nf)]


def rand_body(rng, budget, depth, prof):
    """prof: dict of knobs (time range, future count, weights)"""
    nf = prof["nf"]
    ops = []
    nops = rng.randrange(0, prof["maxops"] + 1) if depth > 0 else rng.randrange(0, 2)
    for _ in range(nops):
        if budget[0] <= 0:
            break
        budget[0] -= 1
        r = rng.random()
        if r < prof["w_cb"]:
            ops.append(["cb", rand_body(rng, budget, depth - 1, prof)])
        elif r < prof["w_cb"] + prof["w_to"]:
            form = rng.randrange(4)
            if form == 2 and rng.random() < prof.get("w_days", 0.25):
                form = [2, rng.choice([-2, -1, -1, 1, 1, 2])]
            t = rng.choice(prof["times"])
            ops.append(["to", form, t, rand_body(rng, budget, depth - 1, prof)])
        elif r < prof["w_cb"] + prof["w_to"] + prof["w_rm"]:
            ops.append(["rm", rng.randrange(0, prof["maxrm"])])
        elif r < prof["w_cb"] + prof["w_to"] + prof["w_rm"] + prof["w_af"]:
            ops.append(["af", rng.randrange(nf), rand_body(rng, budget, depth - 1, prof)])
        elif rng.random() < prof.get("w_adv", 0.12):
            ops.append(["adv", rng.choice([0, 1, 1, 2, 3, 5, -1])])
        else:
            f = rng.randrange(nf)
            k = rng.choice(["sr", "sr", "se", "se", "cf"])
            ops.append([k, f, rng.randrange(1, 9)] if k != "cf" else [k, f])
    return {"l": 0, "ops": ops, "out": rand_out(rng, nf)}


PROFILES = [
    dict(name="mixed", nf=2, maxops=4, w_cb=0.25, w_to=0.35, w_rm=0.12, w_af=0.12, maxrm=5, times=[-2, 0, 1, 2, 3, 3, 4, 4, 4, 7]),
    dict(name="ties", nf=1, maxops=7, w_cb=0.1, w_to=0.65, w_rm=0.15, w_af=0.03, maxrm=8, times=[0, 2, 2, 2, 3]),
    dict(name="futures", nf=3, maxops=5, w_cb=0.2, w_to=0.15, w_rm=0.03, w_af=0.3, maxrm=3, times=[0, 1, 2, 5]),
    dict(name="overdue", nf=1, maxops=5, w_cb=0.15, w_to=0.6, w_rm=0.1, w_af=0.05, maxrm=6, times=[-6, -3, -1, 0, 1, 2, 4, 6], w_adv=0.8),
    dict(name="slow", nf=1, maxops=6, w_cb=0.1, w_to=0.55, w_rm=0.1, w_af=0.0, maxrm=6, times=[1, 2, 3, 4, 5, 6, 7, 8], w_adv=1.0),
    dict(name="timedeltas", nf=1, maxops=5, w_cb=0.1, w_to=0.7, w_rm=0.08, w_af=0.0, maxrm=6, times=[-345601, -3, -1, 0, 1, 2, 5, 345599, 345600], w_days=0.8, w_adv=0.3),
    dict(name="callbacks", nf=1, maxops=5, w_cb=0.7, w_to=0.1, w_rm=0.05, w_af=0.05, maxrm=3, times=[0, 1]),
]

LEAF = B()


def corpus_cases():
    to = lambda form, t, b=LEAF: ["to", form, t, b]
    cs = []
    # four and more equal deadlines: heapq order is not FIFO (asyncio TimerHandle compares `when` only)
    cs.append(prog(B([to(0, 4), to(1, 4), to(2, 4), to(3, 4), to(0, 4), to(0, 4), to(1, 4)])))
    # overdue deadlines: the witness of the former defect (call_at clamped overdue deadlines to "now", so these ran in
    # call order); since the fix the one with the earlier requested deadline runs first
    cs.append(prog(B([to(1, 10, B([to(0, 8), to(0, 5)]))])))
    cs.append(prog(B([to(1, 10, B([to(0, 8), to(3, 5), to(2, -7), to(1, -4), to(0, 9), to(0, 8)]))])))
    # a timeout scheduled during an iteration does not overtake the ones that iteration already collected
    cs.append(prog(B([to(0, 10, B([to(0, 5)])), to(0, 10)])))
    # a slow callback makes several different deadlines overdue at once: they run in deadline order
    cs.append(prog(B([to(0, 7), to(0, 3), to(0, 5), to(0, 1), to(0, 9), to(1, 1, B([["adv", 7], to(0, 2), to(0, 12)]))])))
    # deadline forms: timedelta with days and negative deltas (seeded change C38_2: `days` dropped), all forms mixed
    cs.append(prog(B([to([2, -1], 345599), to(1, 1), to([2, 1], 2), to([2, 0], -4), to(2, 3), to([2, 1], -345600), to([2, -2], 3), to(3, 2), to(0, 2)])))
    cs.append(prog(B([to(1, 3, B([to([2, -1], 0), to([2, 0], -1), to(1, -2), to([2, 1], -345601), to(0, 1), to(3, -5)]))])))
    # remove a timeout that is already in the ready queue of this iteration
    cs.append(prog(B([to(0, 2, B([["rm", 1]])), to(0, 2), to(0, 2, B([["rm", 0], ["rm", 1]]))])))
    # raising callbacks among others; value-returning callback; future-returning callback whose future fails
    cs.append(prog(B([["cb", B([], ("raise", 7))], ["cb", B([], ("val",))], ["cb", B([], ("fut", 0))], to(1, 2, B([["se", 0, 9]])), ["cb", LEAF]])))
    # add_future on a pending / an already resolved future; double resolution raises InvalidStateError
    cs.append(prog(B([["af", 0, LEAF], ["sr", 0, 5], ["af", 0, B([["sr", 0, 6], ["cb", LEAF]])], ["cf", 0], ["cb", LEAF]])))
    # the select timeout is clamped to 24 h
    cs.append(prog(B([to(0, 345599), to(0, 345600), to(0, 345601), to(1, 700000)])))
    # run_sync: result / exception / bad value / timeout before, at and after the resolution
    for tmo in (None, 0, 4, 5, 6, -1):
        cs.append(sync(B([to(1, 5, B([["sr", 0, 77]]))], ("fut", 0)), tmo))
        cs.append(sync(B([to(0, 5, B([["se", 0, 3]]))], ("fut", 0)), tmo))
    for tmo in (None, 0, 2):
        for out in (("none",), ("val",), ("raise", 3), ("fut", 1)):
            cs.append(sync(B([], out), tmo))
        cs.append(sync(B([["sr", 0, 1], ["sr", 0, 2]], ("none",)), tmo))
        cs.append(sync(B([["cb", B([["cf", 0]])]], ("fut", 0)), tmo))
    cs.append({"kind": "threads", "n": 3, "m": 40, "mode": "noloop"})
    # the caller threads run their own event loops (seeded change C38_3: plain call_soon whenever ANY loop is running)
    cs.append({"kind": "threads", "n": 2, "m": 5, "mode": "otherloop"})
    cs.append({"kind": "threads", "n": 1, "m": 1, "mode": "otherloop"})
    return cs


ALPHABET_LEAVES = [B(), B([], ("raise", 1)), B([["rm", 0]]), B([["sr", 0, 1]]), B([], ("fut", 0))]


def alphabet():
    ops = []
    for lf in ALPHABET_LEAVES:
        ops.append(["cb", lf])
    for lf in ALPHABET_LEAVES[:3]:
        for form, t in ((0, 0), (1, 2), (2, 2), (3, 3), (0, -1), ([2, -1], 2), ([2, 1], -345599)):
            ops.append(["to", form, t, lf])
    ops += [["adv", 2], ["rm", 0], ["rm", 1], ["af", 0, B()], ["af", 0, B([], ("raise", 2))], ["sr", 0, 4], ["se", 0, 5], ["cf", 0]]
    return ops


def gen_cases(rng, tier):
    out = []
    n_rand = 900 if tier == "quick" else 6000
    for k in range(n_rand):
        prof = PROFILES[k % len(PROFILES)]
        budget = [rng.choice([3, 6, 10, 16, 24])]
        body = rand_body(rng, budget, rng.choice([1, 2, 2, 3, 4]), prof)
        if k % 4 == 3:
            out.append(sync(body, rng.choice([None, None, 0, 1, 2, 3, 5, -2])))
        else:
            out.append(prog(body))
    # small scope: every op sequence of length <= L over the alphabet
    alpha = alphabet()
    if tier == "quick":
        for a in alpha:
            out.append(prog(B([a])))
        for _ in range(250):
            out.append(prog(B([rng.choice(alpha) for _ in range(rng.choice([2, 3, 4, 5]))], rand_out(rng, 1))))
        for _ in range(60):
            out.append(sync(B([rng.choice(alpha) for _ in range(rng.choice([1, 2, 3]))], rng.choice([["none"], ["fut", 0], ["fut", 0], ["raise", 2], ["val"]])),
                            rng.choice([None, 0, 2, 3])))
    else:
        import itertools
        for L in (1, 2):
            for seq in itertools.product(alpha, repeat=L):
                out.append(prog(B(list(seq))))
        for seq in itertools.product(alpha[::2], repeat=3):
            out.append(prog(B(list(seq))))
        for seq in itertools.product(alpha, repeat=2):
            if rng.random() < 0.5:
                out.append(sync(B(list(seq), rng.choice([["none"], ["fut", 0], ["fut", 0], ["raise", 2], ["val"]])), rng.choice([None, 0, 2, 3])))
    # many equal deadlines (heap shapes), with removals
    for n in range(2, 12 if tier == "quick" else 24):
        ops = [["to", rng.randrange(4), 3, LEAF] for _ in range(n)]
        out.append(prog(B(ops)))
        ops2 = [["to", 0, rng.choice([3, 3, 4]), B([["rm", rng.randrange(n)]])] for _ in range(n)]
        out.append(prog(B(ops2 + [["rm", rng.randrange(n)]])))
    for k in range(4 if tier == "quick" else 12):
        out.append({"kind": "threads", "n": rng.randrange(1, 6), "m": rng.choice([1, 10, 50, 120]), "mode": ("otherloop", "noloop")[k % 2]})
    return out


# ---------------------------------------------------------------- evidence helpers
def nontrivial(case, o):
    if case["kind"] == "threads":
        return ("threads", case["n"], case["m"], case.get("mode"))
    if size(case["body"]) < 2:
        return None
    return G.jsonable([case, o])


def classify(case, o):
    yield "kind=" + case["kind"]
    if case["kind"] == "threads":
        yield "threads=" + case.get("mode", "noloop")
        return
    n = size(case["body"])
    yield "size=" + ("1" if n == 1 else "2-4" if n < 5 else "5-10" if n < 11 else "11-20" if n < 21 else "21+")
    try:
        tr = o[1]
    except Exception:
        return
    kinds = set(e[0] for e in tr)
    for k in (ST, RM, AF, RS, OR, LOG, LOGD):
        if k in kinds:
            yield "has=" + EVNAMES[k]
    its = [e for e in tr if e[0] == IT]
    yield "iterations=" + ("1" if len(its) <= 1 else "2-3" if len(its) < 4 else "4-7" if len(its) < 8 else "8+")
    inv = literal_deadline_inversion(tr)
    if inv:
        yield "earlier-deadline-waits=" + inv
    if case["kind"] == "sync":
        yield "sync=" + str(o[0][0] if not isinstance(o[0][0], list) else o[0][0][0])


def literal_deadline_inversion(tr):
    """a timeout ran while another pending, not removed timeout had a strictly earlier requested deadline.
    Since the call_at fix this only happens when the earlier one was scheduled DURING the iteration that had already
    collected the running one (returns "young"); anything else (returns "old") is a violation caught by the monitor."""
    pend = {}
    worst = None
    for e in tr:
        if e[0] == IT:
            for v in pend.values():
                v[2] = True
        elif e[0] == ST:
            pend[e[1]] = [e[2], False, False]
        elif e[0] == RM and e[1] in pend:
            pend[e[1]][1] = True
        elif e[0] == RUN and e[2] == 1 and e[1] in pend:
            d = pend.pop(e[1])[0]
            for (d2, rm, old) in pend.values():
                if (not rm) and d2 < d:
                    if old:
                        return "old"
                    worst = "young"
    return worst


def signature(case, o):
    try:
        if literal_deadline_inversion(o[1]) == "old":
            return "requested-deadline-order-violated"
    except Exception:
        pass
    return case["kind"]


def shrink(case):
    if case["kind"] == "threads":
        if case["m"] > 2:
            yield dict(case, m=case["m"] // 2)
        if case["n"] > 1:
            yield dict(case, n=case["n"] - 1)
        return
    body = case["body"]

    def variants(b):
        # drop one op; hoist a nested body; simplify outcome / numbers; recurse
        for i in range(len(b["ops"])):
            yield dict(b, ops=b["ops"][:i] + b["ops"][i + 1:])
        for i, op in enumerate(b["ops"]):
            for j, x in enumerate(op):
                if isinstance(x, dict):
                    if x["ops"] or x["out"] != ["none"]:
                        yield dict(b, ops=b["ops"][:i] + [op[:j] + [B()] + op[j + 1:]] + b["ops"][i + 1:])
                    for v in variants(x):
                        yield dict(b, ops=b["ops"][:i] + [op[:j] + [v] + op[j + 1:]] + b["ops"][i + 1:])
            if op[0] == "to" and op[2] not in (0, 1):
                yield dict(b, ops=b["ops"][:i] + [[op[0], op[1], op[2] // 2, op[3]]] + b["ops"][i + 1:])
            if op[0] == "to" and isinstance(op[1], list):
                yield dict(b, ops=b["ops"][:i] + [[op[0], 2, op[2], op[3]]] + b["ops"][i + 1:])
            elif op[0] == "to" and op[1] != 0:
                yield dict(b, ops=b["ops"][:i] + [[op[0], 0, op[2], op[3]]] + b["ops"][i + 1:])
        if b["out"] != ["none"]:
            yield dict(b, out=["none"])
    for v in variants(body):
        yield dict(case, body=relabel(v))
    if case["kind"] == "sync" and case["timeout"] not in (None, 0):
        yield dict(case, timeout=0)
        yield dict(case, timeout=None)


# ---------------------------------------------------------------- independent Python oracle (mirrors coq/C38/Monitor.v)
def _chk_struct(sync, tr):
    nxt, cur, now = (1 if sync else 0), None, None
    for e in tr:
        k = e[0]
        if k in (SC, AF):
            if e[1] != nxt or not (cur is not None or (e[1] == 0 and not sync)):
                return False
            nxt += 1
        elif k == ST:
            if e[1] != nxt or cur is None or now is None:
                return False
            nxt += 1
        elif k == ADV:
            if cur is None or now is None or e[1] < now:
                return False
            now = e[1]
        elif k == RM:
            if cur is None or not e[1] < nxt:
                return False
        elif k == RS:
            if e[2] not in (0, 1, 2) or (cur is None and not (sync and e[2] == 2)):
                return False
        elif k == OR:
            if cur is None:
                return False
        elif k == RUN:
            if cur is not None or now is None or not e[1] < nxt or e[2] not in (0, 1, 2, 3):
                return False
            cur = e[1]
        elif k == END:
            if cur != e[1] or e[2] not in (0, 1, 2, 3, 4):
                return False
            cur = None
        elif k in (LOG, LOGD):
            if cur is not None:
                return False
        elif k == IT:
            if cur is not None or (now is not None and e[1] < now):
                return False
            now = e[1]
        else:
            return False
    return cur is None


def _chk_cb(idle, tr):
    q = []
    for e in tr:
        if e[0] == SC:
            if e[1] in q:
                return False
            q.append(e[1])
        elif e[0] == RUN and e[2] == 0:
            if not q or q[0] != e[1]:
                return False
            q.pop(0)
    return (not q) if idle else True


def _chk_to(idle, tr):
    """pend[i] = [requested deadline, old (scheduled before the current iteration began), removed]"""
    now, pend = 0, {}
    for e in tr:
        if e[0] == IT:
            now = e[1]
            for v in pend.values():
                v[1] = True
        elif e[0] == ADV:
            now = e[1]
        elif e[0] == ST:
            if e[1] in pend:
                return False
            pend[e[1]] = [e[2], False, False]
        elif e[0] == RM:
            if e[1] in pend:
                pend[e[1]][2] = True
        elif e[0] == RUN and e[2] == 1:
            i = e[1]
            if i not in pend:
                return False
            d, _, rm = pend[i]
            if rm or now < d or any(old and (not r2) and d2 < d for (d2, old, r2) in pend.values()):
                return False
            del pend[i]
    return all(rm for (_, _, rm) in pend.values()) if idle else True


def _chk_fut(idle, tr):
    afs, res = {}, {}
    for e in tr:
        if e[0] == IT:
            for v in afs.values():
                v[1] = True
            for f in res:
                res[f] = True
        elif e[0] == AF:
            if e[1] in afs:
                return False
            afs[e[1]] = [e[2], False]
        elif e[0] == RS:
            if e[1] in res:
                return False
            res[e[1]] = False
        elif e[0] == RUN and e[2] == 2:
            i = e[1]
            if i not in afs:
                return False
            f, aged = afs[i]
            if not (aged and res.get(f, False)):
                return False
            del afs[i]
    return all(f not in res for (f, _) in afs.values()) if idle else True


def _chk_log(sync, idle, tr):
    expect, retf, exc = None, [], set()
    for e in tr:
        if expect is not None:
            if e[0] == LOG and e[1] == expect:
                expect = None
                continue
            return False
        if e[0] == LOG:
            return False
        if e[0] == END and e[2] in (2, 4):
            if not (sync and e[1] == 0):
                expect = e[1]
        elif e[0] == END and e[2] == 3:
            if not (sync and e[1] == 0):
                retf.append(e[3])
        elif e[0] == RS and e[2] == 1:
            exc.add(e[1])
        elif e[0] == LOGD:
            if e[1] not in exc or e[1] not in retf:
                return False
            retf.remove(e[1])
    if expect is not None:
        return False
    return all(f not in exc for f in retf) if idle else True


def _sync_ok(timeout, tr, r, fs):
    end0 = next((e for e in tr if e[0] == END and e[1] == 0), None)
    if end0 is None:
        return False
    code, arg = end0[2], end0[3]
    if code == 0:
        return r == "retnone" and fs == "-"
    if code == 1:
        return r == "badyield" and fs == "-"
    if code == 2:
        return r == ["exc", arg]
    if code == 4:
        return r == "invalidstate"
    if code != 3:
        return False
    first = next((e for e in tr if e[0] == RS and e[1] == arg), None)
    if first is None:
        return (r == "timeout" and fs == "cancelled") if timeout is not None else (r == "idle" and fs == "pending")
    if first[2] == 0:
        return r == ["ret", first[3]] and fs == "ok"
    if first[2] == 1:
        return r == ["exc", first[3]] and fs == "exc"
    return fs == "cancelled" and (r == "stopped" or (r == "timeout" and timeout is not None))


def py_check(case, o):
    if case["kind"] == "threads":
        return o == [T("threads"), True, True, True] and all(isinstance(x, bool) for x in o[1:])
    if not (isinstance(o, list) and len(o) == 2 and isinstance(o[1], list)):
        return False
    tr = o[1]
    if case["kind"] == "prog":
        return (o[0] == "idle" and _chk_struct(False, tr) and _chk_cb(True, tr) and _chk_to(True, tr)
                and _chk_fut(True, tr) and _chk_log(False, True, tr))
    if not (isinstance(o[0], list) and len(o[0]) == 2):
        return False
    r, fs = o[0]
    idle = r == "idle"
    to = case["timeout"]
    return (_chk_struct(True, tr) and _chk_cb(idle, tr) and _chk_to(idle, tr) and _chk_fut(idle, tr)
            and _chk_log(True, idle, tr) and _sync_ok(to, tr, r, fs))


TRUSTED_BASE = [
    "CPython 3.12 asyncio (BaseEventLoop._run_once/run_forever/call_soon/call_at, heapq with TimerHandle.__lt__ on _when only, Future callbacks) is MODELLED in Gallina, "
    "not verified; the model is tied to it only by the correspondence runs",
    "harness/vclock.py virtual clock (selector advances the clock by the select timeout; time.time patched); the harness stops the loop when the selector would block forever; "
    "callbacks take virtual time only through the explicit 'adv' op",
    "the harness's trace recorder (wrappers around the scheduled functions, a logging handler on tornado.application/tornado.general/asyncio, the loop exception handler, "
    "iteration marks in the selector, a Future subclass recording successful cancel())",
    "threads: the multi-thread add_callback clause is a harness-level stress check ONLY (loop A idle in select() in its own thread, no timers; caller threads plain or running "
    "their own asyncio loop; 25 s real-time deadline, then a breaker); the Coq theorems cover every interleaving of ATOMIC appends to the ready deque and the "
    "call_soon / call_soon_threadsafe decision with an abstract 'woken' flag for the self-pipe; real preemption is not exhibited",
]
ASSUMPTIONS = [
    "times are multiples of 0.25 s around a virtual epoch, so every float operation in call_at/call_later is exact (TimerHandle._when equals the requested deadline) "
    "and `when < now + clock_resolution` is `when <= now`",
    "fewer than 100 timers are pending at once (asyncio's bulk clean-up of cancelled timers, taken above 100 scheduled handles, is not modelled)",
    "callbacks raise Exception subclasses (a BaseException such as KeyboardInterrupt does stop the loop; outside the property)",
    "the theorems are about runs that end (idle or stopped); that the fuel computed from the program size always suffices is not proved (it does on every generated case)",
]
RULE = ("random scheduling programs (6 profiles: mixed / equal deadlines / futures / overdue deadlines / slow callbacks / callbacks; tree size 1-25) as IOLoop programs and as "
        "run_sync functions with timeouts; every op sequence of length <= 2 over a 28-op alphabet and, in the thorough tier, every length-3 sequence over half of it; "
        "equal-deadline heaps of 2..23 timers with removals; thread stress runs; distinct by (program, observable); non-trivial = program with at least one op")
LEVEL_TEXT = ("Machine-checked (Coq) theorems over an executable model of IOLoop.add_callback/add_timeout/call_later/call_at/remove_timeout/add_future/_run_callback/run_sync on "
              "asyncio's _run_once (ready FIFO + heapq of timers, heapq proved correct): for EVERY scheduling program and both ends of the loop: add_callback callbacks run exactly "
              "once in scheduling order; timeouts run at most once, not before their deadline, never after remove_timeout, in order of their REQUESTED deadlines (overdue ones included, ties "
              "unordered; a timeout scheduled during an iteration cannot overtake those the iteration already collected), and all run unless removed; raising callbacks are logged immediately and nothing else is; add_future callbacks start only after an iteration boundary following both the "
              "call and the resolution; final future states match the trace; run_sync's result vs the returned future (partial). The model is compared event-by-event with a real IOLoop "
              "on the virtual-clock loop, and a trace monitor (check_case / py_check) that never calls the model checks the property on the real trace.")
LEVEL_NOTE = ("Trusted: Coq kernel/vm_compute; the Gallina model of asyncio; virtual clock + trace recorder; thread clause is a stress check only. Partial: termination (fuel) not proved; "
              "run_sync theorem partial; check_case(run_case) proved for a 13821-input small scope only. "
              "The former finding (overdue deadlines ran in call order because call_at clamped them) is fixed in /repo and kept as a corpus case; equal deadlines are unordered (heapq).")
TECHNIQUE = "Coq proof (heapq invariants, loop invariants over atomic actions for all programs) + differential correspondence on a real IOLoop with a virtual clock + independent trace monitor"
