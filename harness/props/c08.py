"""C08 — the HTTP client decodes any response stream exactly as a strict parser does.

The real client (simple_httpclient._HTTPConnection -> HTTP1Connection(is_client=True) ->
[_GzipMessageDelegate] -> _HTTPConnection.headers_received/data_received/finish) is driven
over a FakeIOStream handed out by a fake TCPClient; scripted response bytes are fed one TCP
segment at a time, then EOF.  What final_callback received (HTTPResponse fields or the error
class), what streaming_callback was given, and whether the fetch completed before EOF are
compared with the Gallina model (C08.Run.run_case = client_seg) and checked against the
strict reader of the concatenated stream (C08.Run.check_case)."""
import asyncio
import gzip as _gzip
import http.client
import logging
import zlib

from harness import gallina as G

ID = "C08"
COQ_DIRS = ["C08", "Gen"]
PROPERTY_FILE = "C08/Property.v"
RUN_IMPORTS = "From TV Require Import C08.Base C08.Model C08.Run."
RUN_FN = "run_case"
CHECK_FN = "check_case"
INPUT_TYPE = "input"



def pre_build():
    """regenerate Gen/C08_src.v (the framing rules of _read_body & co.) from the working tree; fails closed"""
    import importlib
    import os
    import sys
    from harness.framework import REPO, COQ
    sys.path.insert(0, os.path.join(os.path.dirname(COQ), "translators"))
    import c08_src
    importlib.reload(c08_src)
    c08_src.emit(REPO, os.path.join(COQ, "Gen", "C08_src.v"))


CRLF = b"\r\n"
MAX_BUFFER = 1 << 20
REQ_BODY = b"BODY"

# ----------------------------------------------------------------------------
# implementation runner
# ----------------------------------------------------------------------------
_records = []


class _Capture(logging.Handler):
    def emit(self, r):
        try:
            msg = r.getMessage()
        except Exception:
            msg = str(r.msg)
        _records.append((r.name, r.levelno, msg))


_installed = [False]


def _install_logging():
    if _installed[0]:
        return
    _installed[0] = True
    h = _Capture()
    for n in ("tornado.application", "tornado.general", "tornado.access", "asyncio"):
        lg = logging.getLogger(n)
        lg.addHandler(h)
        lg.setLevel(logging.DEBUG)
        lg.propagate = False


def fetch_stream(segs, mh, mb, cs, head=False, dec=False, streaming=False, exp=False):
    """Run one real fetch over a scripted transport.  Returns a dict with the observations
    and the zlib call record."""
    from harness.fake_iostream import FakeIOStream, EOF
    from harness.vclock import run_virtual
    from tornado import httpclient
    from tornado.simple_httpclient import _HTTPConnection
    import tornado.http1connection as h1

    _install_logging()
    del _records[:]
    out = {"resp": [], "chunks": [], "released": 0, "at_final": None, "early": False, "gz": []}

    async def quiesce(loop):
        for _ in range(20000):
            await asyncio.sleep(0)
            if not loop._ready:
                return
        raise RuntimeError("client did not quiesce")

    class Conn(_HTTPConnection):
        # only hook: the connection parameters' chunk_size (simple_httpclient always uses the
        # 64 KiB default; smaller values exercise the partial-read and max_length loops)
        def _create_connection(self, stream):
            conn = super()._create_connection(stream)
            conn.params.chunk_size = cs
            return conn

        async def headers_received(self, first_line, headers):
            out["raw_reason"] = first_line.reason     # observation only (HTTPResponse.reason hides None)
            return await super().headers_received(first_line, headers)

    orig = h1.GzipDecompressor

    class RecGz(orig):
        def decompress(self, value, max_length=0):
            try:
                res = orig.decompress(self, value, max_length)
            except zlib.error:
                out["gz"].append(("err",))
                raise
            out["gz"].append(("dec", len(value), max_length, bytes(res), len(self.unconsumed_tail)))
            return res

        def flush(self):
            res = orig.flush(self)
            out["gz"].append(("flush", bool(res), bool(self.decompressobj.eof)))
            return res

    async def scenario(loop):
        s = FakeIOStream(max_buffer_size=MAX_BUFFER)

        class TC:
            async def connect(self, host, port, **kw):
                return s

        kw = {}
        if streaming:
            kw["streaming_callback"] = lambda c: out["chunks"].append(bytes(c))
        if exp:
            # second path into the reader: run() -> _read_response() directly, body held back
            kw.update(method="POST", body=REQ_BODY, expect_100_continue=True)
        else:
            kw.update(method="HEAD" if head else "GET")
        req = httpclient.HTTPRequest("http://h.test/p", decompress_response=dec, follow_redirects=False,
                                     request_timeout=0, connect_timeout=0, **kw)
        req = httpclient._RequestProxy(req, dict(httpclient.HTTPRequest._DEFAULTS))

        def release():
            out["released"] += 1
            if out["at_final"] is None:
                out["at_final"] = b"".join(out["chunks"])

        Conn(None, req, release, lambda r: out["resp"].append(r), MAX_BUFFER, TC(), mh, mb)
        await quiesce(loop)
        pre = len(s.sent)
        for seg in segs:
            assert len(seg) > 0
            if s.closed():
                break
            s.feed(bytes(seg))
            await quiesce(loop)
        out["early"] = bool(out["resp"])
        if not s.closed():
            s.feed(EOF)
            await quiesce(loop)
        out["closed"] = s.closed()
        out["sent_after"] = bytes(s.sent[pre:])

    h1.GzipDecompressor = RecGz
    try:
        run_virtual(scenario)
    finally:
        h1.GzipDecompressor = orig
    out["logs"] = list(_records)
    return out


_MSG = {"Stream closed": "StreamClosed", "Connection closed": "ConnectionClosed",
        "Malformed response": "MalformedResponse"}
_ERR = {"UnsatisfiableReadError": "UnsatisfiableRead", "_QuietException": "QuietException"}


def canon(out):
    o = _canon(out)
    if len(o) == 4:
        sa = out.get("sent_after", b"")
        o.append(True if sa == REQ_BODY else False if sa == b"" else G.Tag("request-body-bytes-wrong"))
    return o


def _canon(out):
    streamed = b"".join(out["chunks"])
    if len(out["resp"]) > 1:
        return [G.Tag("final-callback-ran-twice")]
    if not out["resp"]:
        return [G.Tag("Hang"), streamed, b"", False]
    r = out["resp"][0]
    at_final = out["at_final"] if out["at_final"] is not None else streamed
    late = streamed[len(at_final):]
    early = bool(out["early"])
    if r.buffer is None:         # synthesized by _HTTPConnection._handle_exception
        if r.error is None or r.code != 599:
            return [G.Tag("bufferless-response"), at_final, late, early]
        name = type(r.error).__name__
        if name == "HTTPStreamClosedError":
            msg = getattr(r.error, "message", "")
            tag = _MSG.get(msg, "HTTPStreamClosedError:" + str(msg))
        else:
            tag = _ERR.get(name) or name
        return [G.Tag(tag), at_final, late, early]
    # a response (any status code, including those HTTPResponse wraps in an HTTPError)
    hs = [[k.encode("latin-1"), v.encode("latin-1")] for k, v in r.headers.get_all()]
    body = r.body if r.body is not None else b""
    if out.get("raw_reason") is None:
        # HTTPResponse substitutes the standard phrase when the status line had none
        if r.reason != http.client.responses.get(r.code, "Unknown"):
            return [G.Tag("reason-not-defaulted"), at_final, late, early]
        reason_obs = None
    else:
        if r.reason != out["raw_reason"]:
            return [G.Tag("reason-changed"), at_final, late, early]
        reason_obs = r.reason.encode("latin-1")
    return [[r.code, reason_obs, hs, bytes(body)], at_final, late, early]


def segs_of(case):
    return [s.encode("latin-1") for s in case["segs"]]


def run_impl(case):
    out = fetch_stream(segs_of(case), case["mh"], case["mb"], case["cs"], case["head"], case["dec"], case["str"],
                       case.get("exp", False))
    tbl = []
    for e in out["gz"]:
        if e[0] == "err":
            tbl.append(["err"])
        elif e[0] == "dec":
            tbl.append(["dec", e[1], e[2], e[3].decode("latin-1"), e[4]])
        else:
            tbl.append(["flush", e[1], e[2]])
    case["_tbl"] = tbl          # the decompressor oracle handed to the model
    o = canon(out)
    if not out.get("closed"):
        o.append(G.Tag("stream-left-open-after-eof"))
    if out["released"] != 1:
        o.append(G.Tag("released-%d-times" % out["released"]))
    return o


def gtbl(tbl):
    items = []
    for e in tbl:
        if e[0] == "err":
            items.append("GDecErr")
        elif e[0] == "dec":
            items.append("GDec %s %s %s %s" % (G.gnat(e[1]), G.gnat(e[2]), G.gbytes(e[3].encode("latin-1")), G.gnat(e[4])))
        else:
            items.append("GFlush %s %s" % (G.gbool(e[1]), G.gbool(e[2])))
    return G.glist(items, "gzent")


def coq_input(case):
    if "_tbl" not in case:
        run_impl(case)
    return "(%s, %s, %s, %s, %s, %s, %s, %s, %s)" % (
        G.gnat(case["mh"]), G.gn(case["mb"]), G.gnat(case["cs"]), G.gbool(case["head"]), G.gbool(case["dec"]),
        G.gbool(case["str"]), G.gbool(case.get("exp", False)), gtbl(case["_tbl"]), G.glist([G.gbytes(s) for s in segs_of(case)], "(list N)"))


# ----------------------------------------------------------------------------
# generator
# ----------------------------------------------------------------------------
def mk(segs, mh=1000, mb=1000, cs=64, head=False, dec=False, streaming=False, kind="", seg="", expect=None, exp=False):
    segs = [bytes(s) for s in segs if len(s) > 0]
    c = {"mh": mh, "mb": mb, "cs": cs, "head": bool(head) and not exp, "dec": bool(dec), "str": bool(streaming), "exp": bool(exp),
         "segs": [s.decode("latin-1") for s in segs], "kind": kind, "seg": seg}
    if expect is not None:
        c["expect"] = expect
    return c


def corpus_cases():
    gz = _gzip.compress(b"hello world" * 5, mtime=0)
    H = b"HTTP/1.1 200 OK\r\n"
    out = []
    # --- witnesses of the defects found while building this check (all fixed in /repo) ---
    # e043b11: phantom second body after a 1xx
    out.append(mk([b"HTTP/1.1 100 Continue\r\n\r\n" + H + b"Content-Length: 2\r\n\r\nhiTRAIL"], streaming=True, kind="fix-1xx-trailing"))
    out.append(mk([b"HTTP/1.1 100 Continue\r\n\r\nGARBAGE\r\n\r\nREST"], kind="fix-1xx-garbage"))
    out.append(mk([b"HTTP/1.1 100 Continue\r\n\r\nHTTP/1.1 102 P\r\n\r\n" + H + b"Content-Length: 2\r\n\r\nhiTRAIL"], streaming=True, kind="fix-1xx-x2"))
    out.append(mk([b"HTTP/1.1 100 Continue\r\n\r\n" + H + b"X: " + b"a" * 200 + b"\r\n\r\n"], mh=100, kind="fix-1xx-bighdr"))
    out.append(mk([b"HTTP/1.1 100 Continue\r\n\r\n"], kind="fix-1xx-eof"))
    # 18bc8c4: malformed head left the fetch pending
    for bad in (b"HTTP/1.1 20 OK\r\n\r\n", b"HTTP/2.0 200 OK\r\n\r\n", H + b"bad header\r\n\r\n",
                b"\r\n\r\n" + H + b"Content-Length: 2\r\n\r\nhi", b"HTTP/1.1 200\r\n\r\n"):
        out.append(mk([bad], kind="fix-head-hang"))
    # 4172fcb: truncated gzip accepted
    out.append(mk([H + b"Content-Encoding: gzip\r\n\r\n" + gz[:20]], dec=True, streaming=True, kind="fix-gzip-trunc"))
    out.append(mk([H + b"Content-Encoding: gzip\r\nContent-Length: %d\r\n\r\n" % (len(gz) - 4) + gz[:-4]], dec=True, kind="fix-gzip-trunc"))
    # e310265: close-delimited body over max_body_size
    out.append(mk([H + b"\r\n" + b"a" * 60], mb=50, kind="fix-close-over"))
    out.append(mk([H + b"\r\n" + b"a" * 60], mb=50, streaming=True, kind="fix-close-over"))
    out.append(mk([H + b"\r\n" + b"a" * 50], mb=50, kind="close-at-limit"))
    # 466c889: decompressor of a 1xx stayed installed
    out.append(mk([b"HTTP/1.1 103 Early\r\nContent-Encoding: gzip\r\n\r\n" + H + b"Content-Length: 5\r\n\r\nhello"], dec=True, kind="fix-1xx-ce"))
    # 4f57f99 / c8fa85f (earlier fixes)
    out.append(mk([H + b"Content-Encoding: gzip\r\nContent-Length: 5\r\n\r\nabcde"], dec=True, kind="fix-gzip-corrupt"))
    out.append(mk([H + b"Transfer-Encoding: chunked\r\n\r\n5\r\nhelloXX0\r\n\r\n"], streaming=True, kind="fix-chunk-term"))
    out.append(mk([H + b"Transfer-Encoding: chunked\r\n\r\n0\r\nXX"], kind="fix-chunk-term"))
    # --- plain regression shapes ---
    out.append(mk([H + b"Content-Length: 5\r\n\r\nhelloEXTRA"], kind="cl"))
    out.append(mk([H + b"Content-Length: 5\r\n\r\nhel"], streaming=True, kind="cl-short"))
    out.append(mk([H + b"Transfer-Encoding: chunked\r\n\r\n3\r\nhel\r\n2\r\nlo\r\n0\r\n\r\n"], kind="chunked"))
    out.append(mk([b"HTTP/1.1 204 No Content\r\nContent-Length: 2\r\n\r\nxx"], kind="204-cl"))
    out.append(mk([b"HTTP/1.1 304 Not Modified\r\nContent-Length: 2\r\n\r\nxx"], kind="304"))
    out.append(mk([H + b"Content-Length: 5\r\n\r\nhello"], head=True, kind="head"))
    out.append(mk([H + b"Content-Encoding: gzip\r\n\r\n" + gz + b"garbage"], dec=True, streaming=True, kind="gzip-trailing"))
    out.append(mk([H + b"Content-Encoding: gzip\r\nContent-Length: %d\r\n\r\n" % len(gz) + gz], dec=True, mb=50, streaming=True, kind="gzip-over"))
    out.append(mk([], kind="empty"))
    # expect_100_continue
    C = b"HTTP/1.1 100 Continue\r\n\r\n"
    F = H + b"Content-Length: 2\r\n\r\nhi"
    for segs in ([C, F], [C + F], [F], [C, C, F], [C + C + F], [b"HTTP/1.1 102 P\r\n\r\n", C, F], [C],
                 [b"HTTP/1.1 100 Continue\r\nContent-Length: 0\r\n\r\n", F], [b"HTTP/1.1 417 EF\r\nContent-Length: 0\r\n\r\n"]):
        out.append(mk(segs, exp=True, kind="expect"))
        out.append(mk(segs, exp=False, kind="expect-off"))
    return out


REASONS = [b"OK", b"Not Found", b"", b"caf\xe9 ok", b"x\ty", b"  "]
CODES = [200, 200, 200, 201, 204, 304, 404, 500, 302, 599, 999, 0]
ONEXX = [100, 101, 102, 103, 199]
EXTRA_HEADERS = [(b"X-A", b"1"), (b"x-a", b"2"), (b"Server", b"t/1"), (b"X-Long", b"abc def\tghi"),
                 (b"Set-Cookie", b"a=b; c=d"), (b"X-Obs", b"caf\xe9"), (b"X-Empty", b""), (b"ETag", b"\"x\""),
                 (b"x-b-c", b"v"), (b"Location", b"/next"), (b"Connection", b"close"), (b"X-A", b"3"),
                 (b"X-Fold", b"\r\n folded"), (b"X-Fold", b"a\r\n \r\n\tb"), (b"Content-Type", b"text/plain"),
                 (b"Content-Encoding", b"identity"), (b"X-Consumed-Content-Encoding", b"old")]
BAD_HEADER_LINES = [b"no colon here", b" leading: fold", b"X y: 1", b": empty", b"X-Ctl: a\x01b", b"X-Nul: \x00",
                    b"X\xe9: 1", b"X-CR: a\rb"]


def rbytes(rng, n, alphabet=None):
    if alphabet:
        return bytes(rng.choice(alphabet) for _ in range(n))
    return bytes(rng.randrange(256) for _ in range(n))


def status_line(rng, code=None, valid=True):
    code = rng.choice(CODES) if code is None else code
    ver = rng.choice([b"HTTP/1.1", b"HTTP/1.1", b"HTTP/1.0", b"HTTP/1.9"])
    reason = rng.choice(REASONS)
    line = ver + b" %03d " % code + reason
    if not valid:
        line = rng.choice([ver + b" %03d" % code, b"HTTP/2.0 200 OK", b"http/1.1 200 OK", ver + b" 20 OK", ver + b" 2000 OK",
                           ver + b"  200 OK", ver + b" 200 O\x01K", b"HTTP/1.1\t200 OK", b"HTTP/11 200 OK", b"", b"HTTP/1.1 2x0 OK",
                           ver + b" +20 OK", b" " + line])
    return line, code, (reason if reason else None)


def chunked_encode(rng, body, flavour="ok"):
    out = b""
    pos = 0
    while pos < len(body):
        n = rng.randrange(1, max(2, len(body) - pos + 1))
        piece = body[pos:pos + n]
        pos += n
        size = ("%x" % n).encode()
        if rng.random() < 0.3:
            size = size.upper()
        if rng.random() < 0.15:
            size = b"0" * rng.randrange(1, 4) + size
        out += size + b"\r\n" + piece + b"\r\n"
    out += b"0\r\n\r\n"
    return out


def make_response(rng, dec):
    """One response from the grammar.  Returns (bytes, info) with info = dict(kind=..., expect=None|dict)."""
    body = rng.choice([b"", b"x", b"hello", rbytes(rng, rng.randrange(1, 40)), b"ab" * rng.randrange(1, 30),
                       b"line1\r\nline2\r\n\r\n", b"0\r\n\r\n"])
    line, code, reason = status_line(rng)
    hdrs = [rng.choice(EXTRA_HEADERS) for _ in range(rng.choice([0, 0, 1, 2, 3]))]
    framing = rng.choice(["cl", "cl", "chunked", "chunked", "close", "close", "none"])
    gz = dec is not None and rng.random() < (0.6 if dec else 0.15)
    wire_body = body
    gzkind = ""
    if gz:
        wire_body = _gzip.compress(body, mtime=0, compresslevel=rng.choice([1, 6, 9]))
        hdrs.insert(rng.randrange(len(hdrs) + 1), (rng.choice([b"Content-Encoding", b"content-encoding"]), rng.choice([b"gzip", b"gzip", b"GZip"])))
        gzkind = "+gzip"
    if framing == "cl":
        hdrs.insert(rng.randrange(len(hdrs) + 1), (b"Content-Length", b"%d" % len(wire_body)))
        payload = wire_body
    elif framing == "chunked":
        hdrs.insert(rng.randrange(len(hdrs) + 1), (b"Transfer-Encoding", rng.choice([b"chunked", b"chunked", b"Chunked"])))
        payload = chunked_encode(rng, wire_body)
    elif framing == "close":
        payload = wire_body
    else:
        payload = b""
    nl = rng.choice([b"\r\n"] * 6 + [b"\n"])
    head = line + nl + b"".join(k + rng.choice([b": ", b":", b":  "]) + v + nl for k, v in hdrs) + nl
    n_ce = sum(1 for k, _ in hdrs if k.lower() in (b"content-encoding", b"x-consumed-content-encoding"))
    return head, payload, {"code": code, "framing": framing, "gz": gz, "body": body, "wire": wire_body,
                           "kind": framing + gzkind, "head_len": len(head), "clean_ce": n_ce == (1 if gz else 0)}


def interim(rng, bad=False):
    code = rng.choice(ONEXX)
    hdrs = [rng.choice(EXTRA_HEADERS[:10]) for _ in range(rng.choice([0, 0, 1]))]
    if bad:
        hdrs.append(rng.choice([(b"Content-Length", b"0"), (b"Transfer-Encoding", b"chunked"), (b"content-length", b"3")]))
    elif rng.random() < 0.2:
        hdrs.append((b"Content-Encoding", b"gzip"))
    return b"HTTP/1.1 %d %s\r\n" % (code, rng.choice([b"Continue", b"Early Hints", b""])) + b"".join(k + b": " + v + b"\r\n" for k, v in hdrs) + b"\r\n"


def near_valid(rng, dec):
    """A stream from the grammar with one defect (or none): returns (stream, kind)."""
    head, payload, info = make_response(rng, dec)
    kind = info["kind"]
    stream = head + payload
    r = rng.random()
    if r < 0.30:
        trail = rng.choice([b"", b"", b"TRAIL", b"\r\n", b"HTTP/1.1 200 OK\r\n\r\n"])
        # an independent statement of what a valid stream must decode to (checked by py_check)
        exp = None
        fr = info["framing"]
        if info["code"] not in (204, 304) and not (100 <= info["code"] < 200) and info["clean_ce"]:
            if fr in ("cl", "chunked"):
                exp = {"code": info["code"], "plain": info["body"], "wire": info["wire"], "gz": info["gz"], "head_len": info["head_len"]}
            elif not info["gz"]:
                exp = {"code": info["code"], "plain": (info["wire"] if fr == "close" else b"") + trail,
                       "wire": (info["wire"] if fr == "close" else b"") + trail, "gz": False, "head_len": info["head_len"]}
        if exp is not None:
            exp = {k: (v.decode("latin-1") if isinstance(v, bytes) else v) for k, v in exp.items()}
        return stream + trail, kind, exp
    if r < 0.42:
        n = rng.choice([1, 1, 2])
        pre = b"".join(interim(rng) for _ in range(n))
        return pre + stream + rng.choice([b"", b"TRAIL"]), "1xx+" + kind, None
    if r < 0.46:
        return interim(rng, bad=True) + stream, "1xx-bad+" + kind, None
    if r < 0.58 and len(stream) > 1:   # truncated anywhere
        return stream[:rng.randrange(1, len(stream))], "trunc+" + kind, None
    if r < 0.64:    # corrupt one byte
        i = rng.randrange(len(stream))
        return stream[:i] + bytes([rng.choice([0, 10, 13, 32, 58, 255, stream[i] ^ 1])]) + stream[i + 1:], "flip+" + kind, None
    if r < 0.68:    # delete one byte
        i = rng.randrange(len(stream))
        return stream[:i] + stream[i + 1:], "del+" + kind, None
    if r < 0.72:
        line, _, _ = status_line(rng, valid=False)
        return line + b"\r\n" + head.split(b"\n", 1)[1] + payload, "badline+" + kind, None
    if r < 0.76:
        first, rest = head.split(b"\n", 1)
        return first + b"\n" + rng.choice(BAD_HEADER_LINES) + b"\r\n" + rest + payload, "badhdr+" + kind, None
    if r < 0.88:    # framing conflicts / bad lengths
        first, rest = head.split(b"\n", 1)
        extra = rng.choice([b"Content-Length: 3", b"Content-Length: 3, 3", b"Content-Length: 3,4", b"Content-Length: +3",
                            b"Content-Length: 3x", b"Content-Length: ", b"Content-Length: 99999", b"Transfer-Encoding: chunked",
                            b"Transfer-Encoding: gzip", b"Transfer-Encoding: chunked, chunked", b"Content-Length: 0",
                            b"Content-Length: 00", b"Content-Length: 3\r\nContent-Length: 3", b"Content-Length: 3\r\nContent-Length: 4",
                            b"Content-Length: " + b"1" * 30])
        return first + b"\n" + extra + b"\r\n" + rest + payload, "framing+" + kind, None
    if r < 0.94 and info["framing"] == "chunked":
        bad = rng.choice([b"5;ext=1\r\nhello\r\n0\r\n\r\n", b"5\r\nhelloXX", b"5\r\nhello\r\n0\r\nXX", b"zz\r\n", b"\r\n", b"-1\r\n",
                          b"5\nhello\n0\n\n", b"0x5\r\nhello\r\n0\r\n\r\n", b"5 \r\nhello\r\n0\r\n\r\n", b"1" * 70 + b"\r\n",
                          b"f" * 20 + b"\r\n", b"5\r\nhel", b"5\r\nhello\r", b"0\r\n"])
        return head + bad, "badchunk", None
    return stream, kind, None


def raw_junk(rng):
    alpha = b"HTP/1.02 OK\r\n\r\n: \tx"
    return rbytes(rng, rng.randrange(0, 60), alpha if rng.random() < 0.8 else None)


def gzip_special(rng):
    """gzip streams at the edges: truncation points, corruption, trailing data, bombs."""
    body = rng.choice([b"hello world" * 3, b"\x00" * rng.choice([100, 300, 1000]), rbytes(rng, 30), b""])
    gz = _gzip.compress(body, mtime=0)
    how = rng.choice(["trunc", "trunc", "corrupt", "trail", "twice", "ok", "deflate-raw", "bomb"])
    if how == "trunc":
        gz2 = gz[:rng.randrange(0, len(gz))]
    elif how == "corrupt":
        i = rng.randrange(len(gz))
        gz2 = gz[:i] + bytes([gz[i] ^ (1 << rng.randrange(8))]) + gz[i + 1:]
    elif how == "trail":
        gz2 = gz + rng.choice([b"x", b"garbage", b"\x00\x00"])
    elif how == "twice":
        gz2 = gz + gz
    elif how == "deflate-raw":
        gz2 = zlib.compress(body)
    else:
        gz2 = gz
    framing = rng.choice(["cl", "chunked", "close"])
    H = b"HTTP/1.1 200 OK\r\nContent-Encoding: gzip\r\n"
    if framing == "cl":
        s = H + b"Content-Length: %d\r\n\r\n" % len(gz2) + gz2
    elif framing == "chunked":
        s = H + b"Transfer-Encoding: chunked\r\n\r\n" + chunked_encode(rng, gz2)
    else:
        s = H + b"\r\n" + gz2
    return s, "gzip-" + how + "-" + framing


def segmentations(rng, stream, tier):
    """A few ways of cutting the stream into TCP segments."""
    n = len(stream)
    out = [("whole", [stream])]
    if n >= 2:
        out.append(("bytes", [stream[i:i + 1] for i in range(n)]))
        k = rng.randrange(1, n)
        out.append(("cut1", [stream[:k], stream[k:]]))
        cuts = sorted(set(rng.randrange(1, n) for _ in range(rng.randrange(2, 6))))
        out.append(("cuts", [stream[a:b] for a, b in zip([0] + cuts, cuts + [n])]))
    return out


def pick_cfg(rng, n):
    mh = rng.choice([1000] * 8 + [64, 40, max(4, n // 3)])
    mb = rng.choice([1000, 1000, 1000, 50, 20, 5, 0])
    cs = rng.choice([64, 64, 4096, 16, 3, 1])
    return mh, mb, cs


def gen_cases(rng, tier):
    out = []
    quick = tier != "thorough"
    n_streams = 150 if quick else 800
    for i in range(n_streams):
        dec = rng.random() < 0.5
        r = rng.random()
        exp = None
        if r < 0.70:
            stream, kind, exp = near_valid(rng, dec)
        elif r < 0.90:
            stream, kind = gzip_special(rng)
            dec = rng.random() < 0.85
        else:
            stream, kind = raw_junk(rng), "junk"
        if len(stream) > 420:
            stream = stream[:420]
        mh, mb, cs = pick_cfg(rng, len(stream))
        head = rng.random() < 0.12
        if exp is not None and rng.random() < 0.7:     # keep most valid streams decodable
            mh, mb, head = 1000, 1000, False
        streaming = rng.random() < 0.5
        exp100 = rng.random() < (0.5 if kind.startswith("1xx") else 0.1)
        segs = segmentations(rng, stream, tier)
        if quick:
            segs = [segs[0]] + rng.sample(segs[1:], min(2, len(segs) - 1))
        expect = None
        if exp is not None and len(stream) <= 420 and (not head or exp100) and mh >= exp["head_len"]:
            body = exp["plain"] if (dec and exp["gz"]) else exp["wire"]
            if max(len(body), len(exp["wire"])) <= mb:
                expect = {"code": exp["code"], "body": body}
        for name, sg in segs:
            out.append(mk(sg, mh, mb, cs, head, dec, streaming, kind=kind, seg=name, expect=expect, exp=exp100))
    # boundary values: body length around max_body_size for each framing, both delivery modes
    for mb in (0, 1, 7):
        for ln in (max(0, mb - 1), mb, mb + 1):
            body = b"b" * ln
            gz = _gzip.compress(body, mtime=0)
            for streaming in (False, True):
                H = b"HTTP/1.1 200 OK\r\n"
                out.append(mk([H + b"Content-Length: %d\r\n\r\n" % ln + body], mb=mb, streaming=streaming, kind="limit-cl"))
                out.append(mk([H + b"Transfer-Encoding: chunked\r\n\r\n" + (b"%x\r\n" % ln + body + b"\r\n" if ln else b"") + b"0\r\n\r\n"], mb=mb, streaming=streaming, kind="limit-chunked"))
                out.append(mk([H + b"\r\n" + body], mb=mb, streaming=streaming, kind="limit-close"))
                out.append(mk([H + b"Content-Encoding: gzip\r\n\r\n", gz], mb=max(mb, 0), dec=True, streaming=streaming, kind="limit-gzip-close"))
                out.append(mk([H + b"Content-Encoding: gzip\r\nTransfer-Encoding: chunked\r\n\r\n", b"%x\r\n" % len(gz) + gz + b"\r\n0\r\n\r\n"], mb=50, dec=True, cs=3, streaming=streaming, kind="limit-gzip-chunked"))
    # statuses without a body x what the headers announce x HEAD
    for code in (204, 304, 100, 199, 200):
        for ann in (b"", b"Content-Length: 0\r\n", b"Content-Length: 2\r\n", b"Transfer-Encoding: chunked\r\n", b"Content-Length: 0, 0\r\n"):
            for head in (False, True):
                tail = b"2\r\nxx\r\n0\r\n\r\n" if b"chunked" in ann else b"xx"
                st = b"HTTP/1.1 %d R\r\n" % code + ann + b"\r\n" + (b"HTTP/1.1 200 OK\r\nContent-Length: 1\r\n\r\nZ" if code < 200 else tail)
                out.append(mk([st], head=head, streaming=rng.random() < 0.5, kind="nobody-%d" % code))
    # every sequence of up to 3 interim responses from {100, 102, 100+CL} before a final one,
    # with and without expect_100_continue (small-scope exhaustive)
    I = {"c": b"HTTP/1.1 100 Continue\r\n\r\n", "p": b"HTTP/1.1 102 Processing\r\n\r\n", "x": b"HTTP/1.1 100 C\r\nContent-Length: 0\r\n\r\n"}
    finals = [b"HTTP/1.1 200 OK\r\nContent-Length: 2\r\n\r\nhi", b"HTTP/1.1 404 NF\r\n\r\nbody", b"", b"junk\r\n\r\n"]
    import itertools
    for n in range(0, 4):
        for seq in itertools.product("cpx", repeat=n):
            for fin in (finals if not quick or n < 3 else finals[:1]):
                stream_ = b"".join(I[k] for k in seq) + fin
                for e100 in (True, False):
                    pieces = [I[k] for k in seq] + [fin]
                    out.append(mk(pieces if rng.random() < 0.5 else [stream_], exp=e100, streaming=rng.random() < 0.5, kind="interims", seg="msgs"))
    # header-size boundary
    base = b"HTTP/1.1 200 OK\r\nContent-Length: 1\r\n\r\nZ"
    hl = len(base) - 1
    for mh in (hl - 1, hl, hl + 1):
        for name, sg in segmentations(rng, base, tier):
            out.append(mk(sg, mh=mh, kind="limit-header", seg=name))
    # every single cut point of a set of small streams (thorough: more streams)
    small = [b"HTTP/1.1 200 OK\r\nContent-Length: 3\r\n\r\nabcX",
             b"HTTP/1.1 200 OK\r\nTransfer-Encoding: chunked\r\n\r\n2\r\nab\r\n1\r\nc\r\n0\r\n\r\nX",
             b"HTTP/1.1 100 C\r\n\r\nHTTP/1.0 404 NF\nA: b\n\nbody",
             b"HTTP/1.1 204 \r\n\r\n"]
    if not quick:
        for _ in range(40):
            s, k, _ = near_valid(rng, rng.random() < 0.5)
            if len(s) <= 90:
                small.append(s)
    for s in small:
        dec = rng.random() < 0.5
        streaming = rng.random() < 0.5
        for k in range(1, len(s)):
            out.append(mk([s[:k], s[k:]], dec=dec, streaming=streaming, kind="cutsweep", seg="cut1"))
        if not quick and len(s) <= 40:
            for a in range(1, len(s)):
                for b in range(a + 1, len(s), 4):
                    out.append(mk([s[:a], s[a:b], s[b:]], dec=dec, streaming=streaming, kind="cutsweep2", seg="cut2"))
    return out


# ----------------------------------------------------------------------------
# evidence helpers
# ----------------------------------------------------------------------------
def _outkind(o):
    if not isinstance(o, list) or not o:
        return "?"
    if isinstance(o[0], list):
        return "response"
    return str(o[0])


def py_check(case, o):
    """Independent statement of the checkable part of the property on the implementation's
    observable: it completes, nothing is delivered late, sizes respect max_body_size, the result is
    never an interim response, the transport was closed and the slot released exactly once."""
    if not isinstance(o, list) or len(o) != 5:
        return False
    out, st, late, early, sent = o
    if not isinstance(sent, bool) or (sent and not case.get("exp")):
        return False
    if isinstance(out, G.Tag) and str(out) in ("Hang",):
        return False
    if late != b"" or len(st) > case["mb"]:
        return False
    if isinstance(out, list):
        code, reason, hs, body = out
        if 100 <= code < 200 or len(body) > case["mb"]:
            return False
        if case["str"] and body != b"":
            return False
        if not case["str"] and st != b"":
            return False
        # a cut-off gzip stream is not a response: zlib saw data but was not at end of stream
        tbl = case.get("_tbl") or []
        flushes = [e for e in tbl if e[0] == "flush"]
        if any(e[0] == "dec" and e[1] > 0 for e in tbl) and flushes and not flushes[-1][2]:
            return False
    exp = case.get("expect")
    if exp is not None:
        # the generator built this stream as a VALID response: it must decode to exactly that
        if not isinstance(out, list) or out[0] != exp["code"]:
            return False
        got = st if case["str"] else out[3]
        if got != exp["body"].encode("latin-1"):
            return False
        # Content-Length / chunked framing must not wait for EOF
    return True


def nontrivial(case, o):
    if not case["segs"]:
        return None
    return (case["mh"], case["mb"], case["cs"], case["head"], case["dec"], case["str"], case.get("exp", False), tuple(case["segs"]))


def classify(case, o):
    yield "kind=" + case.get("kind", "").split("+")[0].split("-")[0]
    yield "seg=" + (case.get("seg") or "given")
    yield "out=" + _outkind(o)
    yield "dec=%s str=%s head=%s" % (case["dec"], case["str"], case["head"])
    yield "expect100=%s sent=%s" % (case.get("exp", False), o[4] if isinstance(o, list) and len(o) > 4 else "?")
    if case.get("_tbl"):
        yield "zlib-calls=" + ("1-3" if len(case["_tbl"]) <= 3 else "4+")


def signature(case, o):
    return _outkind(o)


def shrink(case):
    segs = case["segs"]
    base = {k: v for k, v in case.items() if k != "_tbl"}
    if len(segs) > 1:
        yield dict(base, segs=["".join(segs)])
        for i in range(len(segs) - 1):
            yield dict(base, segs=segs[:i] + [segs[i] + segs[i + 1]] + segs[i + 2:])
    if segs:
        last = segs[-1]
        if len(last) > 1:
            yield dict(base, segs=segs[:-1] + [last[:-1]])
        else:
            yield dict(base, segs=segs[:-1])
    for f in ("dec", "str", "head", "exp"):
        if case[f]:
            yield dict(base, **{f: False})


def case_from_json(c):
    c = dict(c)
    c.pop("_tbl", None)
    return c


TRUSTED_BASE = [
    "translators/c08_src.py (statement-template reader of is_transfer_encoding_chunked / _read_body / _read_body_until_close; fails closed)",
    "harness/fake_iostream.py as the transport (segments become readable one at a time, then EOF); a fake TCPClient hands it to the real _HTTPConnection",
    "zlib is an oracle: its answers (decompress/flush results in call order) are recorded on every run and replayed to the model's table-driven decompressor; the theorems quantify over an arbitrary decompressor",
    "the harness subclass sets HTTP1ConnectionParameters.chunk_size after _create_connection (simple_httpclient itself always uses 65536) and records first_line.reason in headers_received",
]
ASSUMPTIONS = [
    "one fetch (GET/HEAD, or POST with expect_100_continue and a 4-byte body), no redirects, no header_callback, request_timeout disabled; the whole response stays below max_buffer_size (1 MiB in the harness)",
    "segments are delivered one readable event at a time (the IOLoop runs to quiescence between segments); EOF follows the last segment",
]
RULE = ("response grammar (status line x headers x framing {Content-Length, chunked, close, none} x optional gzip x 0-2 interim 1xx) with one "
        "injected defect (truncation, flip, deletion, bad line/header, framing conflict, bad chunk) or none, gzip edge streams, raw junk; "
        "x {HEAD, decompress_response, streaming_callback} x limits x segmentations {whole, 1-byte, random cuts, every single cut of small "
        "streams; thorough: two cuts}; distinct by (limits, flags, segments); non-trivial = non-empty stream")
LEVEL_TEXT = ("Machine-checked (Coq) proofs about an executable model of HTTP1Connection(is_client)._read_message/_read_body, "
              "_GzipMessageDelegate and _HTTPConnection's result assembly: the segment-fed client equals the strict reader of the concatenated "
              "stream for every segmentation; rendered responses are read back exactly; malformed or truncated streams yield an error; delivered "
              "bodies respect max_body_size. The model is tied to the real client by differential runs over a FakeIOStream on every invocation.")
LEVEL_NOTE = ("Trusted: Coq kernel/vm_compute; zlib as a recorded oracle; the FakeIOStream transport and harness; the hand-written model is tied "
              "to /repo by the correspondence only. Not covered: curl_httpclient, TLS, redirects, timeouts, max_buffer_size overflow.")
TECHNIQUE = "Coq proof (simulation between stream implementations, induction over segments/chunks, fuel sufficiency) + translator of the framing rules from http1connection.py + differential correspondence via vm_compute"
