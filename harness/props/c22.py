"""C22 -- linkify output is escaped text plus safe links only."""
import html
import itertools
import re
from html.parser import HTMLParser

from harness import gallina as G

ID = "C22"
COQ_DIRS = ["C22"]
PROPERTY_FILE = "C22/Property.v"
RUN_IMPORTS = "From TV Require Import C21.Model C22.Model C22.Run."
RUN_FN = "run_case"
CHECK_FN = "check_case"
INPUT_TYPE = "c22_in"
TRUSTED_BASE = [
    "the hand-coded matcher for _URL_RE (coq/C22/Model.v: match_at, body_scan, scan) stands for CPython's `re` engine on that one pattern; "
    "it is tied to `re` only by this correspondence run (random + small-scope exhaustive texts)",
    "coq/C22/Tables.v: the \\w and \\s code-point ranges of this interpreter (Unicode 15.0), extracted once; every range boundary is re-checked against `re` in the thorough tier",
    "html.escape / UTF-8 decoding as modelled and proved in C21",
    "extra_params callables are modelled as arbitrary functions in the theorems; the correspondence exercises three families (constant, startswith-test, wrap-the-href)",
]
ASSUMPTIONS = ["string-level strip_tags/check_case statements: extra_params (str or callable result) brings no '<' or '>' (it is raw HTML supplied by the caller); the structural theorems hold for any extra_params"]
RULE = ("texts built from URL-like fragments (protocols, slashes, hosts, paths around the 8/30/45 shortening cut points, '&' and quotes near the cuts, "
        "parentheses, trailing punctuation), separators, entities-as-text, Unicode letters/spaces/astral/lone surrogates, plus random malformed strings and "
        "invalid UTF-8 bytes; each text under all (shorten, require_protocol) combinations and rotating permitted_protocols / extra_params; thorough adds "
        "all token strings of length <= 3 over a 12-token alphabet (also after 'a:/' and 'www.') and of length 4 over 11 of the tokens, systematic cut-point sweeps and the class-table boundary sweep; "
        "distinct by canonical JSON of the input; non-trivial = output contains a link, or a candidate URL was refused")

PERMS = [["http", "https"], ["http"], [], ["ftp", "mailto", "http", "https"], ["javascript"], ["HTTP"], ["www", "a"], ["a", "http", "x-y", "\u0436"]]
EXTRAS = ["", "", 'rel="nofollow"', ' class="external" ', "\u00a0id=a\t", " ",
          {"f": "const", "s": 'rel="nofollow"'}, {"f": "const", "s": ""}, {"f": "const", "s": " \u00a0x=1\n"},
          {"f": "prefix", "p": "http://www.", "a": 'class="internal"', "b": ' class="external" rel="nofollow" '},
          {"f": "prefix", "p": "https:", "a": "", "b": "data-insecure"},
          {"f": "wrap", "a": 'data-u="', "b": '" '}, {"f": "wrap", "a": "", "b": ""}]


def extra_strings(x):
    return [x] if isinstance(x, str) else [v for k, v in x.items() if k in ("s", "a", "b")]


def extra_callable(x):
    if isinstance(x, str):
        return x
    if x["f"] == "const":
        return lambda href: x["s"]
    if x["f"] == "prefix":
        return lambda href: x["a"] if href.startswith(x["p"]) else x["b"]
    if x["f"] == "wrap":
        return lambda href: x["a"] + href + x["b"]
    raise ValueError(x)


def g_extra(x):
    if isinstance(x, str):
        return "(XSStr %s)" % G.gbytes(x)
    if x["f"] == "const":
        return "(XSConst %s)" % G.gbytes(x["s"])
    if x["f"] == "prefix":
        return "(XSPrefix %s %s %s)" % (G.gbytes(x["p"]), G.gbytes(x["a"]), G.gbytes(x["b"]))
    return "(XSWrap %s %s)" % (G.gbytes(x["a"]), G.gbytes(x["b"]))


def mk(text, sh=False, extra="", req=False, perms=("http", "https"), is_bytes=False, pset=False):
    # pset: permitted_protocols is handed over as a set instead of a list (same model input)
    return {"k": "link", "text": text, "bytes": bool(is_bytes), "sh": bool(sh), "extra": extra, "req": bool(req), "perms": list(perms),
            "pset": bool(pset)}


def run_impl(case):
    if case["k"] == "class":
        ch = chr(case["c"])
        return [re.match(r"\w", ch) is not None, re.match(r"\s", ch) is not None]
    from tornado.escape import linkify
    text = case["text"].encode("latin-1") if case["bytes"] else case["text"]
    try:
        perms = set(case["perms"]) if case.get("pset") else list(case["perms"])
        out = linkify(text, shorten=case["sh"], extra_params=extra_callable(case["extra"]), require_protocol=case["req"],
                      permitted_protocols=perms)
    except UnicodeDecodeError:
        return G.Tag("UnicodeDecodeError")
    assert isinstance(out, str)
    return out


def coq_input(case):
    if case["k"] == "class":
        return "(IClass %s)" % G.gn(case["c"])
    if case["bytes"]:
        v = "(SBytes %s)" % G.gbytes(case["text"].encode("latin-1"))
    else:
        v = "(SStr %s)" % G.gbytes(case["text"])
    return "(ILink %s %s %s %s %s)" % (v, G.gbool(case["sh"]), g_extra(case["extra"]), G.gbool(case["req"]),
                                       G.glist([G.gbytes(p) for p in case["perms"]], "(list N)"))


# ---------------------------------------------------------------- independent oracle
class _P(HTMLParser):
    def __init__(self):
        super().__init__(convert_charrefs=False)
        self.items = []      # ("t", raw) | ("a", href) | ("/a",)
        self.bad = False

    def handle_starttag(self, tag, attrs):
        if tag != "a":
            self.bad = True
            return
        d = dict(attrs)
        if attrs[:1] != [("href", d.get("href"))] or d.get("href") is None:
            self.bad = True
        self.items.append(("a", d.get("href") or ""))

    def handle_startendtag(self, tag, attrs):
        # "<a ... />" (params ending in "/"): browsers ignore the slash on a non-void element
        self.handle_starttag(tag, attrs)

    def handle_endtag(self, tag):
        if tag != "a":
            self.bad = True
        self.items.append(("/a",))

    def handle_data(self, data):
        self.items.append(("t", data))

    def handle_entityref(self, name):
        self.items.append(("t", "&%s;" % name))

    def handle_charref(self, name):
        self.items.append(("t", "&#%s;" % name))

    def handle_comment(self, data):
        self.bad = True

    def handle_decl(self, decl):
        self.bad = True

    def handle_pi(self, data):
        self.bad = True

    def unknown_decl(self, data):
        self.bad = True


def analyse(case, out):
    """-> (ok, reason, n_links, n_short).  Reads the output with html.parser."""
    text = case["text"]
    if case["bytes"]:
        text = text.encode("latin-1").decode("utf-8")
    e = html.escape(text)
    p = _P()
    p.feed(out)
    p.close()
    if p.bad:
        return False, "markup", 0, 0
    # merge runs into text / link(href, label)
    pieces, cur, i = [], "", 0
    items = p.items
    while i < len(items):
        it = items[i]
        if it[0] == "t":
            cur += it[1]
            i += 1
        elif it[0] == "a":
            pieces.append(("t", cur))
            cur = ""
            j = i + 1
            lab = ""
            while j < len(items) and items[j][0] == "t":
                lab += items[j][1]
                j += 1
            if j >= len(items) or items[j][0] != "/a":
                return False, "nesting", 0, 0
            pieces.append(("a", it[1], lab))
            i = j + 1
        else:
            return False, "nesting", 0, 0
    pieces.append(("t", cur))
    for raw in re.findall(r'href="([^"]*)"', out):
        if "<" in raw or ">" in raw or "'" in raw:
            return False, "href-raw", 0, 0
    pos, nl, ns = 0, 0, 0
    for pc in pieces:
        if pc[0] == "t":
            if not e.startswith(pc[1], pos):
                return False, "text", nl, ns
            pos += len(pc[1])
            continue
        href, lab = pc[1], pc[2]
        nl += 1
        u = None
        if e.startswith(html.escape(href), pos):
            u = html.escape(href)
            if ":" not in href or href.split(":")[0] not in case["perms"]:
                return False, "protocol", nl, ns
        elif href.startswith("http://") and e.startswith(html.escape(href[7:]), pos) and href[7:].startswith("www."):
            u = html.escape(href[7:])
            if case["req"]:
                return False, "require", nl, ns
        else:
            return False, "href", nl, ns
        if lab != u:
            if not case["sh"] or not lab.endswith("...") or len(lab) >= len(u) or not u.startswith(lab[:-3]):
                return False, "label", nl, ns
            if html.escape(html.unescape(lab[:-3])) != lab[:-3]:
                return False, "label-splits-entity", nl, ns
            ns += 1
        pos += len(u)
    if pos != len(e):
        return False, "text-end", nl, ns
    return True, "", nl, ns


def py_check(case, o):
    if case["k"] == "class":
        return isinstance(o, list) and len(o) == 2
    if isinstance(o, G.Tag):
        if not case["bytes"]:
            return False
        try:
            case["text"].encode("latin-1").decode("utf-8")
        except UnicodeDecodeError:
            return o == "UnicodeDecodeError"
        return False
    if not isinstance(o, str):
        return False
    if any("<" in t or ">" in t for t in extra_strings(case["extra"])):
        return True
    return analyse(case, o)[0]


def signature(case, o):
    if case["k"] != "link" or not isinstance(o, str) or isinstance(o, G.Tag):
        return "other"
    try:
        ok, why, _, _ = analyse(case, o)
    except Exception:
        return "oracle-error"
    return "ok" if ok else why


def nontrivial(case, o):
    if case["k"] == "class":
        return ("class", case["c"])
    if isinstance(o, G.Tag):
        return ("err", case["text"])
    if isinstance(o, str) and ("<a " in o or ":/" in case["text"] or "www." in case["text"]):
        return (case["text"], case["bytes"], case["sh"], repr(case["extra"]), case["req"], tuple(case["perms"]), case.get("pset", False))
    return None


def classify(case, o):
    if case["k"] == "class":
        yield "kind=class"
        return
    yield "kind=link"
    yield "shorten=%s require=%s" % (case["sh"], case["req"])
    yield "extra=" + ("str" if isinstance(case["extra"], str) else "callable-" + case["extra"]["f"])
    if case.get("pset"):
        yield "permitted=set"
    if isinstance(o, G.Tag) or not isinstance(o, str):
        yield "result=error"
        return
    n = o.count("<a ")
    yield "links=" + ("0" if n == 0 else "1" if n == 1 else "2+")
    if ' title="' in o:
        yield "shortened"
    if "&amp;" in o or "&quot;" in o:
        yield "has-entity"
    if n and "..." in o and ("&amp;..." in o or "&quot;..." in o):
        yield "label-ends-at-entity"
    if any(ord(c) > 127 for c in case["text"]):
        yield "non-ascii"
    if n == 0 and (":/" in case["text"] or "www." in case["text"]):
        yield "candidate-refused"


def shrink(case):
    if case["k"] != "link":
        return
    t = case["text"]
    n = len(t)
    if n > 1:
        yield dict(case, text=t[: n // 2])
        yield dict(case, text=t[n // 2:])
    for i in range(min(n, 40)):
        yield dict(case, text=t[:i] + t[i + 1:])
    if case["extra"]:
        yield dict(case, extra="")
    if case["bytes"]:
        try:
            yield dict(case, bytes=False, text=t.encode("latin-1").decode("utf-8"))
        except Exception:
            pass


# ---------------------------------------------------------------- generator
PROTOS = ["http", "https", "ftp", "HTTP", "javascript", "mailto", "x-y", "a_b", "a", "\u0436", "-", "9", "www"]
SLASHES = ["/", "//", "//", "//", "///", "////", ""]
HOSTS = ["example.com", "www.example.com", "a.b", "localhost:8080", "t.co", "xn--bcher-kva.example", "b\u00fccher.de",
         "\u4f8b\u3048.jp", "user@host", "[::1]", "a", "x" * 12 + ".org", "sub." + "d" * 24 + ".example.com", "www.", "1.2.3.4"]
PATHSEG = ["", "a", "abcdefg", "abcdefgh", "abcdefghi", "abc.html", "a.b.c", "q?x=1", "q?x=1&y=2", "a&b", 'a"b', "a'b", "a<b", "a>b",
           "abcde&fg", "abcdef&g", "abcdefg&h", "abcdefgh&", 'abcd"ef', 'abcdefg"', "wiki_(topic)", "(x)", "x(y", "x)y", "~user",
           "%20", "a+b", "\u00e9t\u00e9", "a;b", "&&", "a&amp;b", "a&;b", "&#x27;", "???", "...", "x&y;z", "a=b", "a#frag"]
TRAIL = ["", "", "", ".", ",", "!", "?", ";", ":", ")", "(", ").", "\"", "'", "&", ">", "/", "...", "-", "_"]
SEPS = [" ", " ", " ", "\n", "\t", "\u00a0", "\u3000", "\u2028", " (", ") ", " <", "> ", " &", "& ", "&lt;", "&amp;", " \"", "\" ", "'",
        ", ", ". ", "\u00e9", "\u4e2d", "\U0001f600", "\ud800", "x", "_", "-", "1", ""]
WORDS = ["Hello", "see", "link:", "www", "www.", "http", "http:", "http:/", "://", "a:b", "e.g.", "mailto:x@y", "caf\u00e9", "\u4e2d\u6587",
         "&", "&amp;", "&quot;", "<b>", "</a>", "<a href=\"x\">", "'", "\"", "()", "(", ")", ";", "&#39;", "\U00010348"]
ALPHA = list("abw:/.&()\"';<>-_ ?=#!,\n\t") + ["\u00a0", "\u00e9", "\u4e2d", "\u0660", "\u00b2", "\U0001d7ce", "\ud800", "\udfff", "\u200b", "\u2028", "\x1c", "\x85"]


def gen_url(rng):
    kind = rng.random()
    if kind < 0.7:
        u = rng.choice(PROTOS) + ":" + rng.choice(SLASHES)
    elif kind < 0.95:
        u = "www."
    else:
        u = rng.choice(["WWW.", "www", "ww.", "//"])
    u += rng.choice(HOSTS)
    for _ in range(rng.choice([0, 0, 1, 1, 2, 3, 5])):
        u += "/" + rng.choice(PATHSEG)
    if rng.random() < 0.25:
        u += rng.choice(["?", "&", "#", "/"]) + rng.choice(PATHSEG)
    if rng.random() < 0.25:     # pad towards the 30 / 45 cut points
        want = rng.choice([28, 29, 30, 31, 32, 43, 44, 45, 46, 47, 60])
        esc = len(html.escape(u))
        if esc < want:
            u += rng.choice(["b", "/", "&", "."]) * 0 + "b" * (want - esc)
    return u + rng.choice(TRAIL)


def gen_text(rng):
    r = rng.random()
    if r < 0.12:
        return "".join(rng.choice(ALPHA) for _ in range(rng.randrange(0, 24)))
    parts = []
    for _ in range(rng.choice([1, 1, 2, 2, 3, 4])):
        if rng.random() < 0.35:
            parts.append(rng.choice(WORDS))
            parts.append(rng.choice(SEPS))
        parts.append(gen_url(rng))
        parts.append(rng.choice(SEPS))
    if rng.random() < 0.3:
        parts.insert(0, rng.choice(SEPS + WORDS))
    return "".join(parts)[:150]


def cut_sweep():
    """URLs whose '&', quotes, '?', '.', '/' sit around the 8-character path cut and the 30-character cut."""
    out = []
    for host in ["h" * 10, "h" * 20, "h" * 30, "h" * 40]:
        for ch in ["&", '"', "?", ".", "/", "&&"]:
            for i in range(0, 10):
                path = "b" * i + ch + "b" * (10 - i)
                out.append("http://%s.com/%s/tail" % (host, path))
    for ch in ["&", '"', "&&", "&a;"]:
        for k in range(14, 32):
            out.append("www." + "b" * k + ch + "c" * 25)
            out.append("http://" + "b" * k + ch + "c" * 25)
    for total in range(24, 36):           # around len(url) > 30 and the `...` no-gain rule
        out.append("http://" + "a" * (total - 7))
        out.append("http://" + "a" * (total - 12) + "/bcde")
        out.append("http://a/" + "b" * (total - 9))
        out.append("http://a/b&" + "b" * (total - 15))
    for total in range(43, 50):
        out.append("http://" + "a" * (total - 7))
        out.append("http://" + "a" * (total - 17) + "/bcdefghij")
    return out


def class_points():
    pts = set(range(0, 256))
    for pat in (r"\w", r"\s"):
        prev = False
        rx = re.compile(pat)
        for c in range(0x110000):
            cur = rx.match(chr(c)) is not None
            if cur != prev:
                pts.update((c - 1, c, c + 1))
            prev = cur
    pts.update((0xd7ff, 0xd800, 0xdfff, 0xe000, 0xffff, 0x10000, 0x10ffff))
    return sorted(p for p in pts if 0 <= p < 0x110000)


def corpus_cases():
    out = [
        # the witness of DESIGN.md section 8 (label cut inside &amp; before fix e28604a)
        mk("http://www.example.com/abcde&fgh/ijkl?x=1", sh=True),
        mk("http://www.example.com/abcdefg\"h/ijkl", sh=True),
        mk("www." + "b" * 24 + "&" + "c" * 30, sh=True),
        # escape_test.py table
        mk("hello http://world.com/!"),
        mk("hello http://world.com/with?param=true&stuff=yes"),
        mk("http://url.com/w(aaa)(b)"), mk("http://url.com/withmany.......................................", ),
        mk("http://url.com/withmany((((((((((((((((((((((((((((((((((a)"),
        mk("http://foo.com/blah_blah/."), mk("<http://foo.com/blah_blah>"), mk("(Something like http://foo.com/blah_blah_(wikipedia))"),
        mk("hello http://foo.com/blah_(blah)_(wikipedia)_blah."),
        mk("www.example.com", req=True), mk("www.example.com"),
        mk("hello http://www.tornadoweb.org/en/stable/guide/intro.html there", sh=True),
        mk("ftp://ftp.x.org http://y.org", perms=["ftp"]), mk("A javascript:alert(1) link", perms=["javascript"]),
        mk("www.external-link.com", extra='rel="nofollow" class="external"'),
        mk("www.external-link.com http://example.com/x", extra={"f": "prefix", "p": "http://example.com", "a": 'class="internal"', "b": 'class="external" rel="nofollow"'}),
        mk("http://www.example.com/abcde&fgh/ijkl?x=1 www.a.b", sh=True, extra={"f": "wrap", "a": 'data-u="', "b": '"'}, pset=True),
        mk("www.a.b", extra={"f": "const", "s": ""}),
        mk("http:///", ), mk("http:////x"), mk("a-b://x", perms=["a-b"]), mk("-a://x", perms=["-a"]), mk("x-a://b", perms=["a"]),
        mk(b"caf\xc3\xa9 http://x.y/\xc3\xa9".decode("latin-1"), is_bytes=True), mk("\xff http://x.y", is_bytes=True),
        mk(""), mk("www."), mk("www.&"), mk("www.a&b"), mk("www.(a)"), mk("www.(a"), mk("www.a.(b)"), mk("http://a(b)www.c"),
    ]
    return out


def gen_cases(rng, tier):
    out = []
    n_texts = 260 if tier == "quick" else 1500
    k = 0
    for _ in range(n_texts):
        t = gen_text(rng)
        for sh in (False, True):
            for req in (False, True):
                out.append(mk(t, sh, EXTRAS[k % len(EXTRAS)], req, PERMS[(k // 3) % len(PERMS)], pset=(k % 5 == 0)))
                k += 1
    sweep = cut_sweep()
    if tier == "quick":
        sweep = sweep[::3]
    for j, u in enumerate(sweep):
        out.append(mk("see " + u + " now" if j % 2 else u, True, EXTRAS[j % len(EXTRAS)], False, PERMS[0]))
        if tier != "quick":
            out.append(mk(u, False, "", False, PERMS[0]))
    for _ in range(40 if tier == "quick" else 300):      # bytes, valid and invalid UTF-8
        t = gen_text(rng)
        b = t.encode("utf-8", "surrogatepass")
        if rng.random() < 0.4 and b:
            i = rng.randrange(len(b))
            b = b[:i] + bytes([rng.choice([0x80, 0xc0, 0xff, 0xe2])]) + b[i + 1:]
        out.append(mk(b[:150].decode("latin-1"), rng.random() < 0.5, "", False, PERMS[0], is_bytes=True))
    toks = ["a", ":", "/", "&", "(", ")", ".", " ", "www.", "-", '"', "!"]
    if tier == "quick":
        for n in (1, 2):
            for seq in itertools.product(toks, repeat=n):
                out.append(mk("a:/" + "".join(seq), False, "", False, ["a"]))
        for seq in itertools.product(toks, repeat=2):
            out.append(mk("".join(seq), False, "", False, ["a"]))
        pts = class_points()
        for c in pts[::23] + list(range(0, 128, 3)):
            out.append({"k": "class", "c": c})
    else:
        for n in range(0, 5):
            for seq in itertools.product(toks if n < 4 else toks[:-1], repeat=n):
                out.append(mk("".join(seq), False, "", False, ["a", "http"]))
        for n in range(0, 4):
            for seq in itertools.product(toks, repeat=n):
                out.append(mk("a:/" + "".join(seq), False, "", False, ["a"]))
                out.append(mk("www." + "".join(seq), False, "", n % 2 == 1, ["a"]))
        for c in class_points():
            out.append({"k": "class", "c": c})
    return out


LEVEL_TEXT = ("Machine-checked (Coq) proofs about an executable model of linkify (html.escape from C21, a hand-coded matcher for _URL_RE, re.sub as a segmentation, "
              "make_link with its shortening heuristics): with the anchors removed the output is the escaped input (labels: the URL, or an entity-safe prefix of it plus '...'), "
              "hrefs are the URL or 'http://'+URL with a permitted scheme and contain no quote or angle bracket, and neither a tag nor a label cut ever falls inside a character entity. "
              "The model is compared with tornado.escape.linkify on generated texts under all option combinations; the output string is also re-read by a tokenising checker (Coq) and html.parser (Python).")
LEVEL_NOTE = ("Trusted: Coq kernel/vm_compute; the hand-coded matcher standing for CPython's re engine on _URL_RE and the \\w/\\s tables (both tied by the correspondence run only); "
              "C21's model of html.escape/UTF-8; callable extra_params not modelled.")
TECHNIQUE = "Coq proof (induction over the segmentation and over the escaped text; invariants of the one-pass matcher) + differential correspondence via vm_compute + html.parser oracle"
