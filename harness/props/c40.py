"""C40 — SelectorThread two-thread protocol: recorded real traces validated against the Coq model.

One case = one scenario script (event-loop-thread operations, callback reactions,
jitter seed).  run_impl executes the script on a REAL tornado SelectorThread
(real threads, real socketpairs, real select) whose environment is wrapped by a
recorder: the modules `select`, `socket`, `threading` as seen from
tornado.platform.asyncio are replaced by recording shims, the loop's
call_soon_threadsafe is wrapped, and a recording subclass announces method
entries.  Every record carries the thread it was made on.  The recorded trace
is stored in case["trace"]; the Coq side replays it through the model's step
relation (run_case) and runs the property monitor on it (check_case).
"""
import asyncio
import errno
import random
import select as real_select_mod
import socket as real_socket_mod
import threading as real_threading
import time

from harness import gallina as G

ID = "C40"
COQ_DIRS = ["C40"]
PROPERTY_FILE = "C40/Property.v"
RUN_IMPORTS = "From TV Require Import C40.Model C40.Run."
RUN_FN = "run_case"
CHECK_FN = "check_case"
INPUT_TYPE = "tcase"
COQCHK = True

DEADLINE = 8.0          # seconds before a blocked select/join/wait is declared a hang
_hangs = [0]            # after a few hangs in one run (a broken tree) stop paying the full deadline every time


def deadline():
    return DEADLINE if _hangs[0] < 6 else 0.4
MAX_CALLBACKS = 14      # after this many user callbacks every callback unregisters itself
NSOCK = 3


class Hang(Exception):
    pass


class Recorder:
    def __init__(self, seed):
        self.lock = real_threading.RLock()     # the trace lock: makes (effect, record) atomic
        self.events = []
        self.active = True
        self.st = None
        self.socks = {}                        # id(sock) -> small index
        self.rng = {}                          # per-thread jitter rngs
        self.seed = seed
        self.t0 = time.time()
        self.failed = None
        self.jit = True
        self.gate = False                      # hold the selector right after it took a snapshot
        self.gated = real_threading.Event()
        self.gate_release = real_threading.Event()
        self.sel_tid = None

    # ---- canonical names ----
    def fdid(self, fd):
        st = self.st
        if isinstance(fd, int):
            # the EBADF recovery path reports `[self._waker_r.fileno()]`: an int that is not a key of
            # _readers, so _handle_event ignores it (KeyError).  Rendered as absent.
            return None if fd == self.waker_fileno else -1
        if st is not None and fd is st.__dict__.get("_waker_r"):
            return 0
        return self.socks[id(fd)]

    waker_fileno = -1

    def ids(self, fds):
        return [x for x in (self.fdid(f) for f in fds) if x is not None]

    def cond_view(self):
        st = self.st
        a = st._select_args
        return [None if a is None else [self.ids(a[0]), self.ids(a[1])], bool(st._closing_selector)]

    def regs_view(self):
        st = self.st
        return [self.ids(list(st._readers.keys())), self.ids(list(st._writers.keys()))]

    def rec(self, label, cond=False, regs=False):
        with self.lock:
            if not self.active:
                return
            tid = real_threading.get_ident()
            self.events.append([tid, list(label), self.cond_view() if cond else None,
                                self.regs_view() if (regs and tid == self.loop_tid) else None])

    def jitter(self):
        if not self.jit:
            return
        tid = real_threading.get_ident()
        r = self.rng.get(tid)
        if r is None:
            r = self.rng[tid] = random.Random("%s-%d" % (self.seed, len(self.rng)))
        x = r.random()
        if x < 0.55:
            return
        if x < 0.8:
            time.sleep(0)
        elif x < 0.95:
            time.sleep(r.uniform(0.0001, 0.0008))
        else:
            time.sleep(r.uniform(0.001, 0.003))


def make_shims(R):
    """the environment of tornado.platform.asyncio, recording"""

    class CondProxy:
        def __init__(self):
            self.c = real_threading.Condition()

        def __enter__(self):
            R.jitter()
            self.c.__enter__()
            R.rec(("Acquire",), cond=True)
            R.jitter()
            return self

        def __exit__(self, *a):
            R.rec(("Release",), cond=True)
            r = self.c.__exit__(*a)
            if R.gate and real_threading.get_ident() == R.sel_tid:
                # scenario control only: keep the selector between `with` and select() for a while
                R.gate = False
                R.gated.set()
                end = time.time() + deadline()
                while not (R.gate_release.is_set() or R.st._closing_selector) and time.time() < end:
                    time.sleep(0.0003)
            R.jitter()
            return r

        def wait(self, timeout=None):
            R.rec(("Wait",), cond=True)
            ok = self.c.wait(deadline() if timeout is None else timeout)
            if not ok and timeout is None:
                R.failed = "cond-wait-hang"
                raise Hang("wait")
            R.rec(("Woke",), cond=True)
            return ok

        def notify(self, n=1):
            R.rec(("Notify",), cond=True)
            self.c.notify(n)
            R.jitter()

        def notify_all(self):
            R.rec(("NotifyAll",), cond=True)
            self.c.notify_all()

    class RecThread(real_threading.Thread):
        def start(self):
            R.rec(("ThreadStart",), regs=True)
            super().start()
            R.jitter()

        def join(self, timeout=None):
            super().join(2 * deadline() if timeout is None else timeout)
            if self.is_alive():
                R.failed = "join-hang"
                raise Hang("join")
            R.rec(("Joined",), regs=True)

    class ThreadingShim:
        Condition = CondProxy
        Thread = RecThread

        def __getattr__(self, n):
            return getattr(real_threading, n)

    class RecSock(real_socket_mod.socket):
        def send(self, data, *a):
            R.jitter()
            with R.lock:
                try:
                    n = super().send(data, *a)
                except BlockingIOError:
                    R.rec(("WakerSendFull",))
                    raise
                R.rec(("WakerSend",) if n == 1 else ("WakerSendN", n), regs=True)
            return n

        def recv(self, n, *a):
            with R.lock:
                try:
                    d = super().recv(n, *a)
                except BlockingIOError:
                    R.rec(("WakerRecv", 0), regs=True)
                    raise
                R.rec(("WakerRecv", len(d)) if n == 1024 else ("WakerRecvOdd", n), regs=True)
            return d

    class SocketShim:
        def socketpair(self, *a, **k):
            a0, b0 = real_socket_mod.socketpair(*a, **k)
            a1 = RecSock(a0.family, a0.type, a0.proto, a0.detach())
            b1 = RecSock(b0.family, b0.type, b0.proto, b0.detach())
            R.waker_fileno = a1.fileno()
            return a1, b1

        def __getattr__(self, n):
            return getattr(real_socket_mod, n)

    class SelectShim:
        def select(self, r, w, x, timeout=None):
            if timeout is not None:
                with R.lock:
                    res = real_select_mod.select(r, w, x, timeout)
                    if list(r) == [R.waker_fileno] and not w and not x and timeout == 0:
                        R.rec(("WakerPoll", bool(res[0])))
                return res
            R.rec(("SelectCall", R.ids(r), R.ids(w)) if list(w) == list(x) else ("SelectCallOdd",))
            R.jitter()
            end = time.time() + deadline()
            while True:
                # a zero-timeout poll under the trace lock: the readiness seen and the
                # record of it are atomic w.r.t. every recorded readiness change
                with R.lock:
                    try:
                        rs, ws, xs = real_select_mod.select(r, w, x, 0)
                    except OSError as e:
                        if e.errno == errno.EBADF:
                            R.rec(("SelectErr",))
                        raise
                    if rs or ws or xs:
                        R.rec(("SelectRet", R.ids(rs), R.ids(ws), R.ids(xs)))
                        break
                if time.time() > end or not R.active:
                    R.failed = R.failed or ("select-hang" if R.active else None)
                    raise Hang("select")
                time.sleep(0.0002)
            R.jitter()
            return rs, ws, xs

        def __getattr__(self, n):
            return getattr(real_select_mod, n)

    return ThreadingShim(), SocketShim(), SelectShim()


def make_class(ST, R):
    class RecST(ST):
        def add_reader(self, fd, cb, *a):
            R.st = self
            R.rec(("Add", "r", R.fdid(fd)), regs=True)
            return super().add_reader(fd, cb, *a)

        def add_writer(self, fd, cb, *a):
            R.rec(("Add", "w", R.fdid(fd)), regs=True)
            return super().add_writer(fd, cb, *a)

        def remove_reader(self, fd):
            R.rec(("Remove", "r", R.fdid(fd)), regs=True)
            return super().remove_reader(fd)

        def remove_writer(self, fd):
            R.rec(("Remove", "w", R.fdid(fd)), regs=True)
            return super().remove_writer(fd)

        def _start_select(self):
            R.rec(("StartSelect",), regs=True)
            return super()._start_select()

        def _handle_select(self, rs, ws):
            R.rec(("HandleEnter", R.ids(rs), R.ids(ws)), regs=True)
            return super()._handle_select(rs, ws)

        def _run_select(self):
            R.sel_tid = real_threading.get_ident()
            try:
                super()._run_select()
            except Hang:
                return
            except BaseException as e:     # the selector thread died: that is a finding, not a crash of the harness
                R.failed = R.failed or ("selector-thread-raised-" + type(e).__name__)
                return
            R.rec(("Exit",))

        def close(self):
            R.rec(("CloseEnter",), regs=True)
            super().close()
            R.rec(("CloseReturn",), regs=True)
            if R.active:
                R.final = {"stopped": self._thread is not None and not self._thread.is_alive(),
                           "closed": bool(self._closed), "regs": R.regs_view()}
            R.active = False

    return RecST


# --------------------------------------------------------------------------
# scenario execution
# --------------------------------------------------------------------------
class FdKey:
    """what user code registers: an object with fileno() (like the seed's demo) whose descriptor can be
    closed after it was unregistered; a stale snapshot then makes select() fail with EBADF"""

    def __init__(self, sock):
        self.sock = sock
        self.fd = sock.fileno()

    def fileno(self):
        return self.fd


class World:
    def __init__(self, R, case):
        self.R = R
        self.case = case
        self.socks = []
        self.peers = []
        self.keys = []
        self.ncb = 0
        self.cblog = []
        self.fired = {}
        for i in range(NSOCK):
            a, b = real_socket_mod.socketpair()
            a.setblocking(False)
            b.setblocking(False)
            a.setsockopt(real_socket_mod.SOL_SOCKET, real_socket_mod.SO_SNDBUF, 4096)
            self.socks.append(a)
            self.peers.append(b)
            self.keys.append(FdKey(a))
            R.socks[id(self.keys[-1])] = i + 1

    def close(self):
        for s in self.socks + self.peers:
            try:
                s.close()
            except OSError:
                pass

    def env(self, k, i, b):
        R = self.R
        s, p = self.socks[i - 1], self.peers[i - 1]
        with R.lock:
            if k == "r":
                if b:
                    try:
                        p.send(b"x")
                    except BlockingIOError:
                        pass
                else:
                    self._drain(s)
                chk = bool(real_select_mod.select([s], [], [], 0)[0])
            else:
                if b:
                    self._drain(p)
                else:
                    try:
                        while True:
                            s.send(b"y" * 1024)
                    except BlockingIOError:
                        pass
                chk = bool(real_select_mod.select([], [s], [], 0)[1])
            if chk != b:
                raise RuntimeError("harness: could not set readiness")
            R.rec(("EnvR" if k == "r" else "EnvW", i, b))

    @staticmethod
    def _drain(s):
        try:
            while s.recv(65536):
                pass
        except BlockingIOError:
            pass

    def callback(self, k, i):
        R = self.R
        if not R.active:
            # a _handle_select that was already queued when close() returned still runs (and still
            # dispatches user fds); that is outside the recorded window and outside the model
            (self.st.remove_reader if k == "r" else self.st.remove_writer)(self.keys[i - 1])
            return
        R.rec(("Callback", k, i), regs=True)
        self.cblog.append([G.Tag(k), i])
        self.fired[(k, i)] = self.fired.get((k, i), 0) + 1
        self.ncb += 1
        st = self.st
        if self.ncb > MAX_CALLBACKS:
            (st.remove_reader if k == "r" else st.remove_writer)(self.keys[i - 1])
            return
        for op in self.case["react"].get("%s%d" % (k, i), [["rm", k, i]]):
            self.do(op)

    def do(self, op):
        st = self.st
        kind = op[0]
        if kind == "add":
            k, i = op[1], op[2]
            import functools
            (st.add_reader if k == "r" else st.add_writer)(self.keys[i - 1], functools.partial(self.callback, k, i))
        elif kind == "rm":
            k, i = op[1], op[2]
            (st.remove_reader if k == "r" else st.remove_writer)(self.keys[i - 1])
        elif kind == "env":
            self.env(op[1], op[2], op[3])
        elif kind == "close":
            if self.R.active:
                st.close()
        elif kind == "closefd":
            with self.R.lock:
                self.socks[op[1] - 1].close()
                self.R.rec(("CloseFd", op[1]))
        elif kind == "sync":
            for sub in op[1]:
                self.do(sub)
        elif kind == "park":
            # busy event loop: do not return to the loop until the selector thread has reported and
            # parked itself on the condition variable (or a generous time has passed)
            R = self.R
            end = time.time() + min(3.0, deadline())
            while time.time() < end:
                with R.lock:
                    last = None
                    for tid, lab, _, _ in reversed(R.events):
                        if tid == R.sel_tid:
                            last = lab[0]
                            break
                if last == "Wait":
                    break
                time.sleep(0.0005)
        elif kind == "gate_on":
            self.R.gate = True
        elif kind == "gate_off":
            self.R.gate_release.set()
        else:
            raise ValueError(op)

    async def ado(self, op):
        """operations that need the event loop to keep running while they wait"""
        R = self.R
        if op[0] == "wait_selecting":
            # let the loop run until the selector thread sits inside select()
            end = time.time() + min(3.0, deadline())
            while time.time() < end:
                with R.lock:
                    last = None
                    for tid, lab, _, _ in reversed(R.events):
                        if tid == R.sel_tid:
                            last = lab[0]
                            break
                if last == "SelectCall":
                    break
                await asyncio.sleep(0.0005)
        elif op[0] == "wait_gated":
            end = time.time() + min(3.0, deadline())
            while not R.gated.is_set() and time.time() < end:
                await asyncio.sleep(0.0005)
        elif op[0] == "expect":
            key = (op[1], op[2])
            want = op[3] if len(op) > 3 else 1
            end = time.time() + deadline()
            while self.fired.get(key, 0) < want and R.active and not R.failed:
                if time.time() > end:
                    R.failed = "readiness-not-dispatched"
                    break
                await asyncio.sleep(0.0005)
        else:
            raise ValueError(op)


def execute(case):
    import tornado.platform.asyncio as tpa
    R = Recorder(case["seed"])
    R.jit = case.get("jitter", True)
    R.loop_tid = real_threading.get_ident()
    W = World(R, case)
    th, so, se = make_shims(R)
    saved = (tpa.threading, tpa.socket, tpa.select)
    RecST = make_class(tpa.SelectorThread, R)
    loop = asyncio.new_event_loop()
    orig_cst = loop.call_soon_threadsafe

    def cst(cb, *args, context=None):
        if getattr(cb, "__self__", None) is R.st and getattr(cb, "__name__", "") == "_handle_select":
            R.rec(("Post", R.ids(args[0]), R.ids(args[1])))
            R.jitter()
        return orig_cst(cb, *args, context=context)

    loop.call_soon_threadsafe = cst
    rr = random.Random("loop-%s" % case["seed"])
    out = {}

    async def main():
        for i in range(1, NSOCK + 1):
            R.rec(("EnvW", i, True))
        st = RecST(loop)
        W.st = st
        for op in case["pre"]:
            W.do(op)
        for op in case["ops"]:
            if not R.active:
                break
            if op[0] == "sleep":
                await asyncio.sleep(op[1] / 1000.0)
                continue
            if op[0] in ("wait_gated", "wait_selecting", "expect"):
                await W.ado(op)
                if R.failed:
                    break
                continue
            W.do(op)
            x = rr.random() if R.jit else 0.0
            await asyncio.sleep(0 if x < 0.5 else rr.uniform(0.0002, 0.002))
        if R.active and not case.get("noclose"):
            # let outstanding work settle a little, then close
            await asyncio.sleep(case.get("settle", 2) / 1000.0)
            st.close()
        if getattr(R, "final", None):
            out.update(R.final)
        else:
            out["stopped"] = st._thread is not None and not st._thread.is_alive()
            out["closed"] = bool(st._closed)
            out["regs"] = R.regs_view()
        R.active = False
        if not st._closed:
            st.close()

    tpa.threading, tpa.socket, tpa.select = th, so, se
    try:
        try:
            loop.run_until_complete(asyncio.wait_for(main(), 8 * DEADLINE))
        except Hang as e:
            R.failed = R.failed or ("hang-" + str(e))
        except asyncio.TimeoutError:
            R.failed = R.failed or "scenario-timeout"
        finally:
            R.active = False
            try:
                loop.run_until_complete(loop.shutdown_asyncgens())
            except BaseException:
                pass
            loop.close()
    finally:
        tpa.threading, tpa.socket, tpa.select = saved
        tpa._selector_loops.clear()
        W.close()
    if R.failed:
        _hangs[0] += 1
        return R, W, [G.Tag("failed"), G.Tag(R.failed)]
    return R, W, [G.Tag("accepted"), out["stopped"], out["closed"], out["regs"][0], out["regs"][1], W.cblog]


def canon_trace(R):
    tr = []
    for tid, lab, cond, regs in R.events:
        t = "L" if tid == R.loop_tid else ("S" if tid == R.sel_tid else "X")
        tr.append([t, lab, cond, regs])
    return tr


def run_impl(case):
    if case.get("frozen") and "trace" in case:
        return obs_from_json(case["final"])
    R, W, obs = execute(case)
    case["trace"] = canon_trace(R)
    # the waker's own callback is part of the callback log the model keeps
    cbl = []
    for t, lab, _, _ in case["trace"]:
        if lab[0] == "Callback":
            cbl.append([G.Tag(lab[1]), lab[2]])
        elif lab[0] == "WakerRecv":
            cbl.append([G.Tag("r"), 0])
    if obs[0] == "accepted":
        assert [c for c in cbl if c[1] != 0] == obs[5], "callback log differs from trace"
        obs[5] = cbl
    case["final"] = G.jsonable(obs)
    return obs


def obs_from_json(v):
    if isinstance(v, dict) and "tag" in v:
        return G.Tag(v["tag"])
    if isinstance(v, list):
        return [obs_from_json(x) for x in v]
    return v


def case_from_json(c):
    return dict(c, frozen=True)


# --------------------------------------------------------------------------
# Gallina rendering
# --------------------------------------------------------------------------
def gfds(l):
    return G.glist([str(int(x)) for x in l], "nat")


def gkind(k):
    return "KR" if k == "r" else "KW"


def glabel(lab):
    n = lab[0]
    if n in ("Add", "Remove", "Callback"):
        return "(%s %s %d)" % (n, gkind(lab[1]), lab[2])
    if n in ("WakerSend", "ThreadStart", "StartSelect", "CloseEnter", "Joined", "CloseReturn",
             "Acquire", "Release", "Notify", "Wait", "Woke", "Exit"):
        return n
    if n == "SelectErr":
        return "SelectErr"
    if n == "WakerPoll":
        return "(WakerPoll %s)" % G.gbool(lab[1])
    if n == "CloseFd":
        return "(CloseFd %d)" % lab[1]
    if n == "WakerRecv":
        return "(WakerRecv %d)" % lab[1]
    if n in ("HandleEnter", "SelectCall", "Post"):
        return "(%s %s %s)" % (n, gfds(lab[1]), gfds(lab[2]))
    if n == "SelectRet":
        return "(SelectRet %s %s %s)" % (gfds(lab[1]), gfds(lab[2]), gfds(lab[3]))
    if n in ("EnvR", "EnvW"):
        return "(%s %d %s)" % (n, lab[1], G.gbool(lab[2]))
    # something the model has no step for at all (NotifyAll, odd recv size, ...): render as an
    # event no thread can take, so that the replay rejects exactly there
    return "(EnvR 0 true)"


def gsnap(s):
    return "(%s, %s)" % (gfds(s[0]), gfds(s[1]))


def gview(cond, regs):
    if cond is None:
        c = "None"
    else:
        a = "None" if cond[0] is None else "(Some %s)" % gsnap(cond[0])
        c = "(Some (%s, %s))" % (a, G.gbool(cond[1]))
    r = "None" if regs is None else "(Some %s)" % gsnap(regs)
    return "(%s, %s)" % (c, r)


THREADS = {"L": "TLoop", "S": "TSel", "X": "TEnv"}


def gthread(t, lab):
    if lab[0] in ("EnvR", "EnvW"):
        return "TEnv"           # readiness changes are the environment's, whoever's hands the harness used
    return THREADS[t]


def coq_input(case):
    evs = ["(%s, %s, %s)" % (gthread(t, lab), glabel(lab), gview(cond, regs)) for t, lab, cond, regs in case.get("trace", [])]
    return "(" + G.glist(evs, "(thread * label * oview)") + " : tcase)"


# --------------------------------------------------------------------------
# independent Python oracle on the recorded trace
# --------------------------------------------------------------------------
def py_check(case, obs):
    if not (isinstance(obs, list) and obs and obs[0] == "accepted"):
        return False
    tr = case.get("trace", [])
    phase = "none"        # none -> handed -> selecting -> got -> posted -> handling -> handed ...
    handed = None
    started = exited = False
    for t, lab, cond, regs in tr:
        n = lab[0]
        if n in ("Callback", "WakerRecv", "HandleEnter", "StartSelect") and t != "L":
            return False
        if n in ("SelectCall", "SelectRet", "Post") and t != "S":
            return False
        if n == "ThreadStart":
            started = True
        elif n == "Notify" and t == "L" and cond and cond[0] is not None and phase in ("none", "handling"):
            phase, handed = "handed", cond[0]
        elif n == "SelectCall":
            if phase != "handed" or [lab[1], lab[2]] != handed:
                return False
            phase = "selecting"
        elif n == "SelectRet":
            if phase != "selecting" or not (lab[1] or lab[2] or lab[3]):
                return False
            if not (set(lab[1]) <= set(handed[0]) and set(lab[2]) | set(lab[3]) <= set(handed[1])):
                return False
            phase, got = "got", [lab[1], lab[2] + lab[3]]
        elif n == "SelectErr":
            if phase != "selecting" or t != "S":
                return False
            phase = "err"
        elif n == "WakerPoll":
            if phase != "err" or t != "S" or not lab[1]:
                return False
            phase, got = "got", [[], []]
        elif n == "Post":
            if phase != "got" or [lab[1], lab[2]] != got:
                return False
            phase = "posted"
        elif n == "HandleEnter":
            if phase != "posted" or [lab[1], lab[2]] != got:
                return False
            phase, cur = "handling", got
        elif n == "Callback":
            if phase != "handling" or lab[2] not in (cur[0] if lab[1] == "r" else cur[1]):
                return False
            if regs is not None and lab[2] not in (regs[0] if lab[1] == "r" else regs[1]):
                return False     # dispatched although no longer registered
        elif n == "Exit":
            exited = True
        elif n == "CloseReturn":
            if started and not exited:
                return False
    if obs[2] and started and not obs[1]:
        return False
    return True


# --------------------------------------------------------------------------
# generator
# --------------------------------------------------------------------------
def mk(pre, ops, react=None, seed=0, **kw):
    c = {"pre": pre, "ops": ops, "react": react or {}, "seed": seed}
    c.update(kw)
    return c


def corpus_cases():
    return [
        # close before the loop ever ran the thread manager: nothing to join
        mk([["close"]], [], seed=1),
        mk([["add", "r", 1]], [["close"]], seed=2),
        # plain dispatch of a readable fd, callback drains it
        mk([], [["add", "r", 1], ["env", "r", 1, True], ["sleep", 3]], {"r1": [["env", "r", 1, False]]}, seed=3),
        # a writable fd registered for writing fires at once and unregisters itself
        mk([], [["add", "w", 2], ["sleep", 2]], seed=4),
        # callback removes ANOTHER fd that was reported ready in the same batch: it must be skipped
        mk([], [["env", "r", 1, True], ["env", "r", 2, True], ["add", "r", 1], ["add", "r", 2], ["sleep", 3]],
           {"r1": [["rm", "r", 2], ["env", "r", 1, False]], "r2": [["rm", "r", 1], ["env", "r", 2, False]]}, seed=5),
        # close immediately after registration changes (selector may be anywhere)
        mk([], [["add", "r", 1], ["add", "w", 1], ["rm", "r", 1], ["close"]], seed=6, settle=0),
        # close() while the selector is parked on the condition variable with its report still queued
        mk([["add", "r", 1]], [["sleep", 3], ["sync", [["env", "r", 1, True], ["park"], ["close"]]]],
           {"r1": [["env", "r", 1, False]]}, seed=8),
        # registration change in the window between handing over the snapshot and select(): must be woken
        mk([["add", "r", 1]], [["wait_selecting"], ["gate_on"], ["env", "r", 1, True], ["wait_gated"],
                               ["sync", [["env", "r", 2, True], ["add", "r", 2]]], ["gate_off"], ["expect", "r", 2]],
           {"r1": [["env", "r", 1, False]], "r2": [["env", "r", 2, False]]}, seed=9),
        # EBADF recovery (seeded change C40_3): fd 2 is in the snapshot, then removed and closed before select()
        mk([["add", "r", 1], ["add", "r", 2]],
           [["wait_selecting"], ["gate_on"], ["env", "r", 1, True], ["wait_gated"], ["sync", [["rm", "r", 2], ["closefd", 2]]], ["gate_off"],
            ["expect", "r", 1, 1], ["sleep", 2], ["env", "r", 1, True], ["expect", "r", 1, 2],
            ["sync", [["env", "r", 3, True], ["add", "r", 3]]], ["expect", "r", 3]],
           {"r1": [["env", "r", 1, False]], "r3": [["env", "r", 3, False]]}, seed=10),
        # level-triggered: callback does nothing, fd stays ready; bounded by MAX_CALLBACKS
        mk([], [["env", "r", 3, True], ["add", "r", 3], ["sleep", 4]], {"r3": []}, seed=7),
    ]


def rand_op(rng, n):
    x = rng.random()
    i = rng.randrange(1, n + 1)
    k = rng.choice("rw")
    if x < 0.30:
        return ["add", k, i]
    if x < 0.45:
        return ["rm", k, i]
    if x < 0.70:
        return ["env", "r", i, rng.random() < 0.75]
    if x < 0.80:
        return ["env", "w", i, rng.random() < 0.5]
    if x < 0.95:
        return ["sleep", rng.choice([0, 1, 2, 4])]
    return ["close"]


def rand_react(rng, n):
    react = {}
    for i in range(1, n + 1):
        for k in "rw":
            x = rng.random()
            if x < 0.35:
                r = [["env", "r", i, False]] if k == "r" else [["rm", "w", i]]
            elif x < 0.55:
                r = [["rm", k, i]]
            elif x < 0.7:
                j = rng.randrange(1, n + 1)
                r = [["rm", rng.choice("rw"), j], ["rm", k, i]]
            elif x < 0.85:
                j = rng.randrange(1, n + 1)
                r = [["add", rng.choice("rw"), j]] + ([["env", "r", i, False]] if k == "r" else [["rm", "w", i]])
            elif x < 0.93:
                r = []
            else:
                r = [["rm", k, i], ["close"]] if False else [["rm", k, i], ["add", k, i]]
            react["%s%d" % (k, i)] = r
    return react


def gen_cases(rng, tier):
    out = []
    n_rand = 110 if tier == "quick" else 900
    for j in range(n_rand):
        n = rng.choice([1, 2, 2, 3])
        pre = [rand_op(rng, n) for _ in range(rng.choice([0, 0, 1, 2]))]
        pre = [o for o in pre if o[0] not in ("sleep",)]
        ops = [rand_op(rng, n) for _ in range(rng.randrange(1, 7))]
        out.append(mk(pre, ops, rand_react(rng, n), seed=rng.randrange(10 ** 6), settle=rng.choice([0, 0, 1, 3])))
    # several fds ready in ONE batch whose callbacks unregister / re-register each other
    for j in range(24 if tier == "quick" else 150):
        n = rng.choice([2, 3, 3])
        ks = [rng.choice("rrw") for _ in range(n)]
        pre = []
        for i in range(1, n + 1):
            if ks[i - 1] == "r":
                pre.append(["env", "r", i, True])
        order = list(range(1, n + 1))
        rng.shuffle(order)
        pre += [["add", ks[i - 1], i] for i in order]
        react = {}
        for i in range(1, n + 1):
            k = ks[i - 1]
            o = rng.choice([x for x in range(1, n + 1) if x != i])
            r = [["rm", ks[o - 1], o]]
            if rng.random() < 0.3:
                r.append(["add", ks[o - 1], o])
            r.append(["env", "r", i, False] if k == "r" and rng.random() < 0.7 else ["rm", k, i])
            react["%s%d" % (k, i)] = r
        if rng.random() < 0.5:
            pre, ops = [], pre + [["sleep", 3]]
        else:
            ops = [["sleep", 3]]
        out.append(mk(pre, ops, react, seed=rng.randrange(10 ** 6), settle=rng.choice([1, 3])))
    out += handshake_cases(rng, 4 if tier == "quick" else 20)
    out += ebadf_cases(rng, 4 if tier == "quick" else 20)
    # small-scope enumeration: every sequence of <= L basic operations on one fd, default reactions,
    # each under several jitter seeds
    basic = [["add", "r", 1], ["rm", "r", 1], ["add", "w", 1], ["rm", "w", 1], ["env", "r", 1, True], ["close"]]
    L = 2 if tier == "quick" else 3
    seqs = [[]]
    frontier = [[]]
    for _ in range(L):
        frontier = [s + [o] for s in frontier for o in basic if not (s and s[-1] == ["close"])]
        seqs += frontier
    reps = 1 if tier == "quick" else 3
    for s in seqs:
        for r in range(reps):
            out.append(mk([], [list(o) for o in s], {"r1": [["env", "r", 1, False]]}, seed=rng.randrange(10 ** 6), settle=r))
    return out


def handshake_cases(rng, reps):
    """structured scenarios for the two handshakes: close() against a selector that is parked on the
    condition / inside select / just woken, and registration changes against an in-flight report"""
    out = []
    drain = {"r1": [["env", "r", 1, False]], "r2": [["env", "r", 2, False]], "w2": [["rm", "w", 2]], "w3": [["rm", "w", 3]]}
    for _ in range(reps):
        sd = lambda: rng.randrange(10 ** 6)
        # --- close() while parked (report caused by an fd / by the waker / plus late changes)
        out.append(mk([["add", "r", 1]], [["sleep", 3], ["sync", [["env", "r", 1, True], ["park"], ["close"]]]], drain, seed=sd()))
        out.append(mk([["add", "r", 1]], [["sleep", 3], ["sync", [["add", "r", 2], ["park"], ["close"]]]], drain, seed=sd()))
        out.append(mk([["add", "r", 1]], [["sleep", 3], ["sync", [["env", "r", 1, True], ["park"], ["add", "w", 2], ["rm", "r", 1], ["close"]]]],
                      drain, seed=sd()))
        # --- close() right after the selector was re-armed (it may be anywhere between wait() and select())
        out.append(mk([["add", "r", 1]], [["sleep", 2], ["env", "r", 1, True], ["sleep", rng.choice([0, 0, 1])], ["close"]], drain, seed=sd(), settle=0))
        # --- close() while the selector is held between the with-block and select()
        out.append(mk([["add", "r", 1]], [["wait_selecting"], ["gate_on"], ["env", "r", 1, True], ["wait_gated"],
                                          ["sync", [["close"]]]], drain, seed=sd()))
        # --- registration changes in the window between handing over the snapshot and select()
        out.append(mk([["add", "r", 1]], [["wait_selecting"], ["gate_on"], ["env", "r", 1, True], ["wait_gated"],
                                          ["sync", [["env", "r", 2, True], ["add", "r", 2]]], ["gate_off"], ["expect", "r", 2]], drain, seed=sd()))
        out.append(mk([["add", "r", 1]], [["wait_selecting"], ["gate_on"], ["env", "r", 1, True], ["wait_gated"],
                                          ["add", "w", 3], ["gate_off"], ["expect", "w", 3]], drain, seed=sd()))
        # --- registration change while the report is in flight (selector parked, report queued)
        out.append(mk([["add", "r", 1]], [["sleep", 3], ["sync", [["env", "r", 1, True], ["park"], ["env", "r", 2, True], ["add", "r", 2]]],
                                          ["expect", "r", 2], ["expect", "r", 1]], drain, seed=sd()))
        # --- plain eventual dispatch
        out.append(mk([], [["add", "r", 1], ["sleep", rng.choice([0, 2])], ["env", "r", 1, True], ["expect", "r", 1]], drain, seed=sd()))
        out.append(mk([], [["sleep", 2], ["add", "w", 2], ["expect", "w", 2]], drain, seed=sd()))
    return out


def ebadf_cases(rng, reps):
    """the EBADF recovery path of _run_select: an fd of the snapshot is unregistered AND closed before the
    selector reaches select(); afterwards readiness of a still-registered fd and of a newly added fd must
    still be dispatched, and close() must still return"""
    out = []
    drain = {"r1": [["env", "r", 1, False]], "r2": [["env", "r", 2, False]], "r3": [["env", "r", 3, False]],
             "w2": [["rm", "w", 2]], "w3": [["rm", "w", 3]]}
    for _ in range(reps):
        sd = lambda: rng.randrange(10 ** 6)
        tail = [["expect", "r", 1, 1], ["sleep", rng.choice([1, 2, 4])], ["env", "r", 1, True], ["expect", "r", 1, 2],
                ["sync", [["env", "r", 3, True], ["add", "r", 3]]], ["expect", "r", 3]]
        # victim registered for reading
        out.append(mk([["add", "r", 1], ["add", "r", 2]],
                      [["wait_selecting"], ["gate_on"], ["env", "r", 1, True], ["wait_gated"],
                       ["sync", [["rm", "r", 2], ["closefd", 2]]], ["gate_off"]] + tail, drain, seed=sd()))
        # victim registered for writing (made unwritable first so that it does not fire)
        out.append(mk([["add", "r", 1]],
                      [["env", "w", 2, False], ["add", "w", 2], ["wait_selecting"], ["gate_on"], ["env", "r", 1, True], ["wait_gated"],
                       ["sync", [["rm", "w", 2], ["closefd", 2]]], ["gate_off"]] + tail, drain, seed=sd()))
        # close() while the failed select is being recovered
        out.append(mk([["add", "r", 1], ["add", "r", 2]],
                      [["wait_selecting"], ["gate_on"], ["env", "r", 1, True], ["wait_gated"],
                       ["sync", [["rm", "r", 2], ["closefd", 2], ["close"]]]], drain, seed=sd()))
        # no gate: remove+close at an arbitrary moment (the selector is usually inside select already)
        out.append(mk([["add", "r", 1], ["add", "r", 2]],
                      [["sleep", rng.choice([0, 1, 3])], ["env", "r", 1, True], ["sync", [["rm", "r", 2], ["closefd", 2]]],
                       ["expect", "r", 1, 1]] + tail,
                      drain, seed=sd()))
    return out


def nontrivial(case, obs):
    tr = case.get("trace", [])
    if len(tr) < 12:
        return None
    return G.jsonable([[t, lab] for t, lab, _, _ in tr])


def classify(case, obs):
    tr = case.get("trace", [])
    n = len(tr)
    yield "len=" + ("<20" if n < 20 else "20-49" if n < 50 else "50-99" if n < 100 else "100+")
    labs = [lab[0] for _, lab, _, _ in tr]
    yield "selects=%s" % min(labs.count("SelectCall"), 6)
    yield "callbacks=%s" % min(labs.count("Callback"), 6)
    if "Wait" in labs:
        yield "selector-waited-on-cond"
    if "Woke" in labs:
        yield "selector-woken-by-notify"
    if "SelectErr" in labs:
        yield "select-failed-EBADF-and-recovered"
    if "CloseFd" in labs:
        yield "fd-closed-after-unregistering"
    if "ThreadStart" not in labs:
        yield "closed-before-start"
    # where was the selector thread when close() was entered / when a registration changed?
    last = None
    seen = set()
    for t, lab, _, _ in tr:
        if t == "S":
            last = lab[0]
        elif lab[0] == "CloseEnter":
            yield "close-while-" + {"SelectCall": "selecting", "Wait": "parked-on-condition", "Release": "in-handover-window",
                                    None: "not-started"}.get(last, "elsewhere")
        elif lab[0] in ("Add", "Remove") and lab[2] != 0:
            w = {"SelectCall": "while-selecting", "Wait": "while-parked-or-report-in-flight",
                 "Release": "in-handover-window"}.get(last)
            if w and w not in seen:
                seen.add(w)
                yield "change-" + w
    if isinstance(obs, list) and obs and obs[0] != "accepted":
        yield "impl-failed"


def signature(case, obs):
    if isinstance(obs, list) and len(obs) > 1 and obs[0] == "failed":
        return str(obs[1])
    return "trace-rejected"


LEVEL_TEXT = ("Machine-checked (Coq) invariants of a two-thread transition system of SelectorThread (event-loop thread, selector thread, "
              "condition variable with its lock, _select_args, _closing_selector, waker socketpair, queued _handle_select calls, fd readiness as "
              "environment steps), proved for ALL interleavings and unbounded fds/registration changes by induction over step lists; tied to "
              "the code by recording real two-thread executions under randomised delays and replaying every recorded event through the model's "
              "step relation (trace inclusion) inside coqc. Bounded-response theorems: close() returns within 38 internal steps from any state "
              "inside close(); a ready registered fd is dispatched within dist(s) internal steps when user code and environment are quiet.")
LEVEL_NOTE = ("Trusted: the recorder (shims for select/socket/threading as seen by tornado.platform.asyncio, recording subclass) and that "
              "its record order is a linearisation of the real order (records are made under the condition's lock, or under a trace lock "
              "atomically with the socket/select effect). Preemption inside a single CPython statement (between the modelled atomic actions) "
              "is not exhibited by the model; attribute reads/writes of _select_args/_closing_selector happen under the lock so merging them "
              "with the neighbouring lock event is sound. Eventual dispatch is a bounded-response theorem for quiet user code/environment; "
              "with unboundedly many concurrent registrations only invariant + progress is proved.")
TECHNIQUE = "Coq proof (inductive invariants over all interleavings, progress and ranking arguments) + recorded-trace inclusion via vm_compute"
TRUSTED_BASE = [
    "harness/props/c40.py recorder: shims for `select`, `socket`, `threading` inside tornado.platform.asyncio, wrapper of loop.call_soon_threadsafe, "
    "recording subclass of SelectorThread (announces method entries, then calls the real method)",
    "select.select is run as zero-timeout polls under the trace lock so that the readiness it reports and the record are atomic; the OS scheduler "
    "chooses the interleavings actually exhibited (randomised sleeps widen the spread)",
    "BlockingIOError on a full waker pipe, OSErrors other than EBADF in select, _atexit_callback and Windows-specific behaviour are not modelled; "
    "the EBADF recovery path is modelled (SelectErr / WakerPoll) and exercised by closing an unregistered fd of the snapshot in the handover window",
]
ASSUMPTIONS = ["an fd is closed only after it was unregistered (remove_reader/remove_writer returned): the documented legal sequence",
               "close() is called from top-level event-loop code, not from inside an fd callback"]
RULE = ("random scenario scripts (add/remove reader/writer on up to 3 socketpairs, readiness changes, sleeps, close; random callback reactions incl. "
        "removing other fds, re-adding, level-triggered re-fire) + batches of 2-3 fds ready at once whose callbacks unregister each other "
        "+ structured handshake scenarios (close vs selector parked / in handover window / selecting; registration change in the handover window "
        "or with a report in flight; expected dispatch with deadline) + every operation sequence of length <= L (2 quick, 3 thorough) on one fd; each executed on a real "
        "SelectorThread under seeded random delays; distinct by the recorded (thread,label) sequence; non-trivial = trace of >= 12 events")
