"""C17 — WebSocket handshakes accept exactly the valid, permitted upgrades.

Server cases go through the real HTTPServer + Application + WebSocketHandler over a
FakeIOStream (bytes in, bytes out); client cases go through the real
websocket_connect()/WebSocketClientConnection over a FakeIOStream (TCPClient.connect and
os.urandom are patched for the duration of the constructor) and, in addition,
WebSocketProtocol13._process_server_headers is called directly to see the exception class.
"""
import base64
import hashlib
import logging
import os
import re

from harness import gallina as G

ID = "C17"
COQ_DIRS = ["C17"]
PROPERTY_FILE = "C17/Property.v"
RUN_IMPORTS = "From TV Require Import C43.Model C17.Model C17.Run."
RUN_FN = "run_case"
CHECK_FN = "check_case"
INPUT_TYPE = "case"



def pre_build():
    """regenerate Gen/C17_src.v (constants + statement structure of the handshake functions) from the
    working tree; raises (fails closed) when a function no longer has the structure the model was written from"""
    import importlib
    import sys
    from harness.framework import REPO, COQ
    sys.path.insert(0, os.path.join(os.path.dirname(COQ), "translators"))
    import c17_src
    importlib.reload(c17_src)
    c17_src.emit(REPO, os.path.join(COQ, "Gen", "C17_src.v"))


GUID = b"258EAFA5-E914-47DA-95CA-C5AB0DC85B11"
SRV_FIELDS = ["upgrade", "connection", "origin", "sec_origin", "host", "key", "version", "protocol", "extensions"]
SRV_NAMES = {
    "upgrade": "Upgrade", "connection": "Connection", "origin": "Origin", "sec_origin": "Sec-WebSocket-Origin",
    "host": "Host", "key": "Sec-WebSocket-Key", "version": "Sec-WebSocket-Version",
    "protocol": "Sec-WebSocket-Protocol", "extensions": "Sec-WebSocket-Extensions",
}
CLI_FIELDS = ["upgrade", "connection", "accept", "protocol", "extensions"]
CLI_NAMES = {"upgrade": "Upgrade", "connection": "Connection", "accept": "Sec-WebSocket-Accept",
             "protocol": "Sec-WebSocket-Protocol", "extensions": "Sec-WebSocket-Extensions"}
SAMPLE_KEY = "dGhlIHNhbXBsZSBub25jZQ=="


def accept_for(key):
    """Independent of tornado: RFC 6455 4.2.2 with hashlib/base64."""
    if isinstance(key, str):
        key = key.encode("utf-8")
    return base64.b64encode(hashlib.sha1(key + GUID).digest()).decode("ascii")


def joined(vals):
    return None if vals is None else ",".join(vals)


def hval(case, f):
    return joined(case["h"].get(f))


def style_name(name, style):
    return [name, name.lower(), name.upper(), name.title()][style % 4]


# --------------------------------------------------------------------------
# implementation runners
# --------------------------------------------------------------------------
_quiet = [False]


def quiet():
    if not _quiet[0]:
        for n in ("tornado.application", "tornado.general", "tornado.access", "asyncio"):
            logging.getLogger(n).setLevel(logging.CRITICAL + 10)
            logging.getLogger(n).propagate = False
        _quiet[0] = True


BODY400 = {
    b'Can "Upgrade" only to "WebSocket".': "BadUpgrade",
    b'"Connection" must be "Upgrade".': "BadConnection",
    b"Missing/Invalid WebSocket headers": "BadHeaders",
}


def make_policy(pol):
    kind = pol[0]
    if kind == "none":
        return lambda sp: None
    if kind == "first":
        return lambda sp: sp[0] if sp else None
    if kind == "last":
        return lambda sp: sp[-1] if sp else None
    if kind == "prefer":
        return lambda sp: pol[1] if pol[1] in sp else None
    if kind == "fixed":
        return lambda sp: pol[1]
    raise ValueError(kind)


def parse_http(raw):
    head, _, body = raw.partition(b"\r\n\r\n")
    lines = head.split(b"\r\n")
    m = re.fullmatch(rb"HTTP/1\.1 (\d{3}) .*", lines[0])
    hs = {}
    for ln in lines[1:]:
        k, _, v = ln.partition(b": ")
        hs.setdefault(k.decode("latin-1").lower(), []).append(v.decode("latin-1"))
    return int(m.group(1)), hs, body


def run_server(case):
    quiet()
    from harness.fake_iostream import FakeIOStream, EOF
    from harness.vclock import run_virtual, settle
    from tornado.httpserver import HTTPServer
    from tornado.web import Application
    from tornado.websocket import WebSocketHandler

    policy = make_policy(case["pol"])
    comp = case["comp"]
    opened = []

    class H(WebSocketHandler):
        def get_compression_options(self):
            return {} if comp else None

        def select_subprotocol(self, sp):
            return policy(sp)

        def open(self):
            opened.append(self.selected_subprotocol)

    ver = "1.1" if "host" in case["h"] else "1.0"     # HTTP/1.1 without Host is refused below the handler
    lines = ["GET /ws HTTP/%s" % ver]
    for f in case.get("order", SRV_FIELDS):
        for v in case["h"].get(f, []) or []:
            lines.append("%s: %s" % (style_name(SRV_NAMES[f], case.get("style", 0)), v))
    raw = ("\r\n".join(lines) + "\r\n\r\n").encode("latin-1")

    async def scenario(loop):
        srv = HTTPServer(Application([("/ws", H)]))
        s = FakeIOStream()
        srv.handle_stream(s, ("1.2.3.4", 5))
        s.feed(raw)
        await settle(8)
        sent, closed = bytes(s.sent), s.closed()
        s.feed(EOF)
        await settle(8)
        return sent, closed, bytes(s.sent)

    sent, closed, sent2 = run_virtual(scenario)
    if not sent:
        return [G.Tag("NoResponse"), closed]
    if sent == b"HTTP/1.1 400 Bad Request\r\n\r\n":
        return G.Tag("HttpLayer400")
    status, hs, body = parse_http(sent)

    def one(name):
        v = hs.get(name)
        if v is None:
            return None
        return v[0] if len(v) == 1 else [G.Tag("Repeated")] + v

    if status == 101:
        if closed or body or sent2 != sent or len(opened) != 1:
            return [G.Tag("Bad101"), closed, body, len(opened)]
        sub = one("sec-websocket-protocol")
        if opened[0] != sub and not (sub is None and not opened[0]):
            return [G.Tag("SubprotocolDisagrees"), sub, opened[0]]
        return [101, one("upgrade"), one("connection"), one("sec-websocket-accept"), sub, one("sec-websocket-extensions")]
    if opened:
        return [G.Tag("OpenedWithout101"), status]
    if status == 400:
        return [400, G.Tag(BODY400.get(body, "Unknown400"))]
    if status == 426:
        return [426, one("sec-websocket-version")]
    return [status]


def run_client(case):
    quiet()
    from harness.fake_iostream import FakeIOStream, EOF
    from harness.vclock import run_virtual, settle
    import tornado.websocket as W
    from tornado.tcpclient import TCPClient
    from tornado import httpclient
    from tornado.httputil import HTTPHeaders

    seed = case["seed"].encode("latin-1")
    comp, subs, status = case["comp"], case["subs"], case["status"]
    reason = {101: "Switching Protocols", 200: "OK"}.get(status, "Status")
    lines = ["HTTP/1.1 %d %s" % (status, reason)]
    pairs = []
    for f in CLI_FIELDS:
        for v in case["h"].get(f, []) or []:
            pairs.append((style_name(CLI_NAMES[f], case.get("style", 0)), v))
    lines += ["%s: %s" % p for p in pairs]
    if status != 101:
        lines.append("Content-Length: 0")
    resp = ("\r\n".join(lines) + "\r\n\r\n").encode("latin-1")

    async def scenario(loop):
        s = FakeIOStream()

        async def fake_connect(self, host, port, **kw):
            return s

        orig_connect, orig_ur = TCPClient.connect, os.urandom
        TCPClient.connect = fake_connect
        os.urandom = lambda n: seed
        try:
            try:
                fut = W.websocket_connect(httpclient.HTTPRequest("ws://example.com/ws"),
                                          compression_options=({} if comp else None), subprotocols=subs)
            finally:
                os.urandom = orig_ur
            await settle(10)
            sent = bytes(s.sent)
            s.feed(resp)
            await settle(12)
            if not fut.done():
                r = G.Tag("Pending")
            else:
                try:
                    c = fut.result()
                    r = [G.Tag("Resolved"), c.selected_subprotocol, c.protocol._compressor is not None]
                    c.close()
                except Exception as e:
                    r = G.Tag(type(e).__name__)
            s.feed(EOF)
            await settle(10)
            return sent, r
        finally:
            TCPClient.connect = orig_connect

    sent, outcome = run_virtual(scenario)
    req_lines = sent.split(b"\r\n\r\n")[0].split(b"\r\n")
    rh = {}
    for ln in req_lines[1:]:
        k, _, v = ln.partition(b": ")
        rh.setdefault(k.decode("latin-1").lower(), []).append(v.decode("latin-1"))
    if req_lines[0] != b"GET /ws HTTP/1.1" or rh.get("upgrade") != ["websocket"] or rh.get("connection") != ["Upgrade"] \
            or rh.get("sec-websocket-version") != ["13"] or len(rh.get("sec-websocket-key", [])) != 1:
        return [G.Tag("BadClientRequest"), sent]

    def one(name):
        v = rh.get(name)
        return None if v is None else ",".join(v)

    # the same response headers handed to _process_server_headers directly
    class D:
        pass
    p = W.WebSocketProtocol13(D(), True, W._WebSocketParams(compression_options=({} if comp else None)))
    hh = HTTPHeaders()
    for k, v in pairs:
        hh.add(k, v)
    try:
        p._process_server_headers(rh["sec-websocket-key"][0].encode("latin-1"), hh)
        direct = [G.Tag("Accept"), p.selected_subprotocol, p._compressor is not None]
    except (KeyError, AssertionError, ValueError) as e:
        direct = G.Tag(type(e).__name__)
    return [rh["sec-websocket-key"][0], one("sec-websocket-protocol"), one("sec-websocket-extensions"), outcome, direct]


def run_loop(case):
    """The real client (websocket_connect) against the real server (HTTPServer + WebSocketHandler):
    the bytes each side writes are carried to the other side's FakeIOStream."""
    quiet()
    from harness.fake_iostream import FakeIOStream, EOF
    from harness.vclock import run_virtual, settle
    import tornado.websocket as W
    from tornado.tcpclient import TCPClient
    from tornado import httpclient
    from tornado.httpserver import HTTPServer
    from tornado.web import Application

    seed = case["seed"].encode("latin-1")
    policy = make_policy(case["pol"])
    scomp = case["scomp"]
    opened = []

    class H(W.WebSocketHandler):
        def get_compression_options(self):
            return {} if scomp else None

        def select_subprotocol(self, sp):
            return policy(sp)

        def open(self):
            opened.append(self.selected_subprotocol)

    async def scenario(loop):
        cs, ss = FakeIOStream(), FakeIOStream()

        async def fake_connect(self, host, port, **kw):
            return cs

        orig_connect, orig_ur = TCPClient.connect, os.urandom
        TCPClient.connect = fake_connect
        os.urandom = lambda n: seed
        try:
            try:
                fut = W.websocket_connect(httpclient.HTTPRequest("ws://%s/ws" % case["host"]),
                                          compression_options=({} if case["comp"] else None), subprotocols=case["subs"])
            finally:
                os.urandom = orig_ur
            await settle(10)
            req = bytes(cs.sent)
            HTTPServer(Application([("/ws", H)])).handle_stream(ss, ("1.2.3.4", 5))
            ss.feed(req)
            await settle(10)
            resp = bytes(ss.sent)
            cs.feed(resp)
            await settle(12)
            if not fut.done():
                r = G.Tag("Pending")
            else:
                try:
                    c = fut.result()
                    r = [G.Tag("Resolved"), c.selected_subprotocol, c.protocol._compressor is not None]
                    c.close()
                except Exception as e:
                    r = G.Tag(type(e).__name__)
            cs.feed(EOF)
            ss.feed(EOF)
            await settle(10)
            return resp, r
        finally:
            TCPClient.connect = orig_connect

    resp, outcome = run_virtual(scenario)
    if not resp:
        return [G.Tag("NoResponse")]
    status, hs, body = parse_http(resp)
    if status == 101:
        if len(opened) != 1:
            return [G.Tag("Bad101"), len(opened)]
        ext = hs.get("sec-websocket-extensions")
        return [101, opened[0] or None, None if ext is None else ",".join(ext), outcome]
    if opened:
        return [G.Tag("OpenedWithout101"), status]
    return [status, None, None, outcome]


def run_impl(case):
    return {"s": run_server, "c": run_client, "l": run_loop}[case["t"]](case)


# --------------------------------------------------------------------------
# Gallina rendering
# --------------------------------------------------------------------------
def gostr(v):
    return G.goption(v, G.gbytes, "str")


def brk_of(case):
    """External function oracle: does urllib's _check_bracketed_host accept this Origin's bracketed host?"""
    from urllib.parse import urlsplit
    o = hval(case, "origin")
    if o is None:
        o = hval(case, "sec_origin")
    if o is None:
        return True
    try:
        urlsplit(o)
    except ValueError as e:
        return str(e) == "Invalid IPv6 URL"      # unbalanced brackets: modelled, not the oracle's business
    return True


def gpolicy(pol):
    k = pol[0]
    if k in ("prefer", "fixed"):
        return "(%s %s)" % ({"prefer": "PolPrefer", "fixed": "PolFixed"}[k], G.gbytes(pol[1]))
    return {"none": "PolNone", "first": "PolFirst", "last": "PolLast"}[k]


def coq_input(case):
    if case["t"] == "s":
        hs = " ".join(gostr(hval(case, f)) for f in SRV_FIELDS)
        return "(CaseServer %s (mkApp %s %s) (mkReq %s))" % (G.gbool(brk_of(case)), G.gbool(case["comp"]), gpolicy(case["pol"]), hs)
    subs = case["subs"]
    gs = "(@None (list str))" if subs is None else "(Some %s)" % G.glist([G.gbytes(x) for x in subs], "str")
    if case["t"] == "l":
        return "(CaseLoop %s %s %s %s (mkApp %s %s))" % (G.gbytes(case["seed"]), G.gbool(case["comp"]), gs, G.gbytes(case["host"]),
                                                        G.gbool(case["scomp"]), gpolicy(case["pol"]))
    hs = " ".join(gostr(hval(case, f)) for f in CLI_FIELDS)
    return "(CaseClient %s %s %s %s (mkResp %s))" % (G.gbytes(case["seed"]), G.gbool(case["comp"]), gs, G.gn(case["status"]), hs)


# --------------------------------------------------------------------------
# independent Python oracle of the property on the implementation's observable
# --------------------------------------------------------------------------
def offered_subs(case):
    h = hval(case, "protocol")
    return [x.strip() for x in h.split(",")] if h else []


def should_upgrade(case):
    from urllib.parse import urlparse
    up = hval(case, "upgrade") or ""
    cn = hval(case, "connection") or ""
    if up.lower() != "websocket" or "upgrade" not in [t.strip().lower() for t in cn.split(",")]:
        return False
    if not hval(case, "host") or not hval(case, "key") or hval(case, "version") not in ("7", "8", "13"):
        return False
    o = hval(case, "origin")
    if o is None:
        o = hval(case, "sec_origin")
    if o is not None:
        try:
            if urlparse(o).netloc.lower() != hval(case, "host"):
                return False
        except ValueError:
            return False
    return True


def app_ok(case):
    sel = make_policy(case["pol"])(offered_subs(case))
    return (not sel) or sel in offered_subs(case)


def deflate_offered(case):
    h = hval(case, "extensions") or ""
    return any(e.split(";")[0].strip() == "permessage-deflate" for e in h.split(","))


def py_check(case, o):
    if case["t"] == "s":
        if not isinstance(o, list) or not isinstance(o[0], int):
            return False
        if o[0] != 101:
            return not (should_upgrade(case) and app_ok(case))
        _, up, cn, acc, sub, ext = o
        if not should_upgrade(case) or up != "websocket" or cn != "Upgrade" or acc != accept_for(hval(case, "key")):
            return False
        if sub is not None and (sub not in offered_subs(case) or sub != make_policy(case["pol"])(offered_subs(case))):
            return False
        if ext is not None and not (case["comp"] and deflate_offered(case) and ext.split(";")[0].strip() == "permessage-deflate"):
            return False
        return True
    if case["t"] == "l":
        if not isinstance(o, list) or len(o) != 4 or not isinstance(o[0], int):
            return False
        status, ssub, sext, outcome = o
        offered = [x.strip() for y in (case["subs"] or []) for x in y.split(",")]
        if isinstance(outcome, list):
            _, csub, d = outcome
            return (status == 101 and csub == ssub and (csub is None or csub in offered)
                    and d == (sext is not None) and (not d or (case["comp"] and case["scomp"])))
        return status != 101 and isinstance(outcome, G.Tag) and outcome in ("HTTPClientError", "WebSocketError", "StreamClosedError")
    if not isinstance(o, list) or len(o) != 5:
        return False
    key, _, _, outcome, _ = o
    if isinstance(outcome, list):
        _, sub, deflate = outcome
        if case["status"] != 101 or hval(case, "accept") != accept_for(key):
            return False
        if sub and sub not in [x.strip() for y in (case["subs"] or []) for x in y.split(",")]:
            return False
        if deflate and not case["comp"]:
            return False
        h = hval(case, "extensions") or ""
        if h and not all(case["comp"] and e.split(";")[0].strip() == "permessage-deflate" for e in h.split(",")):
            return False
        return True
    return isinstance(outcome, G.Tag) and outcome in ("StreamClosedError", "WebSocketError", "HTTPClientError")


def signature(case, o):
    if case["t"] == "l":
        return "loop"
    if case["t"] == "s":
        if isinstance(o, list) and o and o[0] == 500 and should_upgrade(case) and app_ok(case):
            return "server-negotiation-valueerror-500"
        return "server-other"
    if isinstance(o, list) and len(o) == 5 and isinstance(o[3], list) and o[3][1] \
            and o[3][1] not in [x.strip() for y in (case["subs"] or []) for x in y.split(",")]:
        return "client-unoffered-subprotocol"
    return "client-other"


# --------------------------------------------------------------------------
# generator
# --------------------------------------------------------------------------
BASE = {"upgrade": ["websocket"], "connection": ["Upgrade"], "host": ["example.com"], "key": [SAMPLE_KEY], "version": ["13"]}

UPGRADES = [["websocket"], ["WebSocket"], ["WEBSOCKET"], ["wEbSoCkEt"], ["websockets"], [""], ["h2c"], None,
            ["websocket", "foo"], ["web socket"], ["websocke\xd4"], ["\xa0websocket"], ["websocket;q=1"]]
CONNECTIONS = [["Upgrade"], ["upgrade"], ["UPGRADE"], ["keep-alive, Upgrade"], ["keep-alive", "Upgrade"], ["Upgrade,keep-alive"],
               ["x,\tuPgrade\t,y"], ["keep-alive"], [""], None, ["upgradex"], ["up grade"], ["Upgrade;q=1"], ["\xa0upgrade\xa0"],
               ["upgrade\x85, x"], ["close"], [",upgrade,"], ["Upgrade Upgrade"], [",,"]]
HOSTS = [["example.com"], ["example.com:8080"], ["Example.COM"], [""], None, ["localhost"], ["127.0.0.1:80"], ["[::1]"],
         ["[::1]:8080"], ["example.com."], ["example.com:080"], ["a"], ["EXAMPLE.com:8080"], ["ex%41mple.com"], ["example.com:"]]
VERSIONS = [["13"], ["8"], ["7"], [""], None, ["12"], ["14"], ["13", "8"], ["013"], ["13.0"], ["6"], ["1"], ["3"], ["13 "[:2]], ["0x0d"], ["+13"], ["78"]]
KEYS = [[SAMPLE_KEY], [""], None, ["x"], ["k\xe9y\xff"], ["AAAAAAAAAAAAAAAAAAAAAA=="], ["not base64 at all!"], ["a", "b"]]
PROTOCOLS = [None, [""], ["chat"], ["chat, superchat"], ["chat,superchat"], ["superchat", "chat"], ["a ,  b"], ["a,,b"], [","],
             ["chat\t,\tx"], ["\xa0chat"], ["Chat, chat"], ["v1.proto-x_y", "chat"], ["superchat"], ["ch\xe4t, chat"], ["chat chat"]]
POLICIES = [["none"], ["first"], ["last"], ["prefer", "chat"], ["prefer", "superchat"], ["fixed", "chat"], ["fixed", "bogus"],
            ["fixed", ""], ["prefer", ""], ["prefer", "Chat"]]
WBITS = ["8", "9", "10", "15", "16", "7", "0", "abc", "+10", '"10"', '" 10 "', "1_0", "010", "-9", "1__0", "_10", "10_", "",
         "1e1", "0x0a", "15.0", "\xa012", "12\x85", '"1\\"2"', "10 1", "\xb2", "99999999999999999999", "+", "-", "- 10", '"\t9"']
DEFLATE_PARAMS = ["client_max_window_bits", "client_max_window_bits=%W", "server_max_window_bits=%W", "server_no_context_takeover",
                  "server_no_context_takeover=1", "client_no_context_takeover=", "client_no_context_takeover=x", "foo=1", "foo",
                  "SERVER_MAX_WINDOW_BITS=%W", " server_max_window_bits = %W ", "server_max_window_bits*0=1; server_max_window_bits*1=%D",
                  "server_max_window_bits=%W; server_max_window_bits=%W", "client_max_window_bits*0=%W", "=5", "x=\"a;b\"",
                  "server_max_window_bits*=b; server_max_window_bits*0=%W", "client_max_window_bits*1=%D; client_max_window_bits*0=1"]
OTHER_EXTS = ["x-webkit-deflate-frame", "foo", "foo; bar=1", "Permessage-Deflate", "permessage-deflate2", "", "foo; a*=utf-8''x",
              "permessage-deflat", "PERMESSAGE-DEFLATE; server_max_window_bits=10", "foo; a*0*=utf-8''x; a*1=y"]


def gen_deflate(rng, valid_bias=0.6):
    n = rng.choice([0, 0, 1, 1, 1, 2, 2, 3])
    ps = []
    for _ in range(n):
        if rng.random() < valid_bias:
            p = rng.choice(["client_max_window_bits", "client_max_window_bits=%W", "server_max_window_bits=%W",
                            "server_no_context_takeover=1", "client_no_context_takeover=1", "server_no_context_takeover"])
            w = rng.choice(["8", "9", "10", "11", "12", "13", "14", "15", "15", "12"])
        else:
            p = rng.choice(DEFLATE_PARAMS)
            w = rng.choice(WBITS)
        while "%W" in p:
            p = p.replace("%W", w, 1)
            w = rng.choice(WBITS) if rng.random() < 0.3 else w
        p = p.replace("%D", rng.choice("0123456789"))
        ps.append(p)
    sep = rng.choice(["; ", ";", " ; ", ";  "])
    return sep.join([rng.choice(["permessage-deflate"] * 8 + ["permessage-deflate ", "\xa0permessage-deflate"]).strip(" ")] + ps)


def gen_extensions(rng):
    r = rng.random()
    if r < 0.25:
        return None
    if r < 0.3:
        return [""]
    items = []
    for _ in range(rng.choice([1, 1, 1, 2, 2, 3])):
        items.append(gen_deflate(rng) if rng.random() < 0.75 else rng.choice(OTHER_EXTS))
    if rng.random() < 0.2 and len(items) > 1:
        return [x.strip(" \t") for x in items]                # separate header lines
    return [", ".join(items).strip(" \t")]


def ext_in_model(vals):
    """The model does not decode RFC 2231 extended (charset'lang'pct) values: keep them out of
    permessage-deflate offers (they remain in other extensions, where the value is irrelevant)."""
    if not vals:
        return True
    for e in ",".join(vals).split(","):
        if e.split(";")[0].strip() == "permessage-deflate" and re.search(r"\*\s*=", e):
            return False
    return True


SCHEMES = ["http", "https", "HTTP", "ws", "", "ht+tp", "1http", "-x", "file", "h\ttp", "javascript", "http:"]
SEPS = ["://", ":", "//", ":/", ":///", ":\\\\", ""]
USERINFO = ["", "", "", "user@", "user:pw@", "@", "%H@"]
PATHS = ["", "", "/", "/path", "?q=1", "#frag", "/a?b#c", "\\@evil.com", ";x", ":", "/.", " /x"]


def origin_hosts(host):
    h = host or "example.com"
    base, _, port = h.partition(":") if not h.startswith("[") else (h, "", "")
    return [h, h, h.upper(), h.title(), "evil.com", h + ".", h + ".evil.com", "evil" + h, "", base + ":8080", base + ":80",
            base, h + ":", "[::1]", "[::1", "::1]", "[zz]", "[v1.x]", "[1.2.3.4]", "[::1]:8080", h.replace("a", "\xc0", 1),
            h[:3] + "\t" + h[3:], h + "\\", "null", h.replace(".", "\x2e\x2e", 1), "[" + h + "]", h.swapcase()]


def gen_origin(rng, host):
    if rng.random() < 0.08:
        return rng.choice(["null", "", "example.com", "//", "http://", "http:", "://example.com", "about:blank", "http:///example.com"])
    ui = rng.choice(USERINFO).replace("%H", host or "x")
    return (rng.choice(SCHEMES) + rng.choice(SEPS + ["://"] * 6) + ui + rng.choice(origin_hosts(host)) + rng.choice(PATHS)).strip(" \t")


def wire_ok(v):
    return re.fullmatch(r"|[\x21-\x7e\x80-\xff]|[\x21-\x7e\x80-\xff][\x21-\x7e\x80-\xff \t]*[\x21-\x7e\x80-\xff]", v) is not None


def mk_server(h, comp=False, pol=("none",), style=0):
    h = {k: v for k, v in h.items() if v is not None}
    for vs in h.values():
        for v in vs:
            assert wire_ok(v), v
    return {"t": "s", "comp": comp, "pol": list(pol), "style": style, "h": h}


def mk_client(seed, h, comp=False, subs=None, status=101, style=0):
    h = {k: v for k, v in h.items() if v is not None}
    for vs in h.values():
        for v in vs:
            assert wire_ok(v), v
    return {"t": "c", "seed": bytes(seed).decode("latin-1"), "comp": comp, "subs": subs, "status": status, "style": style, "h": h}


def mk_loop(seed, comp=False, subs=None, host="example.com", scomp=False, pol=("none",)):
    for x in subs or []:
        assert wire_ok(x), x
    return {"t": "l", "seed": bytes(seed).decode("latin-1"), "comp": comp, "subs": subs, "host": host, "scomp": scomp, "pol": list(pol), "h": {}}


LOOP_SUBS = [None, [], ["chat"], ["chat", "superchat"], ["superchat", "chat"], ["a", "b", "c"], ["chat, superchat"], ["Chat"],
             ["chat", ""], ["", "chat"], ["v1.proto-x_y"], ["ch\xe4t", "chat"], ["a b", "chat"], ["chat", "chat"]]
LOOP_HOSTS = ["example.com", "example.com:8080", "[::1]:9", "LOCALHOST"]


def enum_loop(tier):
    out = []
    for subs in LOOP_SUBS:
        for pol in POLICIES:
            for comp, scomp in ((False, False), (True, True)) if tier != "thorough" else ((False, False), (True, False), (False, True), (True, True)):
                out.append(mk_loop(SEED0, comp, subs, "example.com", scomp, pol))
    for host in LOOP_HOSTS:
        for comp in (False, True):
            for scomp in (False, True):
                out.append(mk_loop(SEED0, comp, ["chat"], host, scomp, ("first",)))
    return out


def gen_loop_case(rng):
    return mk_loop(bytes(rng.randrange(256) for _ in range(16)), rng.random() < 0.5, rng.choice(LOOP_SUBS), rng.choice(LOOP_HOSTS),
                   rng.random() < 0.5, rng.choice(POLICIES))


def with_(base, **kw):
    d = dict(base)
    d.update(kw)
    return d


SEED0 = bytes(range(16))


def client_base(seed, **kw):
    d = {"upgrade": ["websocket"], "connection": ["Upgrade"], "accept": [accept_for(base64.b64encode(bytes(seed)))]}
    d.update(kw)
    return d


def corpus_cases():
    out = [
        mk_server(BASE),
        mk_server(with_(BASE, origin=["http://example.com"])),
        mk_server(with_(BASE, origin=["http://Example.COM"])),
        mk_server(with_(BASE, origin=["http://evil.com"])),
        mk_server(with_(BASE, origin=["http://example.com.evil.com"])),
        mk_server(with_(BASE, origin=["http://user@example.com"])),
        mk_server(with_(BASE, origin=["http://example.com:8080"])),
        mk_server(with_(BASE, origin=["https://example.com:8080/x"], host=["example.com:8080"])),
        mk_server(with_(BASE, origin=["http://[::1"])),                              # urlsplit ValueError -> 500
        mk_server(with_(BASE, origin=["http://[zz]"])),                              # bracketed host refused by ipaddress
        mk_server(with_(BASE, origin=["http://[::1]:8080"], host=["[::1]:8080"])),
        mk_server(with_(BASE, origin=["foo"], host=[""])),                           # '' == '' passes the origin check, then 400
        mk_server(with_(BASE, origin=None, sec_origin=["http://evil.com"])),
        mk_server(with_(BASE, origin=["http://example.com"], sec_origin=["http://evil.com"])),
        mk_server(with_(BASE, version=None)),
        mk_server(with_(BASE, host=None)),
        mk_server(with_(BASE, host=None, origin=["http://example.com"])),
        mk_server(with_(BASE, key=[""])),
        mk_server(with_(BASE, protocol=["chat, superchat"]), pol=("prefer", "superchat")),
        mk_server(with_(BASE, protocol=["chat, superchat"]), pol=("fixed", "bogus")),  # app bug: AssertionError -> 500
        mk_server(with_(BASE, extensions=["permessage-deflate; client_max_window_bits"]), comp=True),
        mk_server(with_(BASE, extensions=["permessage-deflate; client_max_window_bits"]), comp=False),
        mk_server(with_(BASE, extensions=["permessage-deflate; server_max_window_bits=10; client_no_context_takeover=1"]), comp=True),
        mk_server(with_(BASE, extensions=["foo; a*=b; a*0=c, permessage-deflate"]), comp=True),   # 7556c41: no longer raises
        mk_server(with_(BASE, extensions=["permessage-deflate; a*=b; a*0=c"]), comp=False),
        mk_server(with_(BASE, extensions=["permessage-deflate; server_max_window_bits*0=1; server_max_window_bits*1=2"]), comp=True),
        # fixed by 93c0494 (was: ValueError -> _abort() without a stream -> 500); now the offer is declined
        mk_server(with_(BASE, extensions=["permessage-deflate; foo=1"]), comp=True),
        mk_server(with_(BASE, extensions=["permessage-deflate; server_max_window_bits=8"]), comp=True),
        mk_server(with_(BASE, extensions=["permessage-deflate; server_max_window_bits=8; server_no_context_takeover=1"]), comp=True),
        mk_server(with_(BASE, extensions=["permessage-deflate; client_max_window_bits=abc, permessage-deflate"]), comp=True),
        # client
        mk_client(SEED0, client_base(SEED0)),
        mk_client(SEED0, client_base(SEED0, accept=["s3pPLMBiTxaQ9kYGzzhZRbK+xOo="])),
        mk_client(SEED0, client_base(SEED0, accept=None)),
        mk_client(SEED0, client_base(SEED0, upgrade=None)),
        mk_client(SEED0, client_base(SEED0, connection=["keep-alive, Upgrade"])),
        mk_client(SEED0, client_base(SEED0, extensions=["permessage-deflate"]), comp=True),
        mk_client(SEED0, client_base(SEED0, extensions=["permessage-deflate"]), comp=False),
        mk_client(SEED0, client_base(SEED0, extensions=["permessage-deflate; client_max_window_bits=8"]), comp=True),
        mk_client(SEED0, client_base(SEED0, extensions=["permessage-deflate, foo"]), comp=True),
        mk_client(SEED0, client_base(SEED0, protocol=["chat"]), subs=["chat", "superchat"]),
        mk_client(SEED0, client_base(SEED0), status=200),
        mk_client(SEED0, client_base(SEED0), status=426),
        # fixed by 4284542 (was: resolved with a subprotocol the client never offered)
        mk_client(SEED0, client_base(SEED0, protocol=["never-offered"]), subs=None),
        mk_client(SEED0, client_base(SEED0, protocol=["never-offered"]), subs=["chat"], comp=True),
    ]
    return out


def gen_server_case(rng):
    h = dict(BASE)
    r = rng.random()
    nmut = 0 if r < 0.25 else 1 if r < 0.7 else 2 if r < 0.9 else 4
    fields = rng.sample(["upgrade", "connection", "host", "key", "version"], min(nmut, 5))
    for f in fields:
        h[f] = rng.choice({"upgrade": UPGRADES, "connection": CONNECTIONS, "host": HOSTS, "key": KEYS, "version": VERSIONS}[f])
    if "host" not in fields and rng.random() < 0.4:
        h["host"] = rng.choice(HOSTS[:3] + HOSTS[5:13])
    if "key" not in fields and rng.random() < 0.5:
        n = rng.choice([16, 16, 1, 2, 19, 20, 21, 27, 28, 29, 40, 60])
        h["key"] = [base64.b64encode(bytes(rng.randrange(256) for _ in range(n))).decode()]
    host = h["host"][0] if h.get("host") else None
    r = rng.random()
    if r < 0.6:
        h["origin"] = [gen_origin(rng, host)]
    elif r < 0.68:
        h["sec_origin"] = [gen_origin(rng, host)]
    elif r < 0.74:
        h["origin"] = [gen_origin(rng, host)]
        h["sec_origin"] = [gen_origin(rng, host)]
    elif r < 0.78:
        h["origin"] = [gen_origin(rng, host), gen_origin(rng, host)]
    if rng.random() < 0.5:
        h["protocol"] = rng.choice(PROTOCOLS)
    pol = rng.choice(POLICIES) if rng.random() < 0.7 else ["none"]
    ext = gen_extensions(rng)
    comp = rng.random() < 0.6
    if ext is not None:
        if comp and not ext_in_model(ext):
            comp = False
        h["extensions"] = ext
    return mk_server(h, comp, pol, rng.randrange(4))


def gen_client_case(rng):
    seed = bytes(rng.randrange(256) for _ in range(16))
    key = base64.b64encode(seed)
    good = accept_for(key)
    h = {"upgrade": ["websocket"], "connection": ["Upgrade"], "accept": [good]}
    r = rng.random()
    nmut = 0 if r < 0.45 else 1 if r < 0.9 else 2
    for f in rng.sample(["upgrade", "connection", "accept"], nmut):
        if f == "upgrade":
            h[f] = rng.choice([["WebSocket"], ["WEBSOCKET"], [""], None, ["h2c"], ["websocket", "x"], ["websockets"], ["\xa0websocket"]])
        elif f == "connection":
            h[f] = rng.choice([["upgrade"], ["UPGRADE"], ["keep-alive, Upgrade"], None, ["Upgrade", "x"], [""], ["close"], ["upgrade\xa0"]])
        else:
            other = accept_for(base64.b64encode(bytes(rng.randrange(256) for _ in range(16))))
            h[f] = rng.choice([[good.lower()], [good + "="], [good[:-1]], [other], [""], None, [good, good], [accept_for(seed)],
                               [accept_for(key + b" ")], [SAMPLE_KEY], [good.swapcase()]])
    subs = rng.choice([None, None, [], ["chat"], ["chat", "superchat"], ["a", "b", "c"]])
    if rng.random() < 0.55:
        h["protocol"] = rng.choice([["chat"], ["superchat"], ["never-offered"], [""], ["chat, superchat"], ["Chat"], ["a"], ["chat", "superchat"]])
    comp = rng.random() < 0.6
    if rng.random() < 0.65:
        ext = gen_extensions(rng)
        if ext is not None:
            if comp and not ext_in_model(ext):
                comp = False
            h["extensions"] = ext
    status = 101 if rng.random() < 0.85 else rng.choice([200, 204, 302, 400, 403, 426, 500, 201])
    return mk_client(seed, h, comp, subs, status, rng.randrange(4))


def enum_server(tier):
    """Small-scope exhaustive products."""
    out = []
    # one header at a time over its whole pool, with and without a same-origin Origin
    for f, pool in (("upgrade", UPGRADES), ("connection", CONNECTIONS), ("host", HOSTS), ("key", KEYS), ("version", VERSIONS)):
        for v in pool:
            for o in (None, ["http://example.com"]):
                out.append(mk_server(with_(BASE, **{f: v, "origin": o})))
    # presence/emptiness of the five required headers: {absent, empty, valid}^5
    if tier == "thorough":
        import itertools
        for combo in itertools.product([None, [""], "ok"], repeat=5):
            h = {f: (BASE[f] if c == "ok" else c) for f, c in zip(["upgrade", "connection", "host", "key", "version"], combo)}
            for o in (None, ["http://example.com"]):
                out.append(mk_server(with_(h, origin=o)))
    # origin forms against a few Host values
    thorough = tier == "thorough"
    hosts = ["example.com:8080", "[::1]:8080"] if thorough else ["example.com:8080"]
    schemes = ["http", "HTTP", "", "1http", "ht+tp", "h\ttp"] if thorough else ["http", "HTTP", "", "1http"]
    seps = ["://", ":", "//"] if thorough else ["://", "//"]
    uis = ["", "user@", "%H@"] if thorough else ["", "user@"]
    paths = ["", "/p?q#f", "\\@evil.com"] if thorough else ["", "/p?q"]
    for host in hosts:
        ohs = origin_hosts(host)
        if tier != "thorough":
            ohs = ohs[1:3] + ohs[4:7] + ohs[9:12] + ohs[13:16] + ohs[20:23]
        for sc in schemes:
            for sp in seps:
                for ui in uis:
                    for oh in ohs:
                        for pa in paths:
                            o = (sc + sp + ui.replace("%H", host) + oh + pa).strip(" \t")
                            if wire_ok(o):
                                out.append(mk_server(with_(BASE, host=[host], origin=[o])))
    # subprotocol lists x policies
    for p in PROTOCOLS:
        for pol in POLICIES:
            out.append(mk_server(with_(BASE, protocol=p), pol=pol))
    # window-bits values x side x context takeover x compression
    for w in WBITS:
        for side in ("server", "client"):
            for nct in ("", "; server_no_context_takeover=1", "; client_no_context_takeover=1"):
                e = "permessage-deflate; %s_max_window_bits=%s%s" % (side, w, nct)
                if wire_ok(e):
                    out.append(mk_server(with_(BASE, extensions=[e]), comp=True))
    for p in DEFLATE_PARAMS:
        for w in ("10", "8", "abc"):
            e = "permessage-deflate; " + p.replace("%W", w).replace("%D", "2")
            for comp in (True, False):
                if wire_ok(e.strip()) and (not comp or ext_in_model([e])):
                    out.append(mk_server(with_(BASE, extensions=[e.strip()]), comp=comp))
    for e1 in OTHER_EXTS:
        for e2 in ("permessage-deflate", "permessage-deflate; foo=1", "permessage-deflate; client_max_window_bits=12"):
            for order in (0, 1):
                e = ", ".join([e1, e2] if order == 0 else [e2, e1]).strip(" \t,") or ""
                if wire_ok(e) and ext_in_model([e]):
                    out.append(mk_server(with_(BASE, extensions=[e]), comp=True))
    # key lengths around the SHA-1 block boundaries (key + 36-byte GUID)
    for n in list(range(1, 40)) + list(range(80, 96)) + ([147, 148, 149] if tier == "thorough" else []):
        out.append(mk_server(with_(BASE, key=[("Kx9+/" * 40)[:n]])))
    return out


def enum_client(tier):
    out = []
    exts = [None, [""], ["permessage-deflate"], ["permessage-deflate; server_max_window_bits=10"],
            ["permessage-deflate; client_max_window_bits=8"], ["permessage-deflate; client_max_window_bits=8; client_no_context_takeover=1"],
            ["permessage-deflate; server_max_window_bits=8"], ["foo"], ["permessage-deflate, foo"], ["foo, permessage-deflate"],
            ["permessage-deflate, permessage-deflate; client_max_window_bits=9"], ["permessage-deflate; bar=1"], ["x-webkit-deflate-frame"],
            ["permessage-deflate", "permessage-deflate"], ["Permessage-Deflate"], ["permessage-deflate; client_max_window_bits"],
            ["permessage-deflate; client_max_window_bits=16"], ["permessage-deflate; server_max_window_bits=abc"]]
    for e in exts:
        for comp in (True, False):
            out.append(mk_client(SEED0, client_base(SEED0, extensions=e), comp=comp))
    for subs in (None, [], ["chat"], ["chat", "superchat"]):
        for p in (None, ["chat"], ["superchat"], ["never-offered"], [""], ["chat, superchat"]):
            out.append(mk_client(SEED0, client_base(SEED0, protocol=p), subs=subs))
    for st in (101, 200, 201, 204, 302, 400, 403, 426, 500):
        for ok in (True, False):
            out.append(mk_client(SEED0, client_base(SEED0) if ok else client_base(SEED0, accept=["x"]), status=st))
    if tier == "thorough":
        import itertools
        ups = [["websocket"], ["WebSocket"], [""], None, ["h2c"]]
        cns = [["Upgrade"], ["upgrade"], ["keep-alive, Upgrade"], None, [""]]
        good = accept_for(base64.b64encode(SEED0))
        accs = [[good], [good.lower()], [good + "="], None, [""], [good, good]]
        for u, c, a in itertools.product(ups, cns, accs):
            for e in (None, ["permessage-deflate"], ["foo"]):
                out.append(mk_client(SEED0, {"upgrade": u, "connection": c, "accept": a, "extensions": e}, comp=True))
    return out


def gen_cases(rng, tier):
    out = enum_server(tier) + enum_client(tier) + enum_loop(tier)
    ns, nc = (500, 250) if tier == "quick" else (3000, 1500)
    if tier == "search":
        ns, nc = 1200, 600
    out += [gen_server_case(rng) for _ in range(ns)]
    out += [gen_client_case(rng) for _ in range(nc)]
    out += [gen_loop_case(rng) for _ in range(nc // 3)]
    return out


HAS_SEARCH_TIER = True


# --------------------------------------------------------------------------
# evidence helpers
# --------------------------------------------------------------------------
def nontrivial(case, o):
    if case["t"] == "l":
        return ("l", case["seed"], case["comp"], str(case["subs"]), case["host"], case["scomp"], str(case["pol"]))
    return (case["t"], case["comp"], str(case.get("pol")), str(case.get("subs")), case.get("status"),
            tuple(sorted((k, tuple(v)) for k, v in case["h"].items())), case.get("seed"))


def classify(case, o):
    yield "side=" + {"s": "server", "c": "client", "l": "loop"}[case["t"]]
    if case["t"] == "l":
        yield "loop:status=%s connect=%s" % (o[0] if isinstance(o, list) else o, (o[3][0] if isinstance(o[3], list) else o[3]) if isinstance(o, list) and len(o) == 4 else "?")
        return
    if case["t"] == "s":
        yield "status=%s" % (o[0] if isinstance(o, list) else o)
        if isinstance(o, list) and o[0] == 101:
            yield "101:sub=%s ext=%s" % (o[4] is not None, o[5] is not None)
        yield "origin=" + ("present" if ("origin" in case["h"] or "sec_origin" in case["h"]) else "absent")
        yield "comp=%s ext=%s" % (case["comp"], "extensions" in case["h"])
    else:
        out = o[3] if isinstance(o, list) and len(o) == 5 else o
        yield "connect=" + (str(out[0]) if isinstance(out, list) else str(out))
        if isinstance(o, list) and len(o) == 5:
            yield "direct=" + (str(o[4][0]) if isinstance(o[4], list) else str(o[4]))


def shrink(case):
    if case["t"] == "l":
        if case["subs"]:
            yield dict(case, subs=case["subs"][:-1])
            yield dict(case, subs=case["subs"][1:])
        if case["pol"] != ["none"]:
            yield dict(case, pol=["none"])
        if case["comp"]:
            yield dict(case, comp=False)
        if case["scomp"]:
            yield dict(case, scomp=False)
        return
    h = case["h"]
    base = BASE if case["t"] == "s" else {"upgrade": ["websocket"], "connection": ["Upgrade"]}
    for f in list(h):
        if f in base and h[f] != base[f]:
            yield dict(case, h=with_(h, **{f: base[f]}))
        if f not in base:
            d = dict(h)
            del d[f]
            yield dict(case, h=d)
    for f in list(h):
        for i, v in enumerate(h[f]):
            if len(v) > 1 and f not in ("accept",):
                for w in (v[: len(v) // 2], v[len(v) // 2:], v[:-1], v[1:]):
                    if wire_ok(w):
                        yield dict(case, h=with_(h, **{f: h[f][:i] + [w] + h[f][i + 1:]}))
    if case.get("style"):
        yield dict(case, style=0)
    if case["t"] == "s" and case["pol"] != ["none"]:
        yield dict(case, pol=["none"])
    if case["comp"]:
        yield dict(case, comp=False)
    if case["t"] == "c" and case["subs"]:
        yield dict(case, subs=None)


TRUSTED_BASE = [
    "translators/c17_src.py: ast.unparse of each handshake function must full-match a template whose only holes are literals; it supplies constants and structure flags (Gen/C17_src.v), the semantics of the statements is the hand-written model's",
    "C43.Model definitions of httputil._parse_header/_encode_header, str.strip/lower/split (tied to /repo by the C43 correspondence as well as this one)",
    "urllib.parse.urlsplit (Python 3.12.1) netloc extraction is modelled by hand; _check_bracketed_host (ipaddress) is an external function whose verdict is an input of the case; _checknetloc (NFKC) cannot raise for code points < 256 (checked exhaustively per character)",
    "hashlib.sha1 is modelled by a Gallina SHA-1 (checked against the RFC 6455 sample and, through the Accept header, on every 101 case); theorems hold for an arbitrary hash function",
    "zlib 1.2.13 accepts raw deflate window bits 9..15 for compressobj and 8..15 for decompressobj (zlib_deflate_ok)",
    "Python int(str) on header text (py_int); assert statements are executed (no python -O)",
    "the HTTP/1.x wire parser and serialiser of Tornado (other properties) carry the header values to and from the handler; harness joins repeated header lines with ',' as HTTPHeaders does",
]
ASSUMPTIONS = [
    "header values are latin-1 text as delivered by the HTTP parser (code points < 256; no control characters except TAB)",
    "RFC 2231 extended (charset'lang'%XX) parameters inside the negotiated permessage-deflate offer are outside the model (ROut/COut)",
]
RULE = ("server: per-header pools x {no Origin, same Origin}, Origin grammar product (scheme x separator x userinfo x host variant x path) per Host, "
        "subprotocol lists x application policies, window-bits values x side x context-takeover, extension pairs, key lengths across SHA-1 block "
        "boundaries, plus random mostly-valid requests with 0-4 mutated headers; client: extension/subprotocol/status products and random scripted "
        "responses with correct/near-miss Accept values; distinct by the full case")
LEVEL_TEXT = ("Machine-checked (Coq) proofs over an executable model of WebSocketHandler.get / check_origin / _accept_connection / "
              "_process_server_headers: 101 exactly when the required headers, a supported version, the origin check and the extension/subprotocol "
              "negotiation succeed; the default origin check accepts only an Origin whose authority text lower-cases to the Host header; a 101 carries "
              "base64(H(key+GUID)), a subprotocol only from the offered list and a permessage-deflate response only if offered and enabled; the client "
              "accepts only a matching Accept value and only permessage-deflate when it offered it. Two deviations are proved as *_refuted witnesses.")
LEVEL_NOTE = "Trusted: Coq kernel/vm_compute; hand-written models of urlsplit, int(), zlib window-bit limits; C43 header-parameter model; correspondence harness."
TECHNIQUE = "Coq proofs (case analysis, list induction) over an executable Gallina model + differential correspondence through the real server and client over fake streams"
