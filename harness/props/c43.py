"""C43 — HTTP utility parsers and formatters are total and mutually consistent.

One correspondence case = one call of one utility (field "f"):
  req / resp      parse_request_start_line / parse_response_start_line
  hp              split_host_and_port
  cookie          parse_cookie (items in dict order)
  ph              _parse_header
  eh              _encode_header(k, dict(ps)) then _parse_header of the result
  unesc / esc     re_unescape(s)  /  re.escape(s) then re_unescape
  url             url_concat(u, args)
  date            format_timestamp(t) then calendar.timegm(email.utils.parsedate(.))
  ip              is_valid_ip(s)
"""
import calendar
import email.utils
import itertools
import re

from harness import gallina as G

ID = "C43"
COQ_DIRS = ["C43"]
PROPERTY_FILE = "C43/Property.v"
RUN_IMPORTS = "From TV Require Import C43.Model C43.Model2 C43.Spec C43.Run."
RUN_FN = "run_case"
CHECK_FN = "check_case"
INPUT_TYPE = "input"

Tag = G.Tag


# --------------------------------------------------------------------------
# implementation runner
# --------------------------------------------------------------------------
def _start_line_error(e):
    m = str(e)
    if m.startswith("Malformed HTTP request line") or m.startswith("Error parsing response start line"):
        return Tag("Malformed")
    if m.startswith("Unexpected HTTP version"):
        return Tag("BadVersion")
    return Tag("HTTPInputErrorOther")


def _run_parse_header(s):
    """[key, items] ; [Ext2231, key] when an RFC 2231 extended value (a (charset, lang, text)
    tuple) reached collapse_rfc2231_value, whose outcome is not modelled; any exception -> Tag."""
    from tornado import httputil
    seen = []
    orig = email.utils.collapse_rfc2231_value

    def wrap(value, *a, **k):
        if isinstance(value, tuple):
            seen.append(1)
        return orig(value, *a, **k)

    email.utils.collapse_rfc2231_value = wrap
    try:
        try:
            key, d = httputil._parse_header(s)
        except Exception as e:
            return Tag(type(e).__name__)
    finally:
        email.utils.collapse_rfc2231_value = orig
    if seen:
        return [Tag("Ext2231"), key]
    return [key, [[k, v] for k, v in d.items()]]


def run_impl(case):
    from tornado import httputil, netutil, util
    f = case["f"]
    if f == "req":
        try:
            r = httputil.parse_request_start_line(case["s"])
        except httputil.HTTPInputError as e:
            return _start_line_error(e)
        return [r.method, r.path, r.version]
    if f == "resp":
        try:
            r = httputil.parse_response_start_line(case["s"])
        except httputil.HTTPInputError as e:
            return _start_line_error(e)
        return [r.version, r.code, r.reason]
    if f == "hp":
        try:
            h, p = httputil.split_host_and_port(case["s"])
        except Exception as e:
            return Tag(type(e).__name__)
        return [h, p]
    if f == "cookie":
        try:
            d = httputil.parse_cookie(case["s"])
        except Exception as e:
            return Tag(type(e).__name__)
        return [[k, v] for k, v in d.items()]
    if f == "ph":
        return _run_parse_header(case["s"])
    if f == "eh":
        e = httputil._encode_header(case["k"], dict((k, v) for k, v in case["ps"]))
        return [e, _run_parse_header(e)]
    if f == "unesc":
        try:
            return util.re_unescape(case["s"])
        except ValueError:
            return Tag("ValueError")
    if f == "esc":
        e = re.escape(case["s"])
        try:
            return [e, util.re_unescape(e)]
        except ValueError:
            return [e, Tag("ValueError")]
    if f == "url":
        args = [(k, v) for k, v in case["args"]]
        if case.get("as_dict"):
            args = dict(args)
        try:
            return httputil.url_concat(case["s"], args)
        except Exception as e:
            return Tag(type(e).__name__)
    if f == "date":
        try:
            s = httputil.format_timestamp(case["t"])
        except (ValueError, OverflowError, OSError):
            return Tag("OutOfRange")
        tup = email.utils.parsedate(s)
        return [s, calendar.timegm(tup) if tup is not None else None]
    if f == "ip":
        return bool(netutil.is_valid_ip(case["s"]))
    raise ValueError(f)


# --------------------------------------------------------------------------
# Gallina rendering
# --------------------------------------------------------------------------
def _s(x):
    return G.gbytes(x)


def coq_input(case):
    f = case["f"]
    if f in ("req", "resp", "hp", "cookie", "ph", "unesc", "esc", "ip"):
        ctor = {"req": "InReq", "resp": "InResp", "hp": "InHostPort", "cookie": "InCookie", "ph": "InParseHeader",
                "unesc": "InReUnescape", "esc": "InReEscape", "ip": "InValidIp"}[f]
        return "(%s %s)" % (ctor, _s(case["s"]))
    if f == "eh":
        items = ["(%s, %s)" % (_s(k), "(@None str)" if v is None else "(Some %s)" % _s(v)) for k, v in case["ps"]]
        return "(InEncodeHeader %s %s)" % (_s(case["k"]), G.glist(items, "(str * option str)"))
    if f == "url":
        items = ["(%s, %s)" % (_s(k), _s(v)) for k, v in case["args"]]
        return "(InUrlConcat %s %s)" % (_s(case["s"]), G.glist(items, "(str * str)"))
    if f == "date":
        return "(InDate %s)" % G.gz(case["t"])
    raise ValueError(f)


# --------------------------------------------------------------------------
# independent Python oracle (never-raise and the round trips)
# --------------------------------------------------------------------------
_TCHAR = set("!#$%&'*+-.^_`|~0123456789abcdefghijklmnopqrstuvwxyzABCDEFGHIJKLMNOPQRSTUVWXYZ")


def _is_token(s):
    return isinstance(s, str) and len(s) > 0 and all(c in _TCHAR for c in s)


def _is_rt_value(v):
    """needs no quoting: visible ASCII without DQUOTE ; BACKSLASH and not <...> (may be empty)"""
    return (isinstance(v, str) and all(33 <= ord(c) <= 126 and c not in '";\\' for c in v)
            and not (v.startswith("<") and v.endswith(">")))


def py_check(case, o):
    f = case["f"]
    if f in ("hp", "cookie", "ph"):
        return not isinstance(o, Tag)
    if f == "esc":
        return isinstance(o, list) and o[1] == case["s"] and not isinstance(o[1], Tag)
    if f == "eh":
        if isinstance(o[1], Tag):
            return False
        names = [k for k, _ in case["ps"]]
        ok_scope = (_is_token(case["k"]) and len(set(names)) == len(names)
                    and all(_is_token(k) and "*" not in k and k == k.lower() and not any("A" <= c <= "Z" for c in k) for k in names)
                    and all(v is None or _is_rt_value(v) for _, v in case["ps"]))
        if ok_scope:
            want = [[k, v] for k, v in sorted(case["ps"], key=lambda kv: kv[0]) if v is not None]
            return o[1] == [case["k"], want]
        return True
    if f == "date":
        if isinstance(o, Tag):
            return not (-62135596800 <= case["t"] <= 253402300799)
        return o[1] == case["t"] or case["t"] < DATE_RT_MIN
    return True


DATE_RT_MIN = -59011459200   # 0100-01-01: email.utils.parsedate maps years < 100 to 19xx/20xx


# --------------------------------------------------------------------------
# generators
# --------------------------------------------------------------------------
INTERESTING = [0, 9, 10, 11, 13, 28, 31, 32, 33, 34, 37, 39, 42, 43, 45, 46, 47, 48, 49, 57, 58, 59, 60, 61, 62, 65, 70,
               71, 90, 92, 95, 97, 102, 103, 122, 126, 127, 128, 133, 160, 173, 192, 215, 222, 223, 255, 256, 0x663,
               0x6F0, 0x1680, 0x2003, 0x2028, 0x3000, 0x4E2D, 0xD800, 0xFF10, 0xFFFD, 0x1F600, 0x10FFFF]
ND_ZEROS = [48, 1632, 1776, 1984, 2406, 2534, 2662, 2790, 2918, 3046, 3174, 3302, 3430, 3558, 3664, 3792, 3872, 4160, 4240,
            6112, 6160, 6470, 6608, 6784, 6800, 6992, 7088, 7232, 7248, 42528, 43216, 43264, 43472, 43504, 43600, 44016,
            65296, 66720, 68912, 69734, 69872, 69942, 70096, 70384, 70736, 70864, 71248, 71360, 71472, 71904, 72016, 72784,
            73040, 73120, 73552, 92768, 92864, 93008, 120782, 120792, 120802, 120812, 120822, 123200, 123632, 124144,
            125264, 130032]
TOKEN_CHARS = "!#$%&'*+-.^_`|~09azAZ"
SPACES = [9, 10, 11, 12, 13, 28, 31, 32, 133, 160, 5760, 8192, 8202, 8232, 8233, 8239, 8287, 12288]


def _rs(rng, alphabet, lo, hi):
    return "".join(rng.choice(alphabet) for _ in range(rng.randrange(lo, hi + 1)))


def _chars(cps):
    return [chr(c) for c in cps]


def _mutate(rng, s, alphabet):
    """one random edit: replace / insert / delete / duplicate / swap"""
    if not s:
        return rng.choice(alphabet)
    i = rng.randrange(len(s))
    k = rng.randrange(5)
    if k == 0:
        return s[:i] + rng.choice(alphabet) + s[i + 1:]
    if k == 1:
        return s[:i] + rng.choice(alphabet) + s[i:]
    if k == 2:
        return s[:i] + s[i + 1:]
    if k == 3:
        return s[:i] + s[i] + s[i:]
    j = rng.randrange(len(s))
    l = list(s)
    l[i], l[j] = l[j], l[i]
    return "".join(l)


def mk(f, s=None, **kw):
    d = {"f": f}
    if s is not None:
        d["s"] = s
    d.update(kw)
    return d


# ---- start lines ----
METHODS = ["GET", "POST", "M-SEARCH", "a", "!#$%&'*+-.^_`|~", "OPTIONS", "get", "G3T"]
TARGETS = ["/", "*", "/a/b?c=d&e=%20", "http://example.com:80/x", "/\xe9\xff\x80", "/;x", "a:b", "/\x7e\x21"]
VERSIONS = ["HTTP/1.1", "HTTP/1.0", "HTTP/1.9", "HTTP/2.0", "HTTP/0.9", "HTTP/9.9"]
REASONS = ["OK", "Not Found", "", " ", "\t", "a  b\t", "\xe9t\xe9", "Switching Protocols", "x" * 20]


def gen_req(rng, tier, n):
    out = []
    alpha = _chars(INTERESTING)
    for _ in range(n):
        r = rng.random()
        m = rng.choice(METHODS) if rng.random() < 0.6 else _rs(rng, TOKEN_CHARS, 1, 8)
        t = rng.choice(TARGETS) if rng.random() < 0.5 else _rs(rng, [chr(c) for c in range(33, 127)] + _chars([128, 200, 255]), 1, 12)
        v = rng.choice(VERSIONS) if rng.random() < 0.7 else "HTTP/%d.%d" % (rng.randrange(10), rng.randrange(10))
        s = m + " " + t + " " + v
        if r < 0.45:
            pass
        elif r < 0.85:
            for _ in range(rng.choice([1, 1, 2, 3])):
                s = _mutate(rng, s, alpha)
        else:
            s = _rs(rng, _chars([32, 71, 47, 72, 84, 80, 49, 46, 9, 233, 256]), 0, 14)
        out.append(mk("req", s))
    return out


def enum_req(full):
    ms = ["", "A", "A!", "A("]
    seps = [" ", "  ", "\t", ""]
    ts = ["", "/", "/\xe9", "/\u0100", "/ x", "/\x7f"]
    vs = ["HTTP/1.1", "HTTP/1.0", "HTTP/2.0", "HTTP/1.", "HTTP/11.1", "http/1.1", "HTTP/1.1 ", "HTTP/1.\u0663", "HTTP/1,1",
          "HTTP/1.1\n"]
    seps2 = [" ", "  ", ""]
    out = [mk("req", m + a + t + b + v) for m in ms for a in seps for t in ts for b in seps2 for v in vs]
    sweep = list(range(0, 0x180)) + INTERESTING + ND_ZEROS[:12]
    for c in sweep:
        ch = chr(c)
        out.append(mk("req", "G" + ch + "T / HTTP/1.1"))
        out.append(mk("req", "GET /" + ch + " HTTP/1.1"))
        if full:
            out.append(mk("req", "GET / HTTP/1." + ch))
            out.append(mk("req", "GET / HTTP/" + ch + ".1"))
            out.append(mk("req", "GET" + ch + "/ HTTP/1.1"))
    return out


def gen_resp(rng, tier, n):
    out = []
    alpha = _chars(INTERESTING)
    for _ in range(n):
        r = rng.random()
        v = rng.choice(VERSIONS) if rng.random() < 0.7 else "HTTP/%d.%d" % (rng.randrange(10), rng.randrange(10))
        code = "%03d" % rng.randrange(1000) if rng.random() < 0.85 else _rs(rng, "0123456789", 0, 5)
        if code and rng.random() < 0.08:
            i = rng.randrange(len(code))
            code = code[:i] + chr(rng.choice(ND_ZEROS[1:]) + rng.randrange(10)) + code[i + 1:]
        reason = rng.choice(REASONS) if rng.random() < 0.6 else _rs(rng, [chr(c) for c in range(32, 127)] + _chars([9, 128, 255]), 0, 12)
        s = v + " " + code + " " + reason
        if r < 0.45:
            pass
        elif r < 0.55:
            s = v + " " + code           # no second space
        elif r < 0.9:
            for _ in range(rng.choice([1, 1, 2, 3])):
                s = _mutate(rng, s, alpha)
        else:
            s = _rs(rng, _chars([32, 72, 84, 80, 47, 49, 46, 50, 48, 9, 233, 256]), 0, 16)
        out.append(mk("resp", s))
    return out


def enum_resp(full):
    vs = ["HTTP/1.1", "HTTP/2.0", "HTTP/1.", "HTTP/11.1", "http/1.1", "HTTP/1.\u0663", ""]
    seps = [" ", "  ", "\t", ""]
    seps2 = [" ", "  ", ""]
    codes = ["200", "20", "2000", "2 0", "2\u06630", "-00", "20a", ""]
    rs = ["", "OK", " ", "a\tb ", "\x7f", "\u0100", "\xff", "a\nb"]
    out = [mk("resp", v + a + c + b + r) for v in vs for a in seps2 for c in codes for r in rs for b in (seps if r == "OK" else seps2)]
    sweep = list(range(0, 0x180)) + INTERESTING + ND_ZEROS[:12]
    for c in sweep:
        ch = chr(c)
        out.append(mk("resp", "HTTP/1.1 200 O" + ch + "K"))
        out.append(mk("resp", "HTTP/1.1 2" + ch + "0 OK"))
        if full:
            out.append(mk("resp", "HTTP/1.1 200" + ch + "OK"))
            out.append(mk("resp", "HTTP/1." + ch + " 200 OK"))
            out.append(mk("resp", "HTTP/1.1 20" + ch))
    return out


# ---- host / port ----
HOSTS = ["example.com", "[::1]", "", "a:b", "h\n", "1.2.3.4", "\u4e2d\u6587", "[fe80::1%lo]", ":", "a\rb", "a\u2028b", " "]
PORTS = ["80", "0080", "0", "65536", "\u0663\u0664", "8\u0663", "", "8a", "-1", "+1", " 80", "8 0", "80 ", "\uff18\uff10",
         "8\u00b2", "1" * 25, "\U0001d7ce\U0001d7d7", "\u0665" * 5]


def gen_hp(rng, tier, n):
    out = []
    alpha = _chars(INTERESTING + ND_ZEROS[:8])
    for _ in range(n):
        r = rng.random()
        h = rng.choice(HOSTS) if rng.random() < 0.7 else _rs(rng, alpha, 0, 6)
        if rng.random() < 0.7:
            p = rng.choice(PORTS)
        else:
            p = "".join(chr(rng.choice(ND_ZEROS) + rng.randrange(10)) for _ in range(rng.randrange(1, 6)))
        s = h + ":" + p
        if r < 0.5:
            pass
        elif r < 0.6:
            s = s + rng.choice(["\n", "\n\n", "\r\n", "\r", "\u2028", "\n "])
        elif r < 0.7:
            s = h
        elif r < 0.9:
            s = _mutate(rng, s, alpha)
        else:
            s = _rs(rng, _chars([58, 48, 57, 97, 10, 0x663]), 0, 8)
        out.append(mk("hp", s))
    return out


def enum_hp(full):
    out = []
    for z in ND_ZEROS:
        for c in (z - 1, z, z + 5, z + 9, z + 10):
            out.append(mk("hp", "h:" + chr(c)))
            if full:
                out.append(mk("hp", "h:1" + chr(c) + "2"))
    if full:
        for z in ND_ZEROS:
            for i in range(10):
                out.append(mk("hp", "h:" + chr(z + i) + "0"))
        for c in range(0, 0x200):
            out.append(mk("hp", "h:" + chr(c)))
            out.append(mk("hp", "h" + chr(c) + ":8"))
            out.append(mk("hp", "h:8" + chr(c)))
        alpha = ["a", ":", "1", "\n", "\u0663"]
        for L in range(0, 6):
            for t in itertools.product(alpha, repeat=L):
                out.append(mk("hp", "".join(t)))
    if full:
        # the int() conversion limit (4300 digits): at it (4301, above it, is a corpus case)
        out.append(mk("hp", "a:" + "7" * 4300))
    return out


# ---- cookies ----
def gen_cookie(rng, tier, n):
    out = []
    sp = _chars(SPACES)
    alpha = _chars([97, 98, 61, 59, 32, 34, 92, 48, 49, 51, 52, 55, 56, 10, 0x2003, 233, 0x1F600])
    for _ in range(n):
        r = rng.random()
        if r < 0.75:
            parts = []
            for _ in range(rng.randrange(0, 5)):
                k = rng.choice(["a", "b", "a", "", "k y", "K", "\u00e9"]) if rng.random() < 0.8 else _rs(rng, alpha, 0, 3)
                vk = rng.random()
                if vk < 0.3:
                    v = _rs(rng, "abc012=", 0, 5)
                elif vk < 0.75:
                    body = "".join(rng.choice(["a", "\\", "\\\\", "\\\"", "\\073", "\\377", "\\400", "\\08", "\\12", "\\\n", ";", "=", " ", "\"", "\u00e9", "\\1234"])
                                   for _ in range(rng.randrange(0, 6)))
                    v = '"' + body + '"'
                else:
                    v = rng.choice(['"', '""', '"a', 'a"', "", "\\073"])
                pad = lambda: _rs(rng, sp, 0, 2)
                if rng.random() < 0.85:
                    parts.append(pad() + k + pad() + "=" + pad() + v + pad())
                else:
                    parts.append(pad() + v + pad())
            s = ";".join(parts)
            if rng.random() < 0.3:
                s = _mutate(rng, s, alpha)
        else:
            s = _rs(rng, alpha, 0, 12)
        out.append(mk("cookie", s))
    return out


def enum_cookie(full):
    alpha = ["a", "=", ";", '"', "\\", "1", " "]
    out = []
    for L in range(0, 5 if full else 4):
        for t in itertools.product(alpha, repeat=L):
            out.append(mk("cookie", "".join(t)))
    if full:
        for a in "0123478":
            for b in "0178":
                for c in "0178":
                    out.append(mk("cookie", 'k="\\%s%s%s"' % (a, b, c)))
        for c in range(0, 0x100):
            out.append(mk("cookie", 'k="\\' + chr(c) + '"'))
            out.append(mk("cookie", chr(c) + "k" + chr(c) + "=" + chr(c) + "v" + chr(c)))
        for c in SPACES + INTERESTING:
            out.append(mk("cookie", chr(c) + "k" + chr(c) + "=" + chr(c) + "v" + chr(c)))
    return out


# ---- header parameters ----
def _ph_alpha():
    return [chr(c) for c in INTERESTING if c < 256 or chr(c).lower() == chr(c)]


CHARSETS = ["utf-8", "UTF-8", "latin-1", "iso-8859-1", "us-ascii", "x-unknown", "", "idna", "undefined", "b\x00c", "hex", "utf-16", "punycode"]


def gen_ph(rng, tier, n):
    out = []
    alpha = _ph_alpha()
    small = ["a", "B", "=", ";", '"', "\\", "*", "0", "1", "'", "%", " ", "<", ">", "\u00c9", "\u4e2d", "_"]
    sp = _chars(SPACES)
    for _ in range(n):
        r = rng.random()
        if r < 0.8:
            key = rng.choice(["form-data", "text/html", "permessage-deflate", "", "a b", 'x"y', "K\u00c9Y"])
            parts = [key]
            for _ in range(rng.randrange(0, 5)):
                nk = rng.random()
                base = rng.choice(["a", "b", "name", "file_1", "A", "a-b", "\u00c9", "a.b"])
                if nk < 0.5:
                    name = base
                elif nk < 0.62:
                    name = base + "*"
                elif nk < 0.8:
                    name = base + "*" + rng.choice(["0", "1", "2", "00", "01", "10", "9" * 30]) + rng.choice(["", "", "*"])
                else:
                    name = base + rng.choice(["**", "*x", "*1x", "*1**", "* 1", "*\u0663", "", "*-1", "*+1"])
                vk = rng.random()
                if vk < 0.3:
                    v = _rs(rng, "abcXYZ019-_.%'*", 0, 6)
                elif vk < 0.6:
                    body = "".join(rng.choice(["a", "\\", "\\\\", '\\"', ";", "=", " ", '"', "\u00e9", "\\\\\\", "'", "%41"]) for _ in range(rng.randrange(0, 6)))
                    v = '"' + body + '"'
                elif vk < 0.7:
                    v = "<" + _rs(rng, "ab\"\\>", 0, 4) + ">"
                elif vk < 0.9:
                    v = rng.choice(CHARSETS) + "'" + rng.choice(["", "en"]) + "'" + "".join(rng.choice(["a", "%41", "%e4", "%C3%A4", "%", "%zz", "'", " "]) for _ in range(rng.randrange(0, 5)))
                else:
                    v = rng.choice(['"', '""', '"a', 'a"', "", '"\\"', '"""', "<", "<>", '"<a>"'])
                pad = lambda: _rs(rng, sp, 0, 1)
                if rng.random() < 0.9:
                    parts.append(pad() + name + pad() + "=" + pad() + v + pad())
                else:
                    parts.append(pad() + name + pad())
            s = ";".join(parts)
            if rng.random() < 0.3:
                s = _mutate(rng, s, small)
        elif r < 0.9:
            s = _rs(rng, small, 0, 14)
        else:
            s = _rs(rng, alpha, 0, 10)
        out.append(mk("ph", s))
    return out


def enum_ph(full):
    out = []
    alpha = ["a", "=", ";", '"', "\\", "*", "0"]
    for L in range(0, 5 if full else 3):
        for t in itertools.product(alpha, repeat=L):
            out.append(mk("ph", "k;" + "".join(t)))
    if full:
        alpha2 = ['"', "\\", ";", "<", ">", "a"]
        for L in range(0, 5):
            for t in itertools.product(alpha2, repeat=L):
                out.append(mk("ph", "k; n=" + "".join(t)))
        names = ["a*", "a*0", "a*1", "a*0*", "a*1*", "a", "b*0", "a*00"]
        for t in itertools.product(names, repeat=3):
            out.append(mk("ph", "k; " + "; ".join("%s=v%d" % (nm, i) for i, nm in enumerate(t))))
        for c in range(0, 0x100):
            out.append(mk("ph", "k" + chr(c) + "; " + chr(c) + "N" + chr(c) + "=" + chr(c) + "v" + chr(c)))
    if full:
        # section numbers at the int() conversion limit (4301, above it, is a corpus case)
        out.append(mk("ph", "k; a*" + "1" * 4300 + "=b; c=d"))
    return out


def gen_eh(rng, tier, n):
    out = []
    tok = "abcxyz019-_.!#$%&'+^`|~"
    for _ in range(n):
        r = rng.random()
        key = rng.choice(["permessage-deflate", "form-data", "a", "x-webkit-deflate-frame"]) if rng.random() < 0.6 else _rs(rng, tok + "AZ", 1, 8)
        ps = []
        names = set()
        for _ in range(rng.randrange(0, 6)):
            name = rng.choice(["client_max_window_bits", "server_no_context_takeover", "a", "b", "ab", "a-b", "name", "z", "0"]) if rng.random() < 0.6 else _rs(rng, tok, 1, 6)
            if r > 0.8:
                name = rng.choice([name, name + "*", name.upper(), name + "*0", " " + name, name + "=", name + ";", ""])
            if name in names:
                continue
            names.add(name)
            vk = rng.random()
            if vk < 0.2:
                v = None
            elif vk < 0.85 or r <= 0.8:
                v = _rs(rng, tok + "AZ*", 1, 8)
            else:
                v = rng.choice(["", "a b", '"q"', "a;b", "a\\b", '"', "<x>", "\u00e9", " x ", 'a"b'])
            if r <= 0.8 and rng.random() < 0.3:
                # values that are not tokens but need no quoting
                v = rng.choice(["", "a=b", "<", ">", "<a", "a>", "a/b", "(x)", "[1,2]", "x:y@z", "{?}", "=", "a<b>"])
            ps.append([name, v])
        if r > 0.9:
            key = rng.choice([key, " " + key, key + ";", key + '"', "", key + " "])
        out.append(mk("eh", None, k=key, ps=ps))
    return out


# ---- re.escape / re_unescape ----
def gen_re(rng, tier, n):
    out = []
    alpha = _chars(INTERESTING)
    small = ["a", "Z", "0", "\\", ".", "\n", " ", "\u00e9", "_", "-", "\u0663"]
    for _ in range(n):
        r = rng.random()
        if r < 0.35:
            out.append(mk("esc", _rs(rng, alpha, 0, 12)))
        elif r < 0.5:
            out.append(mk("esc", _rs(rng, [chr(c) for c in range(0, 128)], 0, 16)))
        elif r < 0.8:
            out.append(mk("unesc", _rs(rng, small, 0, 10)))
        else:
            out.append(mk("unesc", _mutate(rng, re.escape(_rs(rng, alpha, 0, 8)), small)))
    return out


def enum_re(full):
    out = [mk("esc", chr(c)) for c in list(range(0, 0x100 if full else 0x80)) + INTERESTING]
    alpha = ["a", "\\", ".", "0", "\n"]
    for L in range(0, 6 if full else 4):
        for t in itertools.product(alpha, repeat=L):
            out.append(mk("unesc", "".join(t)))
    if full:
        for c in range(0, 0x180):
            out.append(mk("unesc", "\\" + chr(c)))
    return out


# ---- url_concat (simple heads; arbitrary Unicode in query, fragment and arguments) ----
HEADS = ["http://example.com/foo", "https://a.b-c.com:8080/x/y.z", "/", "/path/to", "", "http://h", "/a%20b", "/a@b,c=d&e!$'()*+",
         "https://h/", "/a//b"]
QPIECES = ["a=b", "c", "=d", "e=", "a=b=c", "x=%41%7e%2B%26", "%zz=1", "sp=a+b", "%", "%4", "k=%25", "a=1", "a=2", "=", "q=a%3Db",
           "t=%7E~", "p=%2b+", "h=%23",
           # UTF-8: valid, raw, truncated, overlong, surrogate, beyond U+10FFFF, stray continuation, split by a raw character
           "u=%C3%A9", "u=\u00e9", "e=%E2%82%AC", "g=%F0%9F%98%80", "t=%E2%82", "t=%E2", "t=%F0%9F%98", "o=%C0%AF", "o=%E0%80%AF",
           "s=%ED%A0%80", "b=%F4%90%80%80", "b=%F5%80", "c=%80", "c=%BF%41", "m=%C3\u00e9%A9", "m=%E2%82%41", "m=%E2%41%82",
           "m=%F0%9F%41", "\u4e2d=\U0001f600", "%C3%A9=%c3%a9", "n=\u00e9+%2B", "r=\ufffd", "x=%FF%FE", "f=%F0%90%80%80", "l=%EF%BF%BF"]
ARG_CHARS = [chr(c) for c in range(32, 127)]
UNI_CHARS = _chars([0x80, 0xE9, 0xFF, 0x100, 0x7FF, 0x800, 0x20AC, 0xD7FF, 0xE000, 0xFFFD, 0xFFFF, 0x10000, 0x1F600, 0x10FFFF])


def gen_url(rng, tier, n):
    out = []
    for _ in range(n):
        head = rng.choice(HEADS)
        u = head
        r = rng.random()
        if r < 0.7:
            nq = rng.randrange(0, 5)
            q = rng.choice(["&", "&&", "&"]).join(rng.choice(QPIECES) if rng.random() < 0.8 else _rs(rng, list("xy=&%+417 ~cCeEfF8aA9b") + UNI_CHARS[:4], 0, 8) for _ in range(nq))
            if rng.random() < 0.15:
                q = "&" + q + "&"
            u += "?" + q
        elif r < 0.8:
            u += "?"
        fr = rng.random()
        if fr < 0.3:
            u += "#" + rng.choice(["frag", "", "a?b", "a#b", "x=y&z", "%41", " s", "\u00e9\U0001f600", "%C3"])
        if rng.random() < 0.1:
            u = rng.choice([" ", "\n", "\x00 "]) + u
        if rng.random() < 0.1 and "?" in u:
            i = rng.randrange(u.index("?"), len(u) + 1)
            u = u[:i] + rng.choice(["\t", "\n", "\r"]) + u[i:]
        args = []
        for _ in range(rng.choice([0, 1, 1, 2, 3])):
            k = rng.choice(["c", "a", "k y", "", "x&y", "e=f", "p+q", "h#i", "%41", "~._-", "\u00e9", "\u4e2d\u6587"]) if rng.random() < 0.7 else _rs(rng, ARG_CHARS + UNI_CHARS, 0, 5)
            v = rng.choice(["d", "", "d e", "1&2", "a=b", "50%", "?", "/x", "~", "\u20ac 5", "\U0001f600"]) if rng.random() < 0.6 else _rs(rng, ARG_CHARS + UNI_CHARS + ["\x00", "\x7f", "\n"], 0, 6)
            if rng.random() < 0.04:
                v += rng.choice(["\ud800", "\udfff", "\udc80"])      # lone surrogate: UnicodeEncodeError
            args.append([k, v])
        if rng.random() < 0.03 and "?" in u and "#" not in u:
            u += "&s=\udcff"
        keys = [k for k, _ in args]
        out.append(mk("url", u, args=args, as_dict=(len(set(keys)) == len(keys) and rng.random() < 0.3)))
    return out


def enum_url(full):
    out = []
    for c in range(0, 128):
        out.append(mk("url", "/p?a=b", args=[[chr(c), "v" + chr(c)]]))
        if full:
            out.append(mk("url", "/p?k" + ("" if chr(c) in "#" else chr(c)) + "=1", args=[]))
    for c in (range(0, 256) if full else range(0x7E, 0x100, 3)):
        out.append(mk("url", "/p?k=%" + "%02x" % c, args=[["z", ""]]))
    boundary = [0x7F, 0x80, 0x7FF, 0x800, 0xFFF, 0x1000, 0xD7FF, 0xD800, 0xDFFF, 0xE000, 0xFFFF, 0x10000, 0x3FFFF, 0x40000, 0xFFFFF, 0x100000, 0x10FFFF]
    for c in boundary:
        out.append(mk("url", "/p", args=[[chr(c), "x" + chr(c)]]))
        out.append(mk("url", "/p?q=%41" + chr(c) + "%42", args=[] if 0xD800 <= c <= 0xDFFF else [["n", "v"]]))
    if full:
        alpha = ["x", "=", "&", "%", "4", "1", "+"]
        for L in range(0, 5):
            for t in itertools.product(alpha, repeat=L):
                out.append(mk("url", "/p?" + "".join(t), args=[["n", "v"]]))
        # every pair of bytes after a lead byte class representative, and selected triples
        leads = [0x41, 0x80, 0xBF, 0xC0, 0xC2, 0xDF, 0xE0, 0xE1, 0xED, 0xEF, 0xF0, 0xF1, 0xF4, 0xF5, 0xFF]
        seconds = [0x41, 0x7F, 0x80, 0x8F, 0x90, 0x9F, 0xA0, 0xBF, 0xC0, 0xFF]
        for a in leads:
            for b in seconds:
                out.append(mk("url", "/p?k=%%%02X%%%02X" % (a, b), args=[]))
                for c in (0x41, 0x80, 0xBF, 0xC2):
                    out.append(mk("url", "/p?k=%%%02X%%%02X%%%02X" % (a, b, c), args=[]))
                    if a >= 0xF0:
                        for d in (0x41, 0x80, 0xBF):
                            out.append(mk("url", "/p?k=%%%02X%%%02X%%%02X%%%02X" % (a, b, c, d), args=[]))
    return out


# ---- dates ----
def gen_date(rng, tier, n):
    out = []
    edges = [0, 1, -1, 86399, 86400, 951782400, 951868800, 951782399, 2 ** 31 - 1, 2 ** 31, 2 ** 32 - 1, 2 ** 32, 1359312200,
             253402300799, 253402300800, -62135596800, -62135596801, DATE_RT_MIN, DATE_RT_MIN - 1, 4102444800, 4107542400,
             4107456000, 13569465600, 10 ** 12, -10 ** 12, 68256000, 1078012800]
    for t in edges:
        out.append(mk("date", None, t=t))
    for _ in range(n):
        r = rng.random()
        if r < 0.6:
            t = rng.randrange(0, 2 ** 32)
        elif r < 0.8:
            # around a month / year boundary
            y = rng.randrange(100, 10000)
            m = rng.randrange(1, 13)
            t = calendar.timegm((y, m, 1, 0, 0, 0)) + rng.choice([-86401, -86400, -1, 0, 1, 86399, 86400, 28 * 86400, 29 * 86400 - 1])
        else:
            t = rng.randrange(DATE_RT_MIN, 253402300800)
        out.append(mk("date", None, t=t))
    return out


def enum_date(full):
    out = []
    if full:
        # every day of the 2096-2104 span (century non-leap year 2100) and of 1999-2001 (leap 2000)
        for y0, y1 in ((2099, 2101), (1999, 2001)):
            t = calendar.timegm((y0, 1, 1, 0, 0, 0))
            end = calendar.timegm((y1, 1, 1, 0, 0, 0))
            while t < end:
                out.append(mk("date", None, t=t + 43200))
                t += 86400
        # first and last second of every month over four centuries
        for y in range(1900, 2300, 5):
            for m in range(1, 13):
                t = calendar.timegm((y, m, 1, 0, 0, 0))
                out.append(mk("date", None, t=t))
                out.append(mk("date", None, t=t - 1))
    return out


# ---- is_valid_ip: decisive classes only ----
def _v4(rng):
    return ".".join(str(rng.choice([0, 1, 9, 10, 99, 100, 127, 199, 200, 249, 250, 255, rng.randrange(256)])) for _ in range(4))


def _v4long(rng):
    return ".".join(str(rng.choice([100, 127, 192, 199, 200, 249, 250, 255, rng.randrange(100, 256)])) for _ in range(4))


def _v6full(rng):
    """uncompressed forms with leading zeros: 8 four-digit groups (39 chars) or 6 groups + dotted quad (up to 45)"""
    def g4():
        return rng.choice(["0000", "ffff", "FFFF", "00a0", "dead", "%04x" % rng.randrange(65536), "%04X" % rng.randrange(65536)])
    if rng.random() < 0.7:
        return ":".join([g4() for _ in range(6)] + [_v4long(rng) if rng.random() < 0.8 else _v4(rng)])
    return ":".join(g4() for _ in range(8))


def _v6(rng):
    if rng.random() < 0.3:
        return _v6full(rng)

    def grp():
        return rng.choice(["0", "1", "ffff", "FFFF", "a", "dead", "BeeF", "%x" % rng.randrange(65536), "0000", "00a"])
    total = 8
    tail4 = rng.random() < 0.2
    if tail4:
        total = 6
    if rng.random() < 0.6:
        n = rng.randrange(0, total)       # groups present, at most total-1 with '::'
        k = rng.randrange(0, n + 1)
        left = [grp() for _ in range(k)]
        right = [grp() for _ in range(n - k)]
        if tail4:
            right.append(_v4(rng))
        return ":".join(left) + "::" + ":".join(right)
    gs = [grp() for _ in range(total)]
    if tail4:
        gs.append(_v4(rng))
    return ":".join(gs)


HOSTNAMES = ["localhost", "example.com", "www.tornadoweb.org", "a-b.example", "host", "xn--p1ai", "zz", "1.2.3.4.example", "g", "face.book.org",
             "my_host", "1.2.3.4 ", " 1.2.3.4", "1.2.3.4\n", "::1 ", "[::1]", "1.2.3.4/8", "::g", "1.2.3.z", "hello world", "-", "_", "~"]


def gen_ip(rng, tier, n):
    out = [mk("ip", ""), mk("ip", "\x00"), mk("ip", "1.2.3.4\x00"), mk("ip", "\x001.2.3.4"), mk("ip", "::1\x00"), mk("ip", "a\x00b"),
           mk("ip", "::"), mk("ip", "::1"), mk("ip", "0.0.0.0"), mk("ip", "255.255.255.255"), mk("ip", "::ffff:1.2.3.4"),
           mk("ip", "1:2:3:4:5:6:7:8"), mk("ip", "1:2:3:4:5:6:7::"), mk("ip", "::2:3:4:5:6:7:8"), mk("ip", "1:2:3:4:5:6:1.2.3.4")]
    # plain IPv6 text forms of every length class 2..45 (39 = longest pure-hex form, 40..45 = uncompressed
    # IPv4-embedded forms), and 46+ character junk as the rejected control
    for s6 in ["::", "::1", "1::", "ffff:ffff:ffff:ffff:ffff:ffff:ffff:ffff", "0000:0000:0000:0000:0000:0000:0000:0001",
               "0000:0000:0000:0000:0000:ffff:1.2.3.4", "0000:0000:0000:0000:0000:ffff:10.2.3.4", "0000:0000:0000:0000:0000:ffff:10.20.3.4",
               "0000:0000:0000:0000:0000:ffff:10.20.30.4", "0000:0000:0000:0000:0000:ffff:10.20.30.40", "0000:0000:0000:0000:0000:ffff:192.20.30.40",
               "0000:0000:0000:0000:0000:ffff:192.168.30.40", "0000:0000:0000:0000:0000:ffff:192.168.100.40",
               "0000:0000:0000:0000:0000:ffff:192.168.100.200", "FFFF:FFFF:FFFF:FFFF:FFFF:FFFF:255.255.255.255",
               "::ffff:255.255.255.255", "::255.255.255.255", "0000:0000:0000:0000:0000::255.255.255.255", "64:ff9b::192.168.100.200",
               "0000:0000:0000:0000:0000:ffff:192.168.100.200z", "0000:0000:0000:0000:0000:ffff:192.168.100.200 ",
               "g000:0000:0000:0000:0000:ffff:192.168.100.200", "a-very-long-host-name-of-more-than-forty-six-characters.example.org",
               "0000:0000:0000:0000:0000:ffff:192.168.100.200/128",
               # non-ASCII text is rejected before the resolver (IDNA would map fullwidth/superscript digits)
               "\uff11.\uff12.\uff13.\uff14", "1.2.3.\u0664", "\u00b9.2.3.4", "ex\u00e4mple.com", "::1\u00a0", "\u4e2d\u6587", "1.2.3.4\ud800"]:
        out.append(mk("ip", s6))
    for _ in range(n):
        r = rng.random()
        if r < 0.3:
            out.append(mk("ip", _v4(rng)))
        elif r < 0.65:
            out.append(mk("ip", _v6(rng)))
        elif r < 0.75:
            s = rng.choice([_v4(rng), _v6(rng)])
            i = rng.randrange(len(s) + 1)
            out.append(mk("ip", s[:i] + "\x00" + s[i:]))
        elif r < 0.9:
            out.append(mk("ip", rng.choice(HOSTNAMES)))
        else:
            # a numeric address damaged by a character outside [0-9a-fA-FxX.:%]
            s = rng.choice([_v4(rng), _v6(rng), _v6full(rng)])
            i = rng.randrange(len(s) + 1)
            out.append(mk("ip", s[:i] + rng.choice("ghzGZ _-/[]\n\t,;@") + s[i:]))
    return out


def coq_select(i, case):
    # the at-the-limit netloc (4300 digits) yields a 4300-digit integer literal in the observable, which
    # coqc takes minutes to read; it is run on the implementation (never-raise oracle) but not in Coq.
    # The over-the-limit witness (4301 digits, no port) is a corpus case and is evaluated in Coq.
    return not (case["f"] == "hp" and len(case.get("s", "")) == 4302 and case["s"].endswith("7" * 4300))


def corpus_cases():
    return [
        # witnesses of the defects fixed by commits 7556c41 / deca566 (all used to raise)
        mk("ph", "x; a*=b; a*0=c"),
        mk("ph", "x; a*1*=b; a*=c"),
        mk("ph", "x; a*=b\x00c'en'val"),
        mk("ph", "x; a*=idna''abc"),
        mk("ph", "x; a*=undefined''abc"),
        mk("ph", "form-data; name=f; filename*=utf\x008''abc"), mk("ph", "attachment; filename*0*=\x00'en'a%20b; filename*1=c"),
        mk("ph", "form-data; name=f; filename*=\ud800''abc"),
        mk("ph", "x; a*" + "1" * 4301 + "=b"),
        mk("hp", "a:" + "1" * 4301),
        # doctests and tests of the repository
        mk("ph", 'form-data; foo="b\\\\a\\"r"; file*=utf-8\'\'T%C3%A4st'),
        mk("ph", 'form-data; name="files"; filename="ab;c.txt"'),
        mk("eh", None, k="permessage-deflate", ps=[["client_max_window_bits", "15"], ["client_no_context_takeover", None]]),
        mk("eh", None, k="form-data", ps=[["name", "a=b/c"], ["x", ""], ["y", "<"], ["z", "<q>"]]),
        # commit 8596f7f: a quoted value ending in an escaped backslash no longer swallows the next parameter
        mk("ph", 'form-data; name="a\\\\"; filename="f.txt"'), mk("ph", 'x; a="b;c\\'), mk("ph", 'x; a="b\\";c"; d="e;f'),
        mk("ph", 'x; a=b"c;d"e; f'), mk("ph", 'x; a="\\\n;"; b=1'),
        # commit 69a3466: a quoted value containing quotes keeps them; RFC 2231 values are unquoted once
        mk("ph", 'x; name="\\"x\\""'), mk("ph", 'x; name="a\\\\b"; f*0="p\\"q"; f*1=r'), mk("ph", "x; a*=utf-8''%22q%22%5C"),
        mk("req", "GET /foo HTTP/1.1"), mk("resp", "HTTP/1.1 200 OK"), mk("resp", "HTTP/1.1 200 "), mk("resp", "HTTP/1.1 200"),
        mk("resp", "HTTP/1.1 2\u06630 OK"), mk("resp", "HTTP/1.\u0663 200 OK"), mk("req", "GET / HTTP/1.\u0663"), mk("req", "GET / HTTP/\uff11.1"),
        mk("req", "GET / HTTP/2.0"), mk("req", "GET / HTTP/1.1\n"), mk("req", "GET /\xff HTTP/1.1"), mk("req", "GET /\u0100 HTTP/1.1"),
        mk("hp", "a:80\n"), mk("hp", "a:b:\u0663\u0664"), mk("hp", "[::1]:8080"), mk("hp", "example.com:"),
        mk("cookie", 'a=b; a=c; =d; e; \u2003f\u3000="x\\073\\\n\\q"'),
        mk("url", "http://example.com/foo?a=b", args=[["c", "d"], ["c", "d2"]], as_dict=False),
        mk("url", "http://example.com/foo", args=[["c", "d"]], as_dict=True),
        mk("url", "/x?a=b&&c&=d&e=%zz%41+#frag?x#y", args=[["c", "d e"]], as_dict=False),
        mk("url", "http://a/x?a=b&&c&=d&e=%zz%41+#frag?x#y", args=[["c", "d e"], ["\u00e9", "\u20ac"]], as_dict=False),
        mk("url", "/p?k=%C3%A9&t=%E2%82&s=%ED%A0%80&m=%C3\u00e9%A9#\u00e9", args=[["\U0001f600", "x"]], as_dict=False),
        mk("url", "/p?a=b", args=[["k", "\ud800"]], as_dict=False),
        mk("date", None, t=1359312200),
        mk("esc", "a.b c\u00e9_\x00"), mk("unesc", "\\a"), mk("unesc", "a\\"),
        mk("ip", "127.0.0.1"), mk("ip", "4.4.4.4"), mk("ip", "::1"), mk("ip", "2620:0:1cfe:face:b00c::3"),
        mk("ip", "www.google.com"), mk("ip", "localhost"), mk("ip", "4.4.4.4<"), mk("ip", " 127.0.0.1"), mk("ip", ""), mk("ip", " "),
        mk("ip", "\n"), mk("ip", "\x00"),
    ]


def gen_cases(rng, tier):
    full = tier != "quick"
    k = 1 if not full else 5
    out = []
    out += gen_req(rng, tier, 170 * k) + gen_resp(rng, tier, 150 * k)
    out += gen_hp(rng, tier, 130 * k) + gen_cookie(rng, tier, 150 * k)
    out += gen_ph(rng, tier, 250 * k) + gen_eh(rng, tier, 110 * k)
    out += gen_re(rng, tier, 120 * k) + gen_url(rng, tier, 140 * k)
    out += gen_date(rng, tier, 80 * k) + gen_ip(rng, tier, 100 * k)
    enum = []
    for fn in (enum_req, enum_resp, enum_hp, enum_cookie, enum_ph, enum_re, enum_url, enum_date):
        enum += fn(full)
    if not full:
        # a reproducible sample of the exhaustive families; the thorough tier runs them all
        rng.shuffle(enum)
        enum = enum[:550]
    return out + enum


# --------------------------------------------------------------------------
# evidence helpers
# --------------------------------------------------------------------------
def nontrivial(case, o):
    if case["f"] == "date":
        return ("date", case["t"])
    if case["f"] == "eh":
        return ("eh", case["k"], tuple((k, v) for k, v in case["ps"]))
    if case["f"] == "url":
        return ("url", case["s"], tuple(tuple(a) for a in case["args"]))
    s = case.get("s", "")
    return (case["f"], s) if s else None


def classify(case, o):
    f = case["f"]
    yield "f=" + f
    if f == "ip":
        n = len(case["s"])
        yield "ip:len=" + ("0-15" if n < 16 else "16-39" if n < 40 else "40-45" if n < 46 else "46+")
    if isinstance(o, Tag):
        yield f + ":" + str(o)
    elif f in ("req", "resp"):
        yield f + ":accepted"
    elif f == "hp":
        yield "hp:port" if o[1] is not None else "hp:noport"
    elif f == "ph":
        yield "ph:ext2231" if (o and isinstance(o[0], Tag)) else "ph:params=%d" % min(len(o[1]), 3)
    elif f == "cookie":
        yield "cookie:n=%d" % min(len(o), 3)
    elif f == "ip":
        yield "ip:%s" % o
    elif f == "unesc":
        yield "unesc:ok"


def signature(case, o):
    if isinstance(o, Tag):
        return "%s:%s" % (case["f"], o)
    if case["f"] == "eh" and isinstance(o, list) and isinstance(o[1], Tag):
        return "eh:%s" % o[1]
    return case["f"]


def shrink(case):
    if "s" in case and case["s"]:
        s = case["s"]
        yield dict(case, s=s[: len(s) // 2])
        yield dict(case, s=s[len(s) // 2:])
        for i in range(min(len(s), 24)):
            yield dict(case, s=s[:i] + s[i + 1:])
    if case["f"] == "eh":
        for i in range(len(case["ps"])):
            yield dict(case, ps=case["ps"][:i] + case["ps"][i + 1:])
        if len(case["k"]) > 1:
            yield dict(case, k=case["k"][:-1])
    if case["f"] == "url":
        for i in range(len(case["args"])):
            yield dict(case, args=case["args"][:i] + case["args"][i + 1:])
    if case["f"] == "date" and case["t"] not in (0,):
        yield dict(case, t=case["t"] // 2)
        yield dict(case, t=case["t"] - case["t"] % 86400)


TRUSTED_BASE = [
    "Python's re engine, str.strip/lower/split/find/count, int(), dict: modelled directly in Gallina (character tables for "
    "whitespace, Unicode decimal digits and U+0000..U+00FF lower-casing are copied from CPython 3.12 and swept by the generator)",
    "email.utils.decode_params / collapse_rfc2231_value: plain and numbered-continuation parameters are modelled; RFC 2231 "
    "EXTENDED values (charset'lang'%XX, decoded by Python's codec registry) are abstracted to the tag Ext2231 (the harness "
    "only checks that the real call returns)",
    "urllib.parse urlparse/urlunparse: the part of the URL before '?'/'#' is assumed to be reproduced verbatim for the simple "
    "heads the generator uses (http(s)://host[:port][/path], /path, empty); query splitting, percent coding and UTF-8 "
    "(strict encode, decode with errors='replace') are modelled for arbitrary Unicode",
    "email.utils.formatdate / parsedate and calendar.timegm: replaced by civil-date arithmetic and a fixed-width reader, "
    "compared on every generated timestamp",
    "is_valid_ip: getaddrinfo(AI_NUMERICHOST) is modelled only on the classes the property names (plain dotted quads, plain "
    "RFC 4291 text forms, empty / NUL-containing strings, ASCII strings containing a character outside [0-9a-fA-FxX.:%])",
]
ASSUMPTIONS = [
    "text is a list of code points; str.lower above U+00FF is the identity in the model (generator uses caseless code points there)",
    "url_concat theorems: simple head (the part of the URL before ? / #)",
    "date round trip: years 0100..9999 (email.utils.parsedate reinterprets years below 100)",
]
RULE = ("per-function structured generators (mostly valid inputs, then 1-3 random edits from an alphabet of boundary code points "
        "incl. NUL, controls, obs-text, U+0100, non-ASCII digits, surrogates, astral), plus small-scope exhaustive families "
        "(all strings up to length 4-5 over the function's delimiter alphabet; every code point 0..0x17F at each grammar position; "
        "every Unicode decimal digit); quick runs a reproducible sample of the exhaustive families, thorough runs all; "
        "distinct by (function, input)")
LEVEL_TEXT = ("Machine-checked (Coq) theorems about executable models of the httputil/util/netutil text utilities: the start-line "
              "recognisers accept exactly an inductive RFC 9112 grammar relation (both directions, with unique decomposition); "
              "re_unescape inverts re.escape; token-valued parameters round-trip through _encode_header/_parse_header; "
              "split_host_and_port, parse_cookie and _parse_header are total; url_concat keeps head, fragment and existing pairs and "
              "appends the arguments; HTTP dates round-trip (civil-date arithmetic, 400-year cycle sweep). The models are tied to the "
              "code by differential evaluation on generated and exhaustively enumerated inputs.")
LEVEL_NOTE = ("Trusted: Coq kernel/vm_compute; the hand-written models (tied by correspondence only); the abstractions listed in "
              "trusted_base (RFC 2231 extended values, urllib head handling, getaddrinfo outside the decisive classes).")
TECHNIQUE = "Coq proofs (structural induction on strings, grammar inversion, finite sweeps by vm_compute) + differential correspondence via vm_compute"
