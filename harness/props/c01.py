"""C01 — HTTP/1.x request framing is exact, strict and chunking-independent.

The real server (HTTPServer -> HTTP1ServerConnection -> HTTP1Connection ->
_CallableAdapter -> HTTPServerRequest) is driven over a FakeIOStream fed one TCP
segment at a time; what the application delegate saw, how the connection ended
and the status codes on the wire are compared with the Gallina model
(C01.Run.run_case = serve_seg) and checked against the strict reader of the
concatenated byte stream (C01.Run.check_case)."""
import asyncio
import logging
import re

from harness import gallina as G

ID = "C01"
COQ_DIRS = ["C01", "C04"]      # Gen/C01_src.v, Gen/C01_equiv.v are built as dependencies of Property.v
PROPERTY_FILE = "C01/Property.v"
RUN_IMPORTS = "From TV Require Import C01.Model C01.Run."
RUN_FN = "run_case"
CHECK_FN = "check_case"
INPUT_TYPE = "(nat * N * nat * bool * list (list N))"


def pre_build():
    """regenerate coq/Gen/C01_src.v (constants / comparison operators / accumulation forms of
    tornado/http1connection.py) from the working tree; fails closed"""
    import importlib
    import os
    import sys
    from harness.framework import REPO, COQ
    sys.path.insert(0, os.path.join(os.path.dirname(COQ), "translators"))
    import c01_src
    importlib.reload(c01_src)
    c01_src.emit(REPO, os.path.join(COQ, "Gen", "C01_src.v"))


CRLF = b"\r\n"
CASE_TIMEOUT_S = 20      # a (mutated) server that spins is reported as a HarnessException observable, not a hang

# ----------------------------------------------------------------------------
# implementation runner (shared with C04)
# ----------------------------------------------------------------------------
_records = []


class _Capture(logging.Handler):
    def emit(self, r):
        try:
            msg = r.getMessage()
        except Exception:
            msg = str(r.msg)
        _records.append((r.name, r.levelno, msg))


_installed = [False]


def _install_logging():
    if _installed[0]:
        return
    _installed[0] = True
    h = _Capture()
    for n in ("tornado.application", "tornado.general", "tornado.access", "asyncio"):
        lg = logging.getLogger(n)
        lg.addHandler(h)
        lg.setLevel(logging.DEBUG)
        lg.propagate = False


def serve_stream(segs, max_header, max_body, chunk_size, override=None, decompress=False, eof=True,
                 gz_record=None, no_keep_alive=False, stream_max_buffer=None):
    """Feed `segs` (non-empty byte strings) one at a time to a real HTTPServer connection.
    Returns (requests, final_tag, codes, extra) where requests = [[method, target, version,
    [(name, value)...], [chunks...], state]]."""
    import sys
    from harness.fake_iostream import FakeIOStream, EOF
    from harness.vclock import run_virtual
    from tornado import httputil
    from tornado.httpserver import HTTPServer, _CallableAdapter

    _install_logging()
    del _records[:]
    log = []
    extra = {"body_mismatch": False, "late_events": False}

    def app(req):
        # the application: answers every request with an empty 200
        cur = log[-1] if log else None
        if cur is None or req.body != b"".join(cur[4]) or req.method != cur[0] or req.uri != cur[1]:
            extra["body_mismatch"] = True
        req.connection.write_headers(
            httputil.ResponseStartLine("HTTP/1.1", 200, "OK"), httputil.HTTPHeaders({"Content-Length": "0"}))
        req.connection.finish()

    class Rec(httputil.HTTPMessageDelegate):
        def __init__(self, inner, conn):
            self.inner, self.conn, self.cur = inner, conn, None

        def headers_received(self, start_line, headers):
            r = self.inner.headers_received(start_line, headers)
            self.cur = [start_line.method, start_line.path, start_line.version,
                        [(k, v) for k, v in headers.get_all()], [], "open"]
            log.append(self.cur)
            if override is not None:
                self.conn.set_max_body_size(override)
            return r

        def data_received(self, chunk):
            self.cur[4].append(bytes(chunk))
            return self.inner.data_received(chunk)

        def finish(self):
            self.inner.finish()
            self.cur[5] = "fin"

        def on_connection_close(self):
            self.inner.on_connection_close()

    class Srv(httputil.HTTPServerConnectionDelegate):
        def start_request(self, server_conn, request_conn):
            return Rec(_CallableAdapter(app, request_conn), request_conn)

    async def quiesce(loop):
        for _ in range(20000):
            await asyncio.sleep(0)
            if not loop._ready:
                return
        raise RuntimeError("server did not quiesce")

    async def scenario(loop):
        srv = HTTPServer(Srv(), max_header_size=max_header, max_body_size=max_body, chunk_size=chunk_size,
                         decompress_request=decompress, no_keep_alive=no_keep_alive)
        s = FakeIOStream(max_buffer_size=stream_max_buffer)
        srv.handle_stream(s, ("1.2.3.4", 5))
        await quiesce(loop)
        for seg in segs:
            assert len(seg) > 0
            s.feed(bytes(seg))
            await quiesce(loop)
            # level-triggered readiness: a segment larger than read_chunk_size (or the remaining target)
            # stays readable until it has been drained
            for _ in range(64):
                if not s.incoming or s.closed() or not s.notify_read():
                    break
                await quiesce(loop)
        closed_before = s.closed()
        if eof:
            s.feed(EOF)
            await quiesce(loop)
        return bytes(s.sent), closed_before, s.closed()

    if gz_record is not None:
        import tornado.http1connection as h1
        orig = h1.GzipDecompressor

        class RecGz(orig):
            def decompress(self, value, max_length=0):
                try:
                    out = orig.decompress(self, value, max_length)
                except Exception as e:
                    gz_record.append(("err", type(e).__name__))
                    raise
                gz_record.append(("ok", bytes(out), len(self.unconsumed_tail), len(value), max_length,
                                  bool(self.decompressobj.eof)))
                return out
        h1.GzipDecompressor = RecGz
    import signal

    def _alarm(signum, frame):
        raise TimeoutError("server did not finish one case within %d s" % CASE_TIMEOUT_S)
    old_handler = signal.signal(signal.SIGALRM, _alarm)
    signal.setitimer(signal.ITIMER_REAL, CASE_TIMEOUT_S)
    try:
        sent, closed_before, closed_after = run_virtual(scenario)
    finally:
        signal.setitimer(signal.ITIMER_REAL, 0)
        signal.signal(signal.SIGALRM, old_handler)
        if gz_record is not None:
            h1.GzipDecompressor = orig

    errors = [r for r in _records if r[1] >= logging.ERROR]
    unsat = any("Unsatisfiable read" in r[2] for r in _records)
    bad400 = sent.endswith(b"HTTP/1.1 400 Bad Request\r\n\r\n")
    if errors:
        final = "Uncaught"
    elif closed_before:
        final = "Bad400" if bad400 else ("Unsat" if unsat else "Done")
    else:
        final = "Eof"
    codes = []
    for block in sent.split(b"\r\n\r\n"):
        if not block:
            continue
        m = re.match(rb"HTTP/1\.1 (\d{3}) ", block)
        codes.append(int(m.group(1)) if m else -1)
    extra["closed_after"] = closed_after
    extra["errors"] = errors
    return log, final, codes, extra


def canon(log, final, codes):
    reqs = []
    for m, t, v, hs, chunks, state in log:
        reqs.append([m, t, v, [[k, val] for k, val in hs], b"".join(chunks), G.Tag(state)])
    return [reqs, G.Tag(final), list(codes)]


def segs_of(case):
    return [s.encode("latin-1") for s in case["segs"]]


def run_impl(case):
    log, final, codes, extra = serve_stream(segs_of(case), case["mh"], case["mb"], case["cs"],
                                            no_keep_alive=bool(case.get("nka")))
    o = canon(log, final, codes)
    if extra["body_mismatch"]:
        o.append(G.Tag("callback-saw-different-request"))
    if not extra["closed_after"]:
        o.append(G.Tag("stream-left-open-after-eof"))
    return o


def coq_input(case):
    return "(%s, %s, %s, %s, %s)" % (G.gnat(case["mh"]), G.gn(case["mb"]), G.gnat(case["cs"]), G.gbool(bool(case.get("nka"))),
                                     G.glist([G.gbytes(s) for s in segs_of(case)], "(list N)"))


# ----------------------------------------------------------------------------
# generator
# ----------------------------------------------------------------------------
def mk(segs, mh=1000, mb=1000, cs=64, kind="", seg="", nka=False):
    segs = [bytes(s) for s in segs if len(s) > 0]
    return {"mh": mh, "mb": mb, "cs": cs, "nka": nka, "segs": [s.decode("latin-1") for s in segs], "kind": kind, "seg": seg}


METHODS = [b"GET", b"POST", b"HEAD", b"PUT", b"DELETE", b"M-SEARCH", b"get", b"P0ST!"]
TARGETS = [b"/", b"/a", b"/a/b?c=d&e=%20", b"*", b"http://h/p", b"/\xe9t\xe9", b"/?", b"/a#b"]
HOSTS = [b"x", b"example.com", b"example.com:8080", b"[::1]:80", b"", b"a%41b", b"EXAMPLE.com:", b"1.2.3.4"]
EXTRA_HEADERS = [(b"X-A", b"1"), (b"x-a", b"2"), (b"Accept", b"*/*"), (b"X-Long", b"abc def\tghi"),
                 (b"Cookie", b"a=b; c=d"), (b"X-Obs", b"caf\xe9"), (b"X-Empty", b""), (b"ETag", b"\"x\""),
                 (b"x-b-c", b"v"), (b"X--D", b"w"), (b"Expect", b"100-continue"), (b"X-A", b"3"),
                 (b"expect", b"100-continue"), (b"Expect", b"100-Continue"), (b"Expect", b"100-continue, x"),
                 (b"X-Fold", b"\r\n folded"), (b"X-Fold", b"a\r\n \r\n\tb"), (b"X-Fold", b"\n\t"), (b"X-Fold", b"a\r\n ")]


def hexsize(rng, n):
    s = "%x" % n
    r = rng.random()
    if r < 0.2:
        s = s.upper()
    elif r < 0.3:
        s = "0" * rng.randrange(1, 4) + s
    return s.encode()


def rand_body(rng, n):
    alphabet = b"abcdefghijklmnopqrstuvwxyz0123456789\r\n \x00\xff"
    return bytes(rng.choice(alphabet) for _ in range(n))


def gen_request(rng, opts=None):
    """A well-formed request as a list of (site, bytes) parts so that mutations can
    address framing-relevant sites.  Returns (parts, keepalive_expected)."""
    o = dict(opts or {})
    eol = lambda: (b"\n" if rng.random() < o.get("barelf", 0.12) else CRLF)
    version = o.get("version") or rng.choice([b"HTTP/1.1"] * 7 + [b"HTTP/1.0"] * 2 + [b"HTTP/1.2"])
    framing = o.get("framing") or rng.choice(["none", "none", "cl", "cl", "chunked", "chunked"])
    method = o.get("method") or (rng.choice(METHODS[:2]) if rng.random() < 0.7 else rng.choice(METHODS))
    if framing != "none" and method in (b"GET", b"HEAD") and rng.random() < 0.7:
        method = b"POST"
    parts = []
    if rng.random() < o.get("leading", 0.08):
        parts.append(("lead", rng.choice([CRLF, b"\n", b"\r\r\n"])))
    parts.append(("line", method + b" " + rng.choice(TARGETS) + b" " + version))
    parts.append(("eol", eol() if rng.random() > 0.03 else b"\r\r\n"))
    hdrs = []
    if not (version == b"HTTP/1.0" and rng.random() < 0.5):
        hn = rng.choice([b"Host", b"Host", b"host", b"HOST"])
        hdrs.append(("host", hn + b":" + rng.choice([b" ", b"", b"  ", b"\t"]) + rng.choice(HOSTS) + rng.choice([b"", b" "])))
    for _ in range(rng.choice([0, 0, 1, 1, 2, 3])):
        k, v = rng.choice(EXTRA_HEADERS)
        if v and b" " in v and rng.random() < 0.5:      # obsolete line folding
            a, b = v.split(b" ", 1)
            hdrs.append(("hdr", k + b": " + a + eol() + rng.choice([b" ", b"\t", b"  "]) + b))
        else:
            hdrs.append(("hdr", k + b":" + rng.choice([b" ", b""]) + v))
    conn = o.get("conn", rng.choice([None] * 6 + [b"close", b"keep-alive", b"Keep-Alive", b"Close", b"upgrade"]))
    if conn is not None:
        hdrs.append(("conn", b"Connection: " + conn))
    body = b""
    blen = o.get("blen")
    if blen is None:
        blen = rng.choice([0, 1, 2, 3, 5, 10, 17, 40])
    if framing == "cl":
        data = rand_body(rng, blen)
        name = rng.choice([b"Content-Length", b"content-length", b"CONTENT-LENGTH"])
        r = rng.random()
        if r < 0.1:
            hdrs.append(("cl", name + b": %d" % blen))
            hdrs.append(("cl", name + b": %d" % blen))
        elif r < 0.2:
            hdrs.append(("cl", name + b": %d,%s%d" % (blen, rng.choice([b"", b" ", b"  ", b"\t", b"\xa0"]), blen)))
        elif r < 0.3:
            hdrs.append(("cl", name + b": " + b"0" * rng.randrange(1, 4) + b"%d" % blen))
        else:
            hdrs.append(("cl", name + b": %d" % blen))
        body_parts = [("body", data)]
    elif framing == "chunked":
        hdrs.append(("te", rng.choice([b"Transfer-Encoding", b"transfer-encoding"]) + b": " +
                     rng.choice([b"chunked", b"chunked", b"Chunked", b"CHUNKED"])))
        data = rand_body(rng, blen)
        body_parts = []
        i = 0
        while i < len(data):
            k = rng.randrange(1, len(data) - i + 1)
            body_parts += [("csize", hexsize(rng, k)), ("ccrlf", CRLF), ("cdata", data[i:i + k]), ("cterm", CRLF)]
            i += k
        body_parts += [("csize", hexsize(rng, 0)), ("ccrlf", CRLF), ("cend", CRLF)]
    else:
        body_parts = []
    rng.shuffle(hdrs)
    for site, h in hdrs:
        parts.append((site, h))
        parts.append(("eol", eol()))
    parts.append(("end", eol()))
    parts += body_parts
    return parts


def render(parts):
    return b"".join(p for _, p in parts)


CL_BAD = [b"+5", b"-1", b"0x5", b"5 5", b"5,6", b"5,", b",5", b"5, 6", b"", b"5a", b"\xb2", b"5,5,6", b"5 ,5",
          b"1e1", b"5.0", b"99999999999999999999999", b"1001", b"5\xa0", b"\xa05"]
TE_BAD = [b"gzip", b"gzip, chunked", b"chunked, gzip", b"identity", b"chunked,chunked", b"", b"chunke", b"chunkedx",
          b"\"chunked\"", b"chunked;q=1", b"x-chunked"]
CSIZE_BAD = [b"g", b"", b"5;ext=1", b" 5", b"5 ", b"0x5", b"+5", b"-5", b"5\r", b"f" * 63, b"0" * 70, b"5\n", b"\xb5", b"1_0"]
CTERM_BAD = [b"XX", b"\n\n", b"\r\r", b"\n", b"", b"\rX", b"X\n", b"\n\r"]
LINE_BAD = [b"GET  / HTTP/1.1", b"GET / HTTP/1.1 ", b" GET / HTTP/1.1", b"GET /", b"GET / HTTP/2.0", b"GET / HTTP/1.",
            b"GET / http/1.1", b"GET\t/\tHTTP/1.1", b" / HTTP/1.1", b"G@T / HTTP/1.1", b"GET /a b HTTP/1.1",
            b"GET /\x01 HTTP/1.1", b"GET / HTTP/1.10", b"GET / HTTP/11.1", b"GET / HTTP/0.9", b"", b"GET", b"GET / HTTP/1.1\rX",
            b"GET /\x7f HTTP/1.1", b"GE\xe9T / HTTP/1.1", b"GET / XHTTP/1.1"]
HOST_BAD = [None, b"a,b", b"a b", b"a/b", b"%zz", b"caf\xe9", b"a\x00", b"%4", b"a@b", b"a?b", b"a#b", b"\"a\"", b"a\\b", b"<a>"]
HDR_BAD = [b"NoColonHere", b"Bad Name: v", b"Name : v", b" Leading: first", b"X-Nul: a\x00b", b"X-Cr: a\rb", b": empty-name",
           b"X\xe9: v", b"X-Del: a\x7fb", b"X(y): v", b"\tfold-without-previous"]


def mutate(rng, parts, kind):
    """Near-valid mutation at one framing-relevant site.  Returns new parts (or None if the site is absent)."""
    parts = list(parts)
    idx = lambda site: [i for i, (s, _) in enumerate(parts) if s == site]

    def put_header(site, line, where=None):
        ends = idx("end")
        pos = ends[0] if where is None else where
        parts[pos:pos] = [(site, line), ("eol", CRLF)]

    if kind == "cl":
        i = idx("cl")
        v = rng.choice(CL_BAD)
        if i:
            parts[rng.choice(i)] = ("cl", b"Content-Length: " + v)
        else:
            put_header("cl", b"Content-Length: " + v)
    elif kind == "cl-dup-unequal":
        if not idx("cl"):
            return None
        put_header("cl", b"Content-Length: " + rng.choice([b"0", b"1", b"7", b"x"]))
    elif kind == "cl+te":
        if idx("te") and not idx("cl"):
            put_header("cl", b"Content-Length: " + rng.choice([b"0", b"3", b"5"]))
        elif idx("cl") and not idx("te"):
            put_header("te", b"Transfer-Encoding: chunked")
        else:
            put_header("cl", b"Content-Length: 0")
            put_header("te", b"Transfer-Encoding: chunked")
    elif kind == "te":
        i = idx("te")
        v = rng.choice(TE_BAD)
        if i:
            parts[i[0]] = ("te", b"Transfer-Encoding: " + v)
        else:
            put_header("te", b"Transfer-Encoding: " + v)
    elif kind == "te-dup":
        if not idx("te"):
            return None
        put_header("te", b"Transfer-Encoding: " + rng.choice([b"chunked", b"gzip"]))
    elif kind == "csize":
        i = idx("csize")
        if not i:
            return None
        parts[rng.choice(i)] = ("csize", rng.choice(CSIZE_BAD))
    elif kind == "csize-off":
        i = [j for j in idx("csize") if parts[j][1].strip(b"0")]
        if not i:
            return None
        j = rng.choice(i)
        n = int(parts[j][1], 16)
        parts[j] = ("csize", b"%x" % max(0, n + rng.choice([-1, 1, 2, 16])))
    elif kind == "ccrlf":
        i = idx("ccrlf")
        if not i:
            return None
        parts[rng.choice(i)] = ("ccrlf", rng.choice([b"\n", b"\r", b"", b"\r\r\n", b" \r\n"]))
    elif kind == "cterm":
        i = idx("cterm") + idx("cend")
        if not i:
            return None
        parts[rng.choice(i)] = ("cterm", rng.choice(CTERM_BAD))
    elif kind == "trailer":
        i = idx("cend")
        if not i:
            return None
        parts[i[0]] = ("cend", b"X-Trailer: 1\r\n\r\n")
    elif kind == "line":
        i = idx("line")
        parts[i[0]] = ("line", rng.choice(LINE_BAD))
    elif kind == "host":
        i = idx("host")
        v = rng.choice(HOST_BAD)
        if v is None:
            if not i:
                return None
            del parts[i[0]:i[0] + 2]
        elif i:
            parts[i[0]] = ("host", b"Host: " + v)
        else:
            put_header("host", b"Host: " + v)
    elif kind == "host-dup":
        put_header("host", b"Host: " + rng.choice([b"x", b"y", b""]))
    elif kind == "hdr":
        put_header("hdr", rng.choice(HDR_BAD), where=rng.choice([2, idx("end")[0]]) if len(parts) > 2 else None)
    elif kind == "extra-cr":
        # extra CRs before the LF of a header line / CR-only lines inside the block / a bare CR at the end of a value:
        # only ONE CR belongs to the terminator, the rest is an illegal character in the field
        eols = [i for i, (s_, _) in enumerate(parts) if s_ == "eol" and i > 0 and parts[i - 1][0] in ("cl", "te", "host", "hdr", "conn")]
        r = rng.random()
        if r < 0.6 and eols:
            j = rng.choice(eols)
            parts[j] = ("eol", rng.choice([b"\r\r\n", b"\r\r\r\n", b"\r\r\n", b"\r \r\n"]))
        elif r < 0.8:
            ends = idx("end")
            pos = rng.choice([2, ends[0]]) if len(parts) > 2 else ends[0]
            parts[pos:pos] = [("hdr", rng.choice([b"\r", b"\r\r", b"\r\r\r"])), ("eol", rng.choice([CRLF, b"\n"]))]
        else:
            sites = [i for i, (s_, _) in enumerate(parts) if s_ in ("cl", "te", "host", "hdr", "conn")]
            if not sites:
                return None
            j = rng.choice(sites)
            parts[j] = (parts[j][0], parts[j][1] + b"\r")
            if j + 1 < len(parts) and parts[j + 1][0] == "eol":
                parts[j + 1] = ("eol", rng.choice([CRLF, b"\n"]))
    elif kind == "body-short":
        i = idx("body") + idx("cdata")
        if not i:
            return None
        j = rng.choice(i)
        if not parts[j][1]:
            return None
        parts[j] = (parts[j][0], parts[j][1][:-1])
    elif kind == "body-long":
        i = idx("body") + idx("cdata")
        if not i:
            return None
        j = rng.choice(i)
        parts[j] = (parts[j][0], parts[j][1] + rng.choice([b"Z", b"\r", b"\r\n"]))
    elif kind == "bytes":
        raw = bytearray(render(parts))
        for _ in range(rng.choice([1, 1, 2, 3])):
            if not raw:
                break
            p = rng.randrange(len(raw))
            r = rng.random()
            if r < 0.35:
                raw[p] = rng.choice(b"\r\n :,;\x00\xffA0 \t-")
            elif r < 0.65:
                del raw[p]
            else:
                raw.insert(p, rng.choice(b"\r\n :,;\x00\xffA0 \t-"))
        return [("raw", bytes(raw))]
    else:
        raise ValueError(kind)
    return parts


MUTATIONS = ["extra-cr", "extra-cr", "extra-cr", "cl", "cl", "cl-dup-unequal", "cl+te", "cl+te", "te", "te", "te-dup", "csize", "csize", "csize-off", "ccrlf",
             "cterm", "cterm", "trailer", "line", "line", "host", "host", "host-dup", "hdr", "body-short", "body-long",
             "bytes", "bytes"]

SEGMENTERS = ["whole", "crlf", "one", "random", "random", "terminator", "two"]


def segment(rng, data, how):
    if how == "whole" or len(data) < 2:
        return [data]
    if how == "one":
        return [data[i:i + 1] for i in range(len(data))]
    if how == "crlf":
        out, cur = [], b""
        for i in range(len(data)):
            cur += data[i:i + 1]
            if data[i:i + 1] == b"\n":
                out.append(cur)
                cur = b""
        return out + ([cur] if cur else [])
    if how == "two":
        k = rng.randrange(1, len(data))
        return [data[:k], data[k:]]
    if how == "terminator":
        # cut inside / right after every CR LF pair and at a few random places
        cuts = set()
        for m in re.finditer(rb"\r?\n", data):
            for c in (m.start(), m.start() + 1, m.end()):
                if 0 < c < len(data) and rng.random() < 0.6:
                    cuts.add(c)
    else:
        cuts = set(rng.randrange(1, len(data)) for _ in range(rng.choice([1, 2, 3, 5, 8])))
    cuts = sorted(cuts)
    out, prev = [], 0
    for c in cuts + [len(data)]:
        out.append(data[prev:c])
        prev = c
    return out


def gen_stream(rng, nreq=None, mutation=None):
    n = nreq or rng.choice([1, 1, 2, 2, 3, 4])
    reqs = []
    for i in range(n):
        opts = {}
        if i < n - 1 and rng.random() < 0.85:
            opts["conn"] = rng.choice([None, None, b"keep-alive"])
            opts["version"] = b"HTTP/1.1" if rng.random() < 0.9 else b"HTTP/1.0"
        reqs.append(gen_request(rng, opts))
    kind = "valid"
    if mutation:
        for _ in range(6):
            j = rng.randrange(n)
            m = mutate(rng, reqs[j], mutation)
            if m is not None:
                reqs[j] = m
                kind = mutation
                break
    data = b"".join(render(p) for p in reqs)
    if rng.random() < 0.06 and len(data) > 2:      # truncated stream
        data = data[:rng.randrange(1, len(data))]
        kind += "+trunc"
    return data, kind


def header_boundary_cases(rng, mh):
    """Header blocks whose terminator ends at mh-1, mh, mh+1 and far beyond."""
    out = []
    for delta in (-1, 0, 1, 2, 40):
        for tail in (b"", b"GET / HTTP/1.1\r\nHost: y\r\n\r\n"):
            base = b"GET / HTTP/1.1\r\nHost: x\r\nX-Pad: "
            pad = mh + delta - len(base) - 4
            if pad < 0:
                continue
            data = base + b"p" * pad + b"\r\n\r\n" + tail
            for how in ("whole", "one", "random", "terminator"):
                out.append(mk(segment(rng, data, how), mh=mh, kind="header-size%+d" % delta, seg=how))
    # no terminator at all, longer than the limit
    data = b"GET / HTTP/1.1\r\nHost: x\r\nX-Pad: " + b"p" * mh
    out.append(mk([data], mh=mh, kind="header-unterminated", seg="whole"))
    out.append(mk(segment(rng, data, "random"), mh=mh, kind="header-unterminated", seg="random"))
    return out


def body_limit_cases(rng, mb):
    out = []
    for n in (mb - 1, mb, mb + 1, mb * 10):
        body = rand_body(rng, min(n, mb + 3))
        cl = b"POST / HTTP/1.1\r\nHost: x\r\nContent-Length: %d\r\n\r\n" % n + body + b"GET /n HTTP/1.1\r\nHost: x\r\n\r\n"
        out.append(mk(segment(rng, cl, rng.choice(SEGMENTERS)), mb=mb, kind="cl-limit"))
        # chunked: two chunks whose sum is n
        a = rng.randrange(1, max(2, min(n, mb)))
        b = n - a
        ch = (b"POST / HTTP/1.1\r\nHost: x\r\nTransfer-Encoding: chunked\r\n\r\n%x\r\n" % a + rand_body(rng, a) + b"\r\n"
              + (b"%x\r\n" % b + rand_body(rng, min(b, mb + 3)) + b"\r\n" if b > 0 else b"") + b"0\r\n\r\nGET /n HTTP/1.1\r\nHost: x\r\n\r\n")
        out.append(mk(segment(rng, ch, rng.choice(SEGMENTERS)), mb=mb, kind="chunked-limit"))
    return out


OVERFLOW_HOST = b"GET / HTTP/1.1\r\nHost: a:" + b"1" * 4301 + b"\r\n\r\n"


def corpus_cases():
    out = []
    # DESIGN section 8 witness (fixed in /repo by c8fa85f): chunk data not followed by CRLF
    w = b"POST / HTTP/1.1\r\nHost: a\r\nTransfer-Encoding: chunked\r\n\r\n3\r\nabcXX0\r\n\r\n"
    out.append(mk([w], kind="corpus-chunk-terminator"))
    out.append(mk([w[:60], w[60:]], kind="corpus-chunk-terminator"))
    # classic smuggling vectors
    out.append(mk([b"POST / HTTP/1.1\r\nHost: a\r\nContent-Length: 4\r\nTransfer-Encoding: chunked\r\n\r\n0\r\n\r\n"], kind="corpus-cl+te"))
    out.append(mk([b"POST / HTTP/1.1\r\nHost: a\r\nTransfer-Encoding: chunked\r\nTransfer-Encoding: identity\r\n\r\n0\r\n\r\n"], kind="corpus-te-te"))
    out.append(mk([b"POST / HTTP/1.1\r\nHost: a\r\nContent-Length: 3\r\nContent-Length: 4\r\n\r\nabcd"], kind="corpus-cl-cl"))
    out.append(mk([b"POST / HTTP/1.1\r\nHost: a\r\nContent-Length: +3\r\n\r\nabc"], kind="corpus-cl-plus"))
    out.append(mk([b"POST / HTTP/1.1\r\nHost: a\r\nTransfer-Encoding:\x0bchunked\r\n\r\n0\r\n\r\n"], kind="corpus-te-vt"))
    out.append(mk([b"POST / HTTP/1.0\r\nTransfer-Encoding: gzip\r\n\r\n"], kind="corpus-te-http10"))
    out.append(mk([b"\r\n\r\nGET / HTTP/1.1\r\nHost: a\r\n\r\n"], kind="corpus-two-blank-lines"))
    out.append(mk([b"GET / HTTP/1.1\r\nHost: a\r\nHost: b\r\n\r\n"], kind="corpus-two-hosts"))
    out.append(mk([b"POST / HTTP/1.1\r\nHost: a\r\nContent-Length: " + b"0" * 4300 + b"5\r\n\r\nhello"], mh=4999, kind="corpus-cl-4301-digits"))
    out.append(mk([b"GET / HTTP/1.1\r\nHost: a:" + b"1" * 4300 + b"\r\n\r\n"], mh=4999, kind="corpus-host-port-4300"))
    # was a genuine defect (uncaught ValueError from int() of the port); fixed in /repo by deca566
    out.append(mk([OVERFLOW_HOST], mh=4999, kind="corpus-host-port-4301"))
    # extra CR before the line terminator (only `\r?\n$` is stripped): refused, and the pipelined request behind it is never dispatched
    follow = b"GET /smuggled HTTP/1.1\r\nHost: a\r\n\r\n"
    out.append(mk([b"POST / HTTP/1.1\r\nHost: a\r\nContent-Length: 3\r\r\n\r\nabc" + follow], kind="corpus-extra-cr-cl"))
    out.append(mk([b"POST / HTTP/1.1\r\nHost: a\r\nTransfer-Encoding: chunked\r\r\r\n\r\n0\r\n\r\n" + follow], kind="corpus-extra-cr-te"))
    out.append(mk([b"GET / HTTP/1.1\r\nHost: a\r\r\n\r\n" + follow], kind="corpus-extra-cr-host"))
    out.append(mk([b"GET / HTTP/1.1\r\nHost: a\r\n\r\r\nX: y\r\n\r\n" + follow], kind="corpus-cr-only-line"))
    out.append(mk([b"GET / HTTP/1.1\r\n\r\r\nHost: a\r\n\r\n" + follow], kind="corpus-cr-only-line-first"))
    out.append(mk([b"GET / HTTP/1.1\r\nHost: a\r\nX: v\r\r\n", b"\r\n" + follow], kind="corpus-extra-cr-x"))
    out.append(mk([b"GET / HTTP/1.1\r\r\nHost: a\r\n\r\n" + follow], kind="corpus-extra-cr-request-line-is-tolerated"))
    # Expect: 100-continue -- interim response before the body, also when the framing is then refused
    out.append(mk([b"POST / HTTP/1.1\r\nHost: a\r\nExpect: 100-continue\r\nContent-Length: 3\r\n\r\n", b"abc"], kind="corpus-expect"))
    out.append(mk([b"POST / HTTP/1.1\r\nHost: a\r\nExpect: 100-continue\r\nContent-Length: 3\r\nTransfer-Encoding: chunked\r\n\r\n"], kind="corpus-expect-then-400"))
    out.append(mk([b"POST / HTTP/1.1\r\nHost: a\r\nExpect: 100-continue\r\nExpect: 100-continue\r\nContent-Length: 0\r\n\r\n"], kind="corpus-expect-twice"))
    out.append(mk([b"POST / HTTP/1.1\r\nHost: a,b\r\nExpect: 100-continue\r\nContent-Length: 0\r\n\r\n"], kind="corpus-expect-bad-host"))
    # was a genuine defect (fixed in /repo by 002b519): requests buffered behind a request that closed the
    # connection were still dispatched to the application -- and only when they arrived in the same segment
    w = b"GET /1 HTTP/1.1\r\nHost: a\r\nConnection: close\r\n\r\nGET /2 HTTP/1.1\r\nHost: a\r\n\r\n"
    out.append(mk([w], kind="corpus-pipelined-after-close"))
    out.append(mk([w[:45], w[45:]], kind="corpus-pipelined-after-close"))
    w = b"POST /1 HTTP/1.0\r\nContent-Length: 1\r\n\r\nxGET /2 HTTP/1.1\r\nHost: a\r\n\r\n"
    out.append(mk([w], kind="corpus-pipelined-after-close"))
    return out


def gen_cases(rng, tier):
    out = []
    n_valid, n_mut = (170, 420) if tier == "quick" else (800, 2400)
    for _ in range(n_valid):
        data, kind = gen_stream(rng)
        how = rng.choice(SEGMENTERS)
        out.append(mk(segment(rng, data, how), mh=rng.choice([1000, 1000, 200]), mb=rng.choice([1000, 64, 16]),
                      cs=rng.choice([64, 16, 5, 1, 1000]), kind=kind, seg=how, nka=rng.random() < 0.15))
    for i in range(n_mut):
        data, kind = gen_stream(rng, mutation=MUTATIONS[i % len(MUTATIONS)])
        how = rng.choice(SEGMENTERS)
        out.append(mk(segment(rng, data, how), mh=rng.choice([1000, 1000, 200]), mb=rng.choice([1000, 64, 16]),
                      cs=rng.choice([64, 16, 5, 1, 1000]), kind=kind, seg=how, nka=rng.random() < 0.08))
    for mh in ((64, 100) if tier == "quick" else (40, 64, 100, 257)):
        out += header_boundary_cases(rng, mh)
    for mb in ((16, 64) if tier == "quick" else (1, 16, 64, 300)):
        out += body_limit_cases(rng, mb)
    # the same stream under every segmenter: the observable must not depend on it
    for _ in range(12 if tier == "quick" else 120):
        data, kind = gen_stream(rng, mutation=rng.choice([None, None] + MUTATIONS))
        for how in ("whole", "crlf", "one", "terminator", "random"):
            out.append(mk(segment(rng, data, how), kind=kind, seg=how))
    if tier == "thorough":
        # small scope, exhaustive: every segmentation into at most 3 segments of short pipelined streams
        streams = [
            b"GET / HTTP/1.1\r\nHost:x\r\n\r\n\nGET /2 HTTP/1.0\n\n",
            b"POST / HTTP/1.1\r\nHost:x\r\nTransfer-Encoding:chunked\r\n\r\n2\r\nab\r\n0\r\n\r\nX",
            b"PUT / HTTP/1.0\nContent-Length:3\nConnection:keep-alive\n\nabcGET",
            b"POST / HTTP/1.1\nHost:x\nTransfer-Encoding:chunked\n\n1\r\na\rX0\r\n\r\n",
        ]
        for k, data in enumerate(streams):
            n = len(data)
            for i in range(1, n):
                out.append(mk([data[:i], data[i:]], kind="exhaustive-2", seg="all-2-splits"))
            if k in (1, 3):          # the chunked streams: also every split into three segments
                for i in range(1, n):
                    for j in range(i + 1, n):
                        out.append(mk([data[:i], data[i:j], data[j:]], kind="exhaustive-3", seg="all-3-splits"))
    return out


EXHAUSTIVE = {"quick": False, "thorough": False}


# ----------------------------------------------------------------------------
# evidence helpers
# ----------------------------------------------------------------------------
def _final(o):
    return str(o[1]) if isinstance(o, list) and len(o) >= 2 else "?"


def py_check(case, o):
    """Independent of the Coq side: structural sanity of the implementation observable, and the
    `never an uncaught application error` clause."""
    if not isinstance(o, list) or len(o) != 3:
        return False
    reqs, final, codes = o
    if str(final) == "Uncaught":
        return False
    fins = sum(1 for r in reqs if str(r[5]) == "fin")
    if any(str(r[5]) != "fin" for r in reqs[:-1]):
        return False                      # only the last request may be unfinished
    want = [200] * fins + ([400] if str(final) == "Bad400" else [])
    if [c for c in codes if c != 100] != want:
        return False
    # at most one interim 100 per request that reached the application
    return codes.count(100) <= len(reqs)


def nontrivial(case, o):
    if not case["segs"]:
        return None
    return ("".join(case["segs"]), tuple(len(s) for s in case["segs"]), case["mh"], case["mb"], case["cs"], bool(case.get("nka")))


def classify(case, o):
    yield "final=" + _final(o)
    yield "kind=" + case.get("kind", "?").split("+")[0]
    yield "seg=" + (case.get("seg") or "?")
    if isinstance(o, list) and o and isinstance(o[0], list):
        yield "requests=%d" % len(o[0])
        for r in o[0]:
            hs = {k for k, _ in r[3]}
            yield "framing=" + ("chunked" if "Transfer-Encoding" in hs else "cl" if "Content-Length" in hs else "none")
    yield "no_keep_alive=%s" % bool(case.get("nka"))
    yield "nsegs=" + ("1" if len(case["segs"]) <= 1 else "2-5" if len(case["segs"]) <= 5 else "6+")


def signature(case, o):
    data = "".join(case["segs"])
    if _final(o) == "Uncaught":
        if re.search(r"(?im)^host:.*:\d{4301,}\s*$", data):
            return "uncaught:host-port-over-4300-digits"
        return "uncaught:other"
    return "final=" + _final(o)


def shrink(case):
    segs = case["segs"]
    data = "".join(segs)
    if len(segs) > 1:
        yield dict(case, segs=[data])
        yield dict(case, segs=segs[:-1])
        for i in range(len(segs) - 1):
            yield dict(case, segs=segs[:i] + [segs[i] + segs[i + 1]] + segs[i + 2:])
    if len(data) > 1:
        k = len(data)
        cuts = [0]
        for s in segs:
            cuts.append(cuts[-1] + len(s))

        def resegment(d):
            out, prev = [], 0
            for c in cuts[1:]:
                c = min(c, len(d))
                if c > prev:
                    out.append(d[prev:c])
                    prev = c
            if prev < len(d):
                out.append(d[prev:])
            return out
        yield dict(case, segs=resegment(data[: k // 2]))
        yield dict(case, segs=resegment(data[:-1]))
        lines = data.split("\n")
        for i in range(len(lines)):
            d2 = "\n".join(lines[:i] + lines[i + 1:])
            if d2:
                yield dict(case, segs=resegment(d2))


TRUSTED_BASE = [
    "harness/props/c01.py recording delegate wrapped around the real httpserver._CallableAdapter (so HTTPServerRequest.__init__ runs), "
    "FakeIOStream transport, virtual-clock loop; the peer's EOF is delivered only after the server has processed every earlier segment",
    "hand-coded Gallina recognisers replace Python `re` (terminator search, request-line, field-name/value, Host, \\s in the Content-Length split) "
    "and str methods on latin-1 text; tied by the correspondence only",
    "Python int() digit limit modelled as the constant 4300 (sys.int_info.default_max_str_digits)",
    "translators/c01_src.py (ast-based, fail-closed reader of the constants / comparison operators / accumulation forms of http1connection.py; "
    "ties those facts, not whole functions, to the model: coq/Gen/C01_src.v = C01.SrcDesc.src_expected)",
]
ASSUMPTIONS = [
    "xheaders=False, decompress_request=False; header_timeout/body_timeout never fire (virtual clock; see C05)",
    "the application answers every request from finish() with an empty 200 and never detaches; requests carry no Content-Type "
    "(form/multipart body parsing in _CallableAdapter.finish is outside this property)",
]
RULE = ("1-4 pipelined requests from a request grammar (methods/targets/versions/Host forms/extra+duplicate+folded headers/Connection, "
        "bodies by Content-Length | chunked with random chunk splits | none; bare-LF line ends, leading blank lines) with one near-valid mutation "
        "at a framing site (CL, CL+TE, TE, chunk size/terminator, trailer, request line, Host, header line, body length, raw byte edits) "
        "x segmentations {whole, after every LF, 1-byte, random cuts, cuts inside terminators}; header-size and body-size boundary families; "
        "thorough adds every 2-segment split of four short pipelined streams and every 3-segment split of the two chunked ones; distinct by (bytes, segment lengths, limits)")
LEVEL_TEXT = ("Coq proof that the segment-fed server model equals the strict reader of the concatenated bytes for every segmentation (refinement through an "
              "abstract stream interface + prefix-stability of the terminator search), round-trip of rendered well-formed request sequences, "
              "one rejection lemma per clause, terminal-event invariant; the model is compared with the real HTTPServer on every generated stream.")
LEVEL_NOTE = ("Trusted: Coq kernel/vm_compute; the correspondence harness; the hand-written model (regex/str semantics re-coded). "
              "Not covered: TLS, real sockets, timeouts, EOF arriving in the same readiness event as unprocessed data.")
TECHNIQUE = "Coq refinement proof (generic reader over a stream interface, two instances) + differential correspondence via vm_compute"
