"""C35 — Queues conserve items and match their ordering discipline.

A case is a queue class, a maxsize and a schedule of operations; the real
tornado.queues classes are driven on a virtual-clock asyncio loop.  Nothing
yields to the loop between operations except Drain (run queued callbacks) and
Expire k (advance the clock to the deadline given to future k, so its timer
fires); every other operation is one synchronous call."""
import asyncio
import itertools

from harness import gallina as G
from harness.vclock import run_virtual, settle

ID = "C35"
COQ_DIRS = ["C35"]
PROPERTY_FILE = "C35/Property.v"
RUN_IMPORTS = "From TV Require Import C35.Model C35.Run."
RUN_FN = "run_case"
CHECK_FN = "check_case"
INPUT_TYPE = "input"

KINDS = ["Fifo", "Lifo", "Prio"]

TRUSTED_BASE = [
    "asyncio event-loop ordering (call_soon callbacks run before timers examined in a later iteration) and asyncio.Future semantics (done/cancel/set_result): modelled by the statuses Pending/Ready/done and the Drain/Expire events",
    "heapq.heappush/heappop trusted to remove a minimal element (PriorityQueue container abstracted to remove-minimum)",
    "harness/vclock.py virtual clock: each timed future gets its own absolute deadline so that `Expire k` fires exactly that timer",
    "items are Python ints (total order, equal items indistinguishable)",
]
ASSUMPTIONS = [
    "clients touch a queue only through put/put_nowait/get/get_nowait/task_done/join/qsize/empty/full and through cancel() on the futures these return",
    "callbacks queued on the loop run only at Drain / Expire events (the schedule says where)",
]
RULE = ("schedules over {put, put_nowait, get, get_nowait, async-iteration next, task_done, join, expire k, cancel k, drain} with timeouts None / absolute / timedelta / 0 / 0.0 / timedelta(0) "
        "for Queue/LifoQueue/PriorityQueue x maxsize 0..3 (+ rejected constructor arguments None, negative); "
        "quick: random structured schedules (length <= 14) + scenario families; thorough: additionally all schedules up to a bounded length over a reduced alphabet; "
        "distinct by (class, maxsize, schedule); non-trivial = at least one waiter blocked or one item moved")
EXHAUSTIVE = {"quick": False, "thorough": True}


# ----------------------------------------------------------------------------
# cases: {"k": 0|1|2, "m": maxsize argument (int, may be negative, or None), "ops": [[name, arg...], ...]}
# ops: ["put", x, tmo] ["putn", x] ["get", tmo] ["getn"] ["next"] ["done"] ["join", tmo] ["exp", k] ["can", k] ["drain"]
# tmo: 0/False none | 1/True absolute deadline | 2 timedelta (relative) deadline | 3 timeout=0 | 4 timeout=0.0 | 5 timedelta(0)
# ----------------------------------------------------------------------------
def mk(k, m, ops):
    return {"k": k, "m": m, "ops": [list(o) for o in ops]}


def tcode(v):
    return int(v)


def tclass(v):
    """0 = no timeout, 1 = a timer fired by `exp`, 2 = zero timeout (fires when the loop next runs)"""
    v = int(v)
    return 0 if v == 0 else 1 if v in (1, 2) else 2


def _status(f):
    if not f.done():
        return G.Tag("P")
    if f.cancelled():
        return G.Tag("C")
    e = f.exception()
    if e is not None:
        if isinstance(e, asyncio.TimeoutError):
            return G.Tag("T")
        return G.Tag(type(e).__name__)
    r = f.result()
    return r if (r is None or isinstance(r, int)) else G.Tag("weird:" + type(r).__name__)


def run_impl(case):
    import datetime
    from tornado import queues

    cls = [queues.Queue, queues.LifoQueue, queues.PriorityQueue][case["k"]]
    ops = case["ops"]
    m = case["m"]

    def deadline_pos(k, j):
        for j2 in range(j + 1, len(ops)):
            if ops[j2][0] == "exp" and ops[j2][1] == k:
                return j2
        return None

    async def scenario(loop):
        base = loop.time()
        loop.set_exception_handler(lambda lp, ctx: None)   # timers left armed at the end may fire during teardown
        try:
            q = cls(maxsize=m)
        except TypeError:
            return G.Tag("TypeError")
        except ValueError:
            return G.Tag("ValueError")
        futs = []
        trace = [q.maxsize]

        def tmo_for(flag, j):
            c = tcode(flag)
            if c == 0:
                return None
            if c == 3:
                return 0
            if c == 4:
                return 0.0
            if c == 5:
                return datetime.timedelta(0)
            p = deadline_pos(len(futs), j)
            when = base + (p + 1 if p is not None else 10 ** 6)
            if c == 2:
                return datetime.timedelta(seconds=when - loop.time())
            return when

        for j, o in enumerate(ops):
            name = o[0]
            try:
                if name == "put":
                    f = q.put(o[1], timeout=tmo_for(o[2], j))
                    futs.append(f)
                    r = [G.Tag("fut"), len(futs) - 1]
                elif name == "putn":
                    r = q.put_nowait(o[1])
                elif name == "get":
                    f = q.get(timeout=tmo_for(o[1], j))
                    futs.append(f)
                    r = [G.Tag("fut"), len(futs) - 1]
                elif name == "getn":
                    r = q.get_nowait()
                elif name == "next":
                    f = q.__aiter__().__anext__()
                    futs.append(f)
                    r = [G.Tag("fut"), len(futs) - 1]
                elif name == "done":
                    r = q.task_done()
                elif name == "join":
                    f = q.join(timeout=tmo_for(o[1], j))
                    futs.append(f)
                    r = [G.Tag("fut"), len(futs) - 1]
                elif name == "exp":
                    target = base + j + 1.5
                    await asyncio.sleep(target - loop.time())
                    await settle(6)
                    r = None
                elif name == "can":
                    r = futs[o[1]].cancel() if o[1] < len(futs) else False
                elif name == "drain":
                    await settle(6)
                    r = None
                else:
                    raise RuntimeError("bad op")
            except queues.QueueFull:
                r = G.Tag("QueueFull")
            except queues.QueueEmpty:
                r = G.Tag("QueueEmpty")
            except ValueError:
                r = G.Tag("ValueError")
            except AssertionError:
                r = G.Tag("AssertionError")
            except IndexError:
                r = G.Tag("IndexError")
            except asyncio.InvalidStateError:
                r = G.Tag("InvalidStateError")
            trace.append([r, q.qsize(), q.empty(), q.full(), [_status(f) for f in futs]])
        return trace

    return run_virtual(scenario)


def g_tmo(v):
    return ["TNone", "TTimer", "TZero"][tclass(v)]


def g_op(o):
    n = o[0]
    if n == "next":
        return "Next"
    if n == "put":
        return "Put %s %s" % (G.gz(o[1]), g_tmo(o[2]))
    if n == "putn":
        return "PutNowait %s" % G.gz(o[1])
    if n == "get":
        return "Get %s" % g_tmo(o[1])
    if n == "getn":
        return "GetNowait"
    if n == "done":
        return "TaskDone"
    if n == "join":
        return "Join %s" % g_tmo(o[1])
    if n == "exp":
        return "Expire %s" % G.gnat(o[1])
    if n == "can":
        return "Cancel %s" % G.gnat(o[1])
    if n == "drain":
        return "Drain"
    raise ValueError(n)


def coq_input(case):
    msz = "MNone" if case["m"] is None else "(MInt %s)" % G.gz(case["m"])
    return "(%s, %s, %s)" % (KINDS[case["k"]], msz, G.glist([g_op(o) for o in case["ops"]], "op"))


# ----------------------------------------------------------------------------
# independent Python oracle: the sequential reference (eager removal of dead
# waiters, direct hand-off, sorted list for the priority queue)
# ----------------------------------------------------------------------------
def reference(case):
    import bisect
    kd, m, ops = case["k"], case["m"], case["ops"]
    if m is None:
        return G.Tag("TypeError")
    if m < 0:
        return G.Tag("ValueError")
    items, getters, putters, unf = [], [], [], 0
    futs = []   # [kind, tmo, status] ; status: "P","R",("v",x),"N","T","C"
    trace = [m]

    def full():
        return m > 0 and len(items) >= m

    def admit(x):
        if kd == 0:
            items.append(x)
        elif kd == 1:
            items.insert(0, x)
        else:
            bisect.insort_left(items, x)

    def put_now(x):
        nonlocal unf
        if getters:
            g = getters.pop(0)
            futs[g][2] = ("v", x)
            unf += 1
            return True
        if full():
            return False
        admit(x)
        unf += 1
        return True

    def get_now():
        nonlocal unf
        if putters:
            x, p = putters.pop(0)
            admit(x)
            futs[p][2] = "N"
            unf += 1
            return items.pop(0)
        if items:
            return items.pop(0)
        return None

    def drain():
        for k, f in enumerate(futs):
            if f[2] == "R":
                f[2] = "N"
            elif f[2] == "P" and f[1] == 2:
                finish(k, "T")

    def finish(k, st):
        futs[k][2] = st
        getters[:] = [g for g in getters if g != k]
        putters[:] = [p for p in putters if p[1] != k]

    for o in ops:
        n = o[0]
        k = len(futs)
        if n == "put":
            if put_now(o[1]):
                futs.append(["put", tclass(o[2]), "N"])
            else:
                futs.append(["put", tclass(o[2]), "P"])
                putters.append((o[1], k))
            r = [G.Tag("fut"), k]
        elif n == "putn":
            r = None if put_now(o[1]) else G.Tag("QueueFull")
        elif n in ("get", "next"):
            tc = tclass(o[1]) if n == "get" else 0
            z = get_now()
            if z is None:
                futs.append(["get", tc, "P"])
                getters.append(k)
            else:
                futs.append(["get", tc, ("v", z)])
            r = [G.Tag("fut"), k]
        elif n == "getn":
            z = get_now()
            r = G.Tag("QueueEmpty") if z is None else z
        elif n == "done":
            if unf == 0:
                r = G.Tag("ValueError")
            else:
                unf -= 1
                if unf == 0:
                    for f in futs:
                        if f[0] == "join" and f[2] == "P":
                            f[2] = "R" if f[1] else "N"
                r = None
        elif n == "join":
            futs.append(["join", tclass(o[1]), "N" if unf == 0 else "P"])
            r = [G.Tag("fut"), k]
        elif n == "exp":
            drain()
            j = o[1]
            if j < len(futs) and futs[j][2] == "P" and futs[j][1] == 1:
                finish(j, "T")
            r = None
        elif n == "can":
            j = o[1]
            if j < len(futs) and futs[j][2] in ("P", "R"):
                finish(j, "C")
                r = True
            else:
                r = False
        elif n == "drain":
            drain()
            r = None

        def so(st):
            if st in ("P", "R"):
                return G.Tag("P")
            if st == "N":
                return None
            if st in ("T", "C"):
                return G.Tag(st)
            return st[1]
        trace.append([r, len(items), not items, full(), [so(f[2]) for f in futs]])
    return trace


def _same(a, b):
    if isinstance(a, G.Tag) or isinstance(b, G.Tag):
        return isinstance(a, G.Tag) and isinstance(b, G.Tag) and str(a) == str(b)
    if isinstance(a, list) or isinstance(b, list):
        return isinstance(a, list) and isinstance(b, list) and len(a) == len(b) and all(_same(x, y) for x, y in zip(a, b))
    return type(a) is type(b) and a == b


def py_check(case, o):
    ref = reference(case)
    if isinstance(ref, list) and (not isinstance(o, list) or len(o) != len(case["ops"]) + 1):
        return False
    return _same(o, ref)


# ----------------------------------------------------------------------------
# generators
# ----------------------------------------------------------------------------
def _rand_schedule(rng, n, m, item_mode):
    ops = []
    nf = 0
    counter = [0]

    def item():
        counter[0] += 1
        if item_mode == 0:
            return counter[0]
        if item_mode == 1:
            return 100 - counter[0]
        if item_mode == 2:
            return rng.randrange(-3, 4)
        return rng.choice([0, 1, 1, 2, 5, -1, 7])

    def rt():
        return rng.choice([0, 0, 0, 0, 1, 1, 1, 2, 3, 3, 4, 5, 5])

    # phases bias the mix so that both blocked getters and blocked putters occur
    bias = rng.choice(["put", "get", "mix", "mix"])
    for _ in range(n):
        r = rng.random()
        w_put = {"put": 0.45, "get": 0.15, "mix": 0.28}[bias]
        w_get = {"put": 0.15, "get": 0.45, "mix": 0.28}[bias]
        if r < w_put:
            if rng.random() < 0.75:
                ops.append(["put", item(), rt()])
                nf += 1
            else:
                ops.append(["putn", item()])
        elif r < w_put + w_get:
            r2 = rng.random()
            if r2 < 0.65:
                ops.append(["get", rt()])
                nf += 1
            elif r2 < 0.78:
                ops.append(["next"])
                nf += 1
            else:
                ops.append(["getn"])
        elif r < w_put + w_get + 0.10:
            ops.append(["done"])
        elif r < w_put + w_get + 0.17:
            ops.append(["join", rt()])
            nf += 1
        elif r < w_put + w_get + 0.30:
            ops.append(["exp", rng.randrange(0, nf + 1) if rng.random() < 0.9 else nf + 3])
        elif r < w_put + w_get + 0.40:
            ops.append(["can", rng.randrange(0, nf + 1) if rng.random() < 0.9 else nf + 3])
        else:
            ops.append(["drain"])
        if rng.random() < 0.08:
            bias = rng.choice(["put", "get", "mix"])
    return ops


def corpus_cases():
    out = []
    for k in range(3):
        # tornado's own queues_test scenarios, condensed
        out.append(mk(k, 0, [["put", 3, False], ["put", 1, False], ["put", 2, False], ["get", False], ["get", False], ["get", False], ["getn"]]))
        out.append(mk(k, 1, [["put", 0, False], ["put", 1, True], ["put", 2, False], ["exp", 1], ["get", False], ["get", False], ["get", True]]))
        out.append(mk(k, 0, [["get", True], ["get", False], ["exp", 0], ["putn", 5], ["putn", 6], ["getn"]]))
        out.append(mk(k, 2, [["join", True], ["putn", 1], ["join", False], ["join", True], ["done"], ["done"], ["drain"], ["exp", 2]]))
        out.append(mk(k, 1, [["putn", 9], ["join", True], ["join", True], ["getn"], ["done"], ["can", 0], ["drain"], ["exp", 1]]))
        # expired waiter behind a live one (only the head is popped by _consume_expired)
        out.append(mk(k, 1, [["putn", 1], ["put", 2, False], ["put", 3, True], ["put", 4, False], ["exp", 2], ["getn"], ["getn"], ["getn"], ["getn"]]))
        out.append(mk(k, 0, [["get", False], ["get", True], ["get", False], ["can", 1], ["putn", 1], ["putn", 2], ["putn", 3], ["getn"]]))
        # zero timeouts: 0 / 0.0 / timedelta(0) raise when the loop next runs, or return at once
        out.append(mk(k, 1, [["put", 1, 3], ["put", 2, 3], ["get", 4], ["get", 5], ["get", 3], ["drain"], ["putn", 7], ["getn"]]))
        out.append(mk(k, 0, [["putn", 1], ["join", 3], ["join", 5], ["done"], ["join", 4], ["drain"], ["next"], ["next"], ["putn", 4]]))
        out.append(mk(k, 1, [["putn", 1], ["join", 5], ["getn"], ["done"], ["drain"], ["get", 2], ["exp", 1], ["put", 3, 2], ["put", 4, 2], ["exp", 3]]))
    return out


def _families(rng):
    out = []
    for k in range(3):
        for m in range(0, 4):
            # fill, overfill with blocked putters, kill some of them, drain through gets
            for kill in itertools.product([None, "exp", "can"], repeat=2):
                ops = [["putn", 10 - i] for i in range(max(m, 1))]
                ops += [["put", 20, True], ["put", 5, True], ["put", 30, False]]
                for i, kl in enumerate(kill):
                    if kl:
                        ops.append([kl, i])
                ops += [["get", False], ["getn"], ["get", True], ["getn"], ["getn"], ["get", False]]
                ops += [["done"]] * 3 + [["join", True], ["done"], ["done"], ["done"], ["done"], ["drain"]]
                out.append(mk(k, m, ops))
            # blocked getters, kill some, then feed
            for kill in itertools.product([None, "exp", "can"], repeat=2):
                ops = [["get", True], ["get", True], ["get", False]]
                for i, kl in enumerate(kill):
                    if kl:
                        ops.append([kl, i])
                ops += [["putn", 3], ["put", 1, False], ["putn", 2], ["put", 0, True], ["putn", 7], ["putn", 8], ["getn"]]
                out.append(mk(k, m, ops))
    return out


# zero timeouts (0 / 0.0 / timedelta(0)) and async iteration
ALPHA_ZERO = [["put", None, 3], ["get", 5], ["next"], ["putn", None], ["getn"], ["join", 4], ["done"], ["drain"], ["can", "any"]]
ALPHA_SMALL = [["put", None, True], ["get", True], ["putn", None], ["getn"], ["done"], ["join", True], ["exp", "any"], ["can", "any"]]


def _exhaustive(kinds, sizes, length, alphabet, with_ids=2):
    """every schedule of exactly `length` symbols; items are 3,2,1,... then 4,5,.. (so FIFO, LIFO and priority order all differ);
    exp/can range over future ids 0..with_ids-1"""
    syms = []
    for a in alphabet:
        if a[0] in ("exp", "can"):
            for i in range(with_ids):
                syms.append([a[0], i])
        else:
            syms.append(a)
    seq_items = [3, 1, 2, 0, 5, 4, 6, 7, 8]
    for k in kinds:
        for m in sizes:
            for tup in itertools.product(syms, repeat=length):
                ops = []
                c = 0
                for a in tup:
                    if a[0] in ("put", "putn"):
                        b = list(a)
                        b[1] = seq_items[c % len(seq_items)]
                        c += 1
                        ops.append(b)
                    else:
                        ops.append(list(a))
                yield mk(k, m, ops)


def gen_cases(rng, tier):
    out = []
    out += _families(rng)
    n_rand = 700 if tier == "quick" else 6000
    for i in range(n_rand):
        k = i % 3
        m = rng.choice([0, 1, 1, 2, 2, 3])
        n = rng.choice([3, 6, 9, 12, 14])
        out.append(mk(k, m, _rand_schedule(rng, n, m, rng.randrange(4))))
    # constructor argument handling
    for k in range(3):
        for m in (None, -1, -5):
            out.append(mk(k, m, [["putn", 1], ["getn"]]))
    if tier == "quick":
        # all schedules of length 3 over the reduced alphabet, one class per maxsize (rotating)
        for m in range(4):
            out += list(_exhaustive([m % 3], [m], 3, ALPHA_SMALL, with_ids=1))
        for m in (0, 1):
            out += list(_exhaustive([(m + 1) % 3], [m], 3, ALPHA_ZERO, with_ids=1))
    else:
        ex = []
        for L in (1, 2, 3, 4):
            ex += list(_exhaustive([0, 1, 2], [0, 1, 2, 3], L, ALPHA_SMALL, with_ids=2))
        # length 5 for maxsize 1, where blocking happens at once (no join/task_done symbols)
        ex += list(_exhaustive([0, 1, 2], [1], 5, [a for a in ALPHA_SMALL if a[0] not in ("join", "done")], with_ids=2))
        for L in (1, 2, 3, 4):
            ex += list(_exhaustive([0, 1, 2], [0, 1, 2], L, ALPHA_ZERO, with_ids=1))
        for c in ex:
            c["x"] = 1          # exhaustive block: all cases go through the Python reference, 1 in 8 also through Coq
        out += ex
    return out


def coq_select(i, case):
    # everything goes through py_check (the Python reference); Coq evaluates every case in the quick tier and a
    # deterministic 1-in-N sample of the exhaustive block in the thorough tier
    return not case.get("x") or i % 8 == 0


def nontrivial(case, o):
    if not isinstance(o, list):
        return None
    moved = any(isinstance(st[0], int) and not isinstance(st[0], bool) for st in o if isinstance(st, list))
    blocked = any(any(isinstance(x, G.Tag) and x == "P" for x in st[4]) for st in o if isinstance(st, list) and len(st) == 5)
    if not (moved or blocked or any(isinstance(x, int) for st in o if isinstance(st, list) and len(st) == 5 for x in st[4])):
        return None
    return (case["k"], case["m"], repr(case["ops"]))


def classify(case, o):
    yield "class=" + KINDS[case["k"]]
    yield "maxsize=%s" % case["m"]
    for x in case["ops"]:
        if x[0] in ("put", "get", "join"):
            yield "tmo=%d" % tcode(x[-1])
    n = len(case["ops"])
    yield "len=" + ("0-3" if n <= 3 else "4-6" if n <= 6 else "7-10" if n <= 10 else "11+")
    names = {x[0] for x in case["ops"]}
    for nm in sorted(names):
        yield "has=" + nm
    if isinstance(o, list) and o and isinstance(o[-1], list) and len(o[-1]) == 5:
        sts = o[-1][4]
        if any(isinstance(x, G.Tag) and x == "T" for x in sts):
            yield "some-timeout"
        if any(isinstance(x, G.Tag) and x == "C" for x in sts):
            yield "some-cancel"
        if any(isinstance(x, G.Tag) and x == "P" for x in sts):
            yield "ends-with-pending"
        res = [st[0] for st in o if isinstance(st, list)]
        if any(isinstance(x, G.Tag) and x == "QueueFull" for x in res):
            yield "QueueFull"
        if any(isinstance(x, G.Tag) and x == "QueueEmpty" for x in res):
            yield "QueueEmpty"
        if any(isinstance(x, G.Tag) and x == "ValueError" for x in res):
            yield "task_done-ValueError"


def signature(case, o):
    return "%s-m%s" % (KINDS[case["k"]], case["m"] if case["m"] is None else min(case["m"], 1))


def shrink(case):
    ops = case["ops"]
    for i in range(len(ops)):
        yield dict(case, ops=ops[:i] + ops[i + 1:])
    if ops:
        yield dict(case, ops=ops[:-1])
    for i, o in enumerate(ops):
        if o[0] in ("put", "get", "join") and o[-1]:
            o2 = list(o)
            o2[-1] = 0
            yield dict(case, ops=ops[:i] + [o2] + ops[i + 1:])


LEVEL_TEXT = ("Machine-checked (Coq) proof, for every queue class, every maxsize and every schedule of put/put_nowait/get/get_nowait/task_done/join/"
              "timer expiry/cancellation/loop drain, that the line-by-line model of tornado.queues (lazy _consume_expired, hand-off through the container, "
              "Event-based join) produces exactly the observations of a sequential reference queue in which timed-out and cancelled waiters vanish at once, "
              "(zero timeouts fire when the loop next runs, async iteration is get(), the constructor rejects None/negative maxsize) plus invariants: conservation of items, maxsize bound, waiters imply empty/full, internal asserts unreachable, join pending iff unfinished > 0, "
              "extra task_done raises. The model is compared with the real classes on generated and exhaustively enumerated schedules on every run.")
LEVEL_NOTE = ("Trusted: Coq kernel/vm_compute; asyncio loop and Future semantics as summarised by the Pending/Ready/done statuses; heapq returns a minimum; "
              "virtual-clock harness; correspondence harness.")
TECHNIQUE = "Coq proof (forward simulation to a reference model via an abstraction function + inductive invariants over operation lists) + differential correspondence via vm_compute"
