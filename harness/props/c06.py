"""C06 — HTTPHeaders behaves as a case-insensitive insertion-ordered multimap.

A case is a program: a list of commands run against a list of HTTPHeaders objects
(object 0 = HTTPHeaders()).  Commands:
  ["on", i, "add", n, v] ["on", i, "set", n, v] ["on", i, "del", n] ["on", i, "get", n]
  ["on", i, "get_list", n] ["on", i, "contains", n] ["on", i, "keys"] ["on", i, "get_all"]
  ["on", i, "parse_line", line] ["on", i, "str"]
  ["on", i, "getd", n] ["on", i, "pop", n] ["on", i, "setdefault", n, v] ["on", i, "items"] ["on", i, "len"]
  ["on", i, "update", [[n, v], ...]] ["on", i, "popitem"] ["on", i, "clear"] ["on", i, "values"]     (MutableMapping mixins)
  ["fromkw", pairs, kwpairs]              (HTTPHeaders(pairs_or_dict, **kwargs))
  ["copy", i]  ["parse", text]  ["reparse", i]  ["frompairs", [[n, v], ...]]  ["eq", i, j]
Observable: the result (or exception kind) of every command, then list(h) and
list(h.get_all()) of every object.
"""
import itertools
import os

from harness import gallina as G
from harness.framework import REPO, COQ

ID = "C06"
COQ_DIRS = ["C06"]
PROPERTY_FILE = "C06/Property.v"
RUN_IMPORTS = "From TV Require Import C06.Model C06.Spec C06.Run."
RUN_FN = "run_case"
CHECK_FN = "check_case"
INPUT_TYPE = "(list cmd)"
EXHAUSTIVE = {"quick": True, "thorough": True}



def pre_build():
    """regenerate coq/Gen/C06_src.v from the working tree (fail closed)"""
    import importlib
    import sys
    sys.path.insert(0, os.path.join(os.path.dirname(COQ), "translators"))
    import c06_src
    importlib.reload(c06_src)
    c06_src.emit(REPO, os.path.join(COQ, "Gen", "C06_src.v"))


TRUSTED_BASE = [
    "translators/c06_src.py (strict ast reader of _normalize_header, HTTP_WHITESPACE and the _ABNF character classes / pattern shapes; fails closed); "
    "the composition of the classes into field_value / token (first and last character a field_vchar, '+') is checked as a fixed template, its regex semantics is hand-modelled",
    "Python's re engine on _ABNF.field_name / _ABNF.field_value / r'\\r?\\n$' and str.split/strip/capitalize/join are modelled by hand "
    "(is_token, is_field_value, strip_eol, split1, capitalize, join) and tied only by the correspondence cases",
    "field names given to the unvalidated mapping methods (h[n]=v, h[n], del h[n], n in h, get_list) are ASCII: str.capitalize on non-ASCII "
    "text does Unicode case mapping, the model folds ASCII letters only (add/parse_line reject non-token names before normalising, so they are covered for every input)",
    "only _chars_are_bytes=True (the HTTP/1 path) is modelled; the multipart variant of the value check is not",
    "aliasing is outside a purely functional model: get_list() returns the internal list object; the harness copies every returned list. "
    "Independence of copy() from its source is checked by the correspondence cases (every exhaustive case mutates both after a copy), not by a theorem about Python object identity",
]
ASSUMPTIONS = [
    "names passed to the unvalidated mapping methods are ASCII (see trusted base)",
    "round-trip theorem: every name in the map is a token and every value matches field-value (true for any map built with add/parse_line/parse/copy, "
    "or with h[n]=v for token n and field-value v); a map holding a raw value such as ' x' or 'a\\nb' set through h[n]=v does not round-trip and copy() of it raises HTTPInputError (modelled, tested)",
]
RULE = ("programs over names differing only in case (a, A, x-y, X-Y, ...) and field-value-shaped values: exhaustive over a 13-letter operation alphabet "
        "up to length 2 plus 8 letters at length 3 (quick) / 13 letters up to length 3, 11 letters at length 4 and 7 letters at length 5 (thorough), each followed by copy + mutation of both objects + reparse; "
        "a cache-probe family: every sequence of mutating operations (add k / add K / set k / del K / continuation / header line [/ add b]) of length <= 4 (quick) / <= 5 (thorough) "
        "with a mapping read of every key after every step; "
        "plus random programs up to length 12 over a richer alphabet (invalid names/values, CR/LF variants, continuation lines, header blocks); "
        "distinct by program; non-trivial = at least one command changed an object")

NAMES = ["a", "A", "x-y", "X-Y", "x-Y", "b"]
ODD_NAMES = ["", "a b", "a:", "-", "a-", "-a", "a--b", "Content-Type", "a_b", "1a", "sET-cOOKIE", "a\t", "~"]
NONASCII_NAMES = ["\xe9", "a\u0100", "\xdf"]          # only where the name is validated first
VALUES = ["1", "2", "v w", "", "a,b", "\xe9", "x\ty"]
BAD_VALUES = [" x", "x ", "\tx", "x\ny", "x\r", "\u0100", "x\x00y", "\x7f", " "]
EOLS = ["", "", "\r\n", "\r\n", "\n", "\n\n", "\r\n\n", "\r", "\r\r\n", "\n\r\n"]
CONT = [" c", "\tc2 ", " ", "  \r\n", " bad\x01", " d e\r\n", "\t\t", " \xe9", " x\n", " \u0100"]
MALFORMED = ["nocolon", ":", ": v", "a :v", "", "\r\n", "\n", "\r", "a", "a:\x00", ":\n", "a:b:c", "a::", "\n\n", "a: b\n\n", "é: v"]


def on(i, *a):
    return ["on", i] + list(a)


def _pairs_arg(l):
    """the argument of update() / the dict-style constructor: a dict when that loses nothing, else a list of tuples"""
    ks = [k for k, _ in l]
    if len(set(ks)) == len(ks) and len(l) % 2 == 0:
        return {k: v for k, v in l}
    return [(k, v) for k, v in l]


def _norm_err(f):
    from tornado.httputil import HTTPInputError
    try:
        return f()
    except HTTPInputError:
        return G.Tag("HTTPInputError")
    except KeyError:
        return G.Tag("KeyError")
    except IndexError:
        return G.Tag("IndexError")


def run_impl(case):
    from tornado.httputil import HTTPHeaders
    objs = [HTTPHeaders()]
    results = []

    def unit(f):
        def g():
            f()
            return None
        return g

    for c in case:
        kind = c[0]
        if kind == "on":
            i, name, args = c[1], c[2], c[3:]
            if not (0 <= i < len(objs)):
                results.append(G.Tag("BadTarget"))
                continue
            h = objs[i]
            if name == "add":
                r = _norm_err(unit(lambda: h.add(args[0], args[1])))
            elif name == "set":
                r = _norm_err(unit(lambda: h.__setitem__(args[0], args[1])))
            elif name == "del":
                r = _norm_err(unit(lambda: h.__delitem__(args[0])))
            elif name == "get":
                r = _norm_err(lambda: h[args[0]])
            elif name == "get_list":
                r = _norm_err(lambda: list(h.get_list(args[0])))
            elif name == "contains":
                r = _norm_err(lambda: args[0] in h)
            elif name == "keys":
                r = _norm_err(lambda: list(h))
            elif name == "get_all":
                r = _norm_err(lambda: [[k, v] for k, v in h.get_all()])
            elif name == "parse_line":
                r = _norm_err(unit(lambda: h.parse_line(args[0])))
            elif name == "str":
                r = _norm_err(lambda: str(h))
            elif name == "getd":
                r = _norm_err(lambda: h.get(args[0]))
            elif name == "pop":
                r = _norm_err(lambda: h.pop(args[0]))
            elif name == "setdefault":
                r = _norm_err(lambda: h.setdefault(args[0], args[1]))
            elif name == "items":
                r = _norm_err(lambda: [[k, v] for k, v in h.items()])
            elif name == "len":
                r = _norm_err(lambda: len(h))
            elif name == "update":
                r = _norm_err(unit(lambda: h.update(_pairs_arg(args[0]))))
            elif name == "popitem":
                r = _norm_err(lambda: [list(h.popitem())])
            elif name == "clear":
                r = _norm_err(unit(lambda: h.clear()))
            elif name == "values":
                r = _norm_err(lambda: list(h.values()))
            else:
                raise ValueError(name)
            results.append(r)
        elif kind in ("copy", "reparse"):
            i = c[1]
            if not (0 <= i < len(objs)):
                results.append(G.Tag("BadTarget"))
                continue
            src = objs[i]
            new = _norm_err((lambda: src.copy()) if kind == "copy" else (lambda: HTTPHeaders.parse(str(src))))
            if isinstance(new, G.Tag):
                results.append(new)
            else:
                objs.append(new)
                results.append(None)
        elif kind == "eq":
            if not (0 <= c[1] < len(objs) and 0 <= c[2] < len(objs)):
                results.append(G.Tag("BadTarget"))
                continue
            results.append(_norm_err(lambda: objs[c[1]] == objs[c[2]]))
        elif kind in ("frompairs", "fromkw"):
            if kind == "fromkw":      # HTTPHeaders(mapping_or_pairs, **kwargs): update(arg) then the keywords in order
                new = _norm_err(lambda: HTTPHeaders(_pairs_arg(c[1]), **{k: v for k, v in c[2]}) if c[1] else HTTPHeaders(**{k: v for k, v in c[2]}))
            else:
                new = _norm_err(lambda: HTTPHeaders(_pairs_arg(c[1])))
            if isinstance(new, G.Tag):
                results.append(new)
            else:
                objs.append(new)
                results.append(None)
        elif kind == "parse":
            new = _norm_err(lambda: HTTPHeaders.parse(c[1]))
            if isinstance(new, G.Tag):
                results.append(new)
            else:
                objs.append(new)
                results.append(None)
        else:
            raise ValueError(kind)
    dumps = []
    for h in objs:
        ks = list(h)
        assert len(h) == len(ks)
        dumps.append([ks, [[k, v] for k, v in h.get_all()]])
    return [results, dumps]


def _t(s):
    return G.gbytes(s)


def _gpairs(l):
    return G.glist(["(%s, %s)" % (_t(k), _t(v)) for k, v in l], "(text * text)")


def coq_cmd(c):
    kind = c[0]
    if kind == "on":
        i, name, args = c[1], c[2], c[3:]
        opt = {
            "add": lambda: "(Add %s %s)" % (_t(args[0]), _t(args[1])),
            "set": lambda: "(SetItem %s %s)" % (_t(args[0]), _t(args[1])),
            "del": lambda: "(DelItem %s)" % _t(args[0]),
            "get": lambda: "(GetItem %s)" % _t(args[0]),
            "get_list": lambda: "(GetList %s)" % _t(args[0]),
            "contains": lambda: "(Contains %s)" % _t(args[0]),
            "keys": lambda: "Keys",
            "get_all": lambda: "GetAll",
            "parse_line": lambda: "(ParseLine %s)" % _t(args[0]),
            "str": lambda: "ToString",
            "getd": lambda: "(GetD %s)" % _t(args[0]),
            "pop": lambda: "(Pop %s)" % _t(args[0]),
            "setdefault": lambda: "(SetDefault %s %s)" % (_t(args[0]), _t(args[1])),
            "items": lambda: "Items",
            "len": lambda: "Len",
            "update": lambda: "(Update %s)" % _gpairs(args[0]),
            "popitem": lambda: "PopItem",
            "clear": lambda: "Clear",
            "values": lambda: "Values",
        }[name]()
        return "On %s %s" % (G.gnat(i), opt)
    if kind == "copy":
        return "Copy %s" % G.gnat(c[1])
    if kind == "reparse":
        return "Reparse %s" % G.gnat(c[1])
    if kind == "parse":
        return "Parse %s" % _t(c[1])
    if kind == "frompairs":
        return "FromPairs %s" % _gpairs(c[1])
    if kind == "fromkw":     # same self[k] = v sequence: positional pairs first, then the keywords
        return "FromPairs %s" % _gpairs(list(c[1]) + list(c[2]))
    if kind == "eq":
        return "Eq %s %s" % (G.gnat(c[1]), G.gnat(c[2]))
    raise ValueError(kind)


def coq_input(case):
    return G.glist([coq_cmd(c) for c in case], "cmd")


# ---------------------------------------------------------------------------
# independent Python oracle: a plain multimap keyed by the lower-cased name
# ---------------------------------------------------------------------------
_TCHARS = set("!#$%&'*+-.^_`|~0123456789abcdefghijklmnopqrstuvwxyzABCDEFGHIJKLMNOPQRSTUVWXYZ")


def _is_token(n):
    return len(n) > 0 and all(ch in _TCHARS for ch in n)


def _vchar(ch):
    o = ord(ch)
    return 0x21 <= o <= 0x7E or 0x80 <= o <= 0xFF


def _is_fv(v):
    if v == "":
        return True
    return _vchar(v[0]) and _vchar(v[-1]) and all(_vchar(ch) or ch in " \t" for ch in v)


def _disp(n):
    out, start = [], True
    for ch in n:
        if ch == "-":
            out.append(ch)
            start = True
        else:
            out.append(ch.upper() if start and "a" <= ch <= "z" else ch.lower() if (not start and "A" <= ch <= "Z") else ch)
            start = False
    return "".join(out)


def _fold(n):
    return "".join(chr(ord(ch) + 32) if "A" <= ch <= "Z" else ch for ch in n)


class _Ref:
    """list of [folded key, display name, values]; no cache"""

    def __init__(self):
        self.rows = []
        self.last = None

    def find(self, n):
        k = _fold(n)
        for r in self.rows:
            if r[0] == k:
                return r
        return None

    def add(self, n, v):
        if not _is_token(n) or not _is_fv(v):
            return G.Tag("HTTPInputError")
        r = self.find(n)
        if r:
            r[2].append(v)
        else:
            self.rows.append([_fold(n), _disp(n), [v]])
        self.last = _fold(n)
        return None

    def parse_line(self, line):
        if line.endswith("\n"):
            if line.endswith("\n\n"):
                line = line[:-2]
                if line.endswith("\r"):
                    line = line[:-1]
            elif line.endswith("\r\n"):
                line = line[:-2]
            else:
                line = line[:-1]
        if not line:
            return None
        if line[0] in " \t":
            if self.last is None:
                return G.Tag("HTTPInputError")
            part = line.strip(" \t")
            if not _is_fv(part):
                return G.Tag("HTTPInputError")
            r = self.find(self.last)
            if r is None:
                return G.Tag("KeyError")
            r[2][-1] = (r[2][-1] + " " + part).strip(" \t")
            return None
        if ":" not in line:
            return G.Tag("HTTPInputError")
        n, v = line.split(":", 1)
        return self.add(n, v.strip(" \t"))

    def update(self, l):
        for k, v in l:
            r = self.find(k)
            if r:
                r[2] = [v]
            else:
                self.rows.append([_fold(k), _disp(k), [v]])

    def pairs(self):
        return [[r[1], v] for r in self.rows for v in r[2]]

    def text(self):
        return "".join("%s: %s\n" % (k, v) for k, v in self.pairs())

    @classmethod
    def parse(cls, t):
        h = cls()
        pieces = t.split("\n")
        for j, p in enumerate(pieces):
            r = h.parse_line(p + ("\n" if j < len(pieces) - 1 else ""))
            if r is not None:
                return r
        return h

    def copy(self):
        h = _Ref()
        for k, v in self.pairs():
            r = h.add(k, v)
            if r is not None:
                return r
        return h


def py_expected(case):
    objs = [_Ref()]
    res = []
    for c in case:
        if c[0] == "on":
            i, name, a = c[1], c[2], c[3:]
            if not (0 <= i < len(objs)):
                res.append(G.Tag("BadTarget"))
                continue
            h = objs[i]
            if name == "add":
                res.append(h.add(a[0], a[1]))
            elif name == "set":
                r = h.find(a[0])
                if r:
                    r[2] = [a[1]]
                else:
                    h.rows.append([_fold(a[0]), _disp(a[0]), [a[1]]])
                res.append(None)
            elif name == "del":
                r = h.find(a[0])
                if r:
                    h.rows.remove(r)
                    res.append(None)
                else:
                    res.append(G.Tag("KeyError"))
            elif name == "get":
                r = h.find(a[0])
                res.append(",".join(r[2]) if r else G.Tag("KeyError"))
            elif name == "get_list":
                r = h.find(a[0])
                res.append(list(r[2]) if r else [])
            elif name == "contains":
                res.append(h.find(a[0]) is not None)
            elif name == "keys":
                res.append([r[1] for r in h.rows])
            elif name == "get_all":
                res.append(h.pairs())
            elif name == "parse_line":
                res.append(h.parse_line(a[0]))
            elif name == "str":
                res.append(h.text())
            elif name == "getd":
                r = h.find(a[0])
                res.append(",".join(r[2]) if r else None)
            elif name == "pop":
                r = h.find(a[0])
                if r:
                    h.rows.remove(r)
                    res.append(",".join(r[2]))
                else:
                    res.append(G.Tag("KeyError"))
            elif name == "setdefault":
                r = h.find(a[0])
                if r:
                    res.append(",".join(r[2]))
                else:
                    h.rows.append([_fold(a[0]), _disp(a[0]), [a[1]]])
                    res.append(a[1])
            elif name == "items":
                res.append([[r[1], ",".join(r[2])] for r in h.rows])
            elif name == "len":
                res.append(len(h.rows))
            elif name == "update":
                h.update(a[0])
                res.append(None)
            elif name == "popitem":
                if h.rows:
                    r = h.rows.pop(0)
                    res.append([[r[1], ",".join(r[2])]])
                else:
                    res.append(G.Tag("KeyError"))
            elif name == "clear":
                h.rows = []
                res.append(None)
            elif name == "values":
                res.append([",".join(r[2]) for r in h.rows])
        elif c[0] == "eq":
            if not (0 <= c[1] < len(objs) and 0 <= c[2] < len(objs)):
                res.append(G.Tag("BadTarget"))
                continue
            x, y = objs[c[1]], objs[c[2]]
            res.append({r[1]: ",".join(r[2]) for r in x.rows} == {r[1]: ",".join(r[2]) for r in y.rows})
        elif c[0] in ("frompairs", "fromkw"):
            new = _Ref()
            new.update(c[1])
            if c[0] == "fromkw":
                new.update(c[2])
            objs.append(new)
            res.append(None)
        else:
            if c[0] == "parse":
                new = _Ref.parse(c[1])
            else:
                if not (0 <= c[1] < len(objs)):
                    res.append(G.Tag("BadTarget"))
                    continue
                new = objs[c[1]].copy() if c[0] == "copy" else _Ref.parse(objs[c[1]].text())
            if isinstance(new, G.Tag):
                res.append(new)
            else:
                objs.append(new)
                res.append(None)
    return [res, [[[r[1] for r in h.rows], h.pairs()] for h in objs]]


def _same(a, b):
    if isinstance(a, G.Tag) or isinstance(b, G.Tag):
        return isinstance(a, G.Tag) and isinstance(b, G.Tag) and str(a) == str(b)
    if isinstance(a, (list, tuple)) and isinstance(b, (list, tuple)):
        return len(a) == len(b) and all(_same(x, y) for x, y in zip(a, b))
    return type(a) is type(b) and a == b


def _validated(case):
    for c in case:
        if c[0] == "on" and c[2] in ("set", "setdefault") and not (_is_token(c[3]) and _is_fv(c[4])):
            return False
        if c[0] == "on" and c[2] == "update" and not all(_is_token(k) and _is_fv(v) for k, v in c[3]):
            return False
        if c[0] in ("frompairs", "fromkw") and not all(_is_token(k) and _is_fv(v) for k, v in list(c[1]) + (list(c[2]) if c[0] == "fromkw" else [])):
            return False
    return True


def py_check(case, obs):
    if not _same(obs, py_expected(case)):
        return False
    if _validated(case):
        # every reachable map can be copied and survives str()/parse()
        for c, r in zip(case, obs[0]):
            if c[0] in ("copy", "reparse") and not (r is None or (isinstance(r, G.Tag) and str(r) == "BadTarget")):
                return False
    return True


# ---------------------------------------------------------------------------
# generator
# ---------------------------------------------------------------------------
def observe(i, names=("a", "x-Y", "b")):
    out = []
    for n in names:
        out += [on(i, "contains", n), on(i, "get", n), on(i, "get_list", n), on(i, "get", n)]
    return out


ALPHA12 = [
    lambda p: on(0, "add", "a", "v%d" % p),
    lambda p: on(0, "add", "A", "w%d" % p),
    lambda p: on(0, "add", "x-y", "u%d" % p),
    lambda p: on(0, "set", "A", "s%d" % p),
    lambda p: on(0, "set", "X-y", "t%d" % p),
    lambda p: on(0, "del", "a"),
    lambda p: on(0, "del", "X-Y"),
    lambda p: on(0, "get", "A"),
    lambda p: on(0, "get", "x-Y"),
    lambda p: on(0, "parse_line", (" c%d" % p) if p % 2 == 0 else " \t"),
    lambda p: on(0, "parse_line", "a:p%d\r\n" % p),
    lambda p: ["copy", 0],
    lambda p: on(0, "parse_line", "A:"),
]
ALPHA11 = [ALPHA12[i] for i in (0, 1, 2, 3, 5, 6, 7, 9, 10, 11, 12)]
ALPHA8 = [ALPHA12[i] for i in (0, 1, 3, 5, 7, 9, 11, 12)]
ALPHA7 = [ALPHA12[i] for i in (0, 1, 3, 5, 7, 9, 12)]


def exhaustive(alpha, n):
    for seq in itertools.product(range(len(alpha)), repeat=n):
        prog = [alpha[k](p) for p, k in enumerate(seq)]
        ncopies = sum(1 for c in prog if c[0] == "copy")
        last = ncopies + 1        # index of the copy made by the tail (copies of valid maps never fail)
        tail = [["copy", 0], on(last, "add", "a", "z"), on(0, "add", "X-Y", "y"), on(last, "del", "x-y"),
                on(0, "get", "a"), on(last, "get", "a"), on(0, "get", "x-y"), ["reparse", 0]]
        yield prog + tail


# cache-probe family: every sequence of MUTATING operations, with a mapping-style read of every key
# after EVERY step (the reads are what populates _combined_cache, so any write that forgets to
# invalidate it is exposed by the next read, whatever the number of values the name has)
PROBE6 = [
    lambda p: on(0, "add", "a", "v%d" % p),
    lambda p: on(0, "add", "A", "w%d" % p),
    lambda p: on(0, "set", "a", "s%d" % p),
    lambda p: on(0, "del", "A"),
    lambda p: on(0, "parse_line", (" c%d" % p) if p % 2 == 0 else "\t"),
    lambda p: on(0, "parse_line", "a: p%d\r\n" % p),
]
PROBE7 = PROBE6 + [lambda p: on(0, "add", "b", "q%d" % p)]
PROBE8 = PROBE6 + [lambda p: on(0, "pop", "a"), lambda p: on(0, "setdefault", "A", "d%d" % p), lambda p: on(0, "popitem")]
PROBE9 = PROBE8 + [lambda p: on(0, "add", "b", "q%d" % p)]


def cache_probe(alpha, n, keys):
    # the mapping-style reads: h[k], h.get(k), list(h.items()) -- all go through __getitem__
    for seq in itertools.product(range(len(alpha)), repeat=n):
        prog = []
        for p, k in enumerate(seq):
            prog.append(alpha[k](p))
            kind = (p + n) % 4
            if kind == 3:
                prog.append(on(0, "values"))
            elif kind == 0:
                prog += [on(0, "get", k2) for k2 in keys]
            elif kind == 1:
                prog += [on(0, "getd", k2) for k2 in keys]
            else:
                prog.append(on(0, "items"))
        prog += [on(0, "get", keys[0]), on(0, "get_list", keys[0]), on(0, "str"), ["copy", 0], on(1, "get", keys[0]),
                 ["eq", 0, 1], ["reparse", 0], ["eq", 0, 2]]
        yield prog


def rand_name(rng, validated):
    r = rng.random()
    if r < 0.75:
        return rng.choice(NAMES)
    if r < 0.95 or not validated:
        return rng.choice(ODD_NAMES)
    return rng.choice(NONASCII_NAMES)


def rand_value(rng, p_bad=0.12):
    return rng.choice(BAD_VALUES) if rng.random() < p_bad else rng.choice(VALUES)


def rand_line(rng):
    r = rng.random()
    if r < 0.25:
        return rng.choice(CONT)
    if r < 0.35:
        return rng.choice(MALFORMED)
    return (rand_name(rng, True) + ":" + rng.choice(["", " ", "  ", "\t"]) + rand_value(rng, 0.08)
            + rng.choice(["", "", " ", "\t"]) + rng.choice(EOLS))


def rand_block(rng):
    n = rng.randrange(0, 5)
    t = "".join((rand_line(rng).rstrip("\r\n") + rng.choice(["\r\n", "\r\n", "\n"])) for _ in range(n))
    return t + rng.choice(["", "", "\r\n", "x", " tail"])


def rand_pairs(rng):
    return [[rand_name(rng, False), rand_value(rng, 0.1)] for _ in range(rng.randrange(0, 4))]


def rand_prog(rng, maxlen):
    n = rng.randrange(1, maxlen + 1)
    prog, nobj = [], 1
    for _ in range(n):
        i = rng.randrange(nobj) if rng.random() < 0.97 else nobj + rng.randrange(2)
        r = rng.random()
        if r < 0.22:
            c = on(i, "add", rand_name(rng, True), rand_value(rng))
        elif r < 0.34:
            c = on(i, "set", rand_name(rng, False), rand_value(rng, 0.1))
        elif r < 0.46:
            c = on(i, "del", rand_name(rng, False))
        elif r < 0.58:
            c = on(i, "get", rand_name(rng, False))
        elif r < 0.63:
            c = on(i, "get_list", rand_name(rng, False))
        elif r < 0.68:
            c = on(i, "contains", rand_name(rng, False))
        elif r < 0.82:
            c = on(i, "parse_line", rand_line(rng))
        elif r < 0.85:
            c = on(i, rng.choice(["keys", "get_all", "str", "items", "len", "items"]))
        elif r < 0.885:
            k = rng.random()
            if k < 0.3:
                c = on(i, "pop", rand_name(rng, False))
            elif k < 0.55:
                c = on(i, "setdefault", rand_name(rng, False), rand_value(rng, 0.1))
            elif k < 0.7:
                c = on(i, "update", rand_pairs(rng))
            elif k < 0.8:
                c = ["eq", i, rng.randrange(nobj)]
            elif k < 0.86:
                c = on(i, rng.choice(["popitem", "popitem", "clear", "values"]))
            elif k < 0.93:
                c = ["frompairs", rand_pairs(rng)]
                nobj += 1
            else:
                kw = {}
                for kk, vv in rand_pairs(rng):
                    kw[kk] = vv
                c = ["fromkw", rand_pairs(rng), [[kk, vv] for kk, vv in kw.items()]]
                nobj += 1
        elif r < 0.91:
            c = ["copy", i]
            nobj += 1          # may fail; targets past the end are legal (BadTarget)
        elif r < 0.96:
            c = ["reparse", i]
            nobj += 1
        else:
            c = ["parse", rand_block(rng)]
            nobj += 1
        prog.append(c)
        if c[0] == "on" and c[2] in ("add", "set", "del", "parse_line", "get", "pop", "setdefault", "update") and rng.random() < 0.6:
            # read a recently touched key (under another spelling) right after the write
            recent = [x[3] for x in prog[-6:] if x[0] == "on" and x[2] in ("add", "set", "get") and all(ord(ch) < 128 for ch in x[3])]
            nm = rng.choice(recent) if recent else rng.choice(NAMES)
            rk = rng.random()
            if rk < 0.6:
                prog.append(on(c[1], "get", rng.choice([nm, nm.upper(), nm.lower()])))
            elif rk < 0.8:
                prog.append(on(c[1], "getd", rng.choice([nm, nm.upper(), nm.lower()])))
            else:
                prog.append(on(c[1], "items"))
    prog += observe(rng.randrange(nobj), (rng.choice(NAMES), rng.choice(NAMES)))
    return prog


def corpus_cases():
    return [
        # DESIGN section 8 witness (fixed by 8cd6af7): del after a second add
        [on(0, "add", "A", "1"), on(0, "add", "a", "2"), on(0, "del", "A"), on(0, "contains", "a")],
        # stale cache orders
        [on(0, "add", "a", "1"), on(0, "get", "A"), on(0, "add", "A", "2"), on(0, "get", "a")],
        [on(0, "set", "a", "1"), on(0, "add", "A", "2"), on(0, "get", "a"), on(0, "del", "a"), on(0, "get", "a")],
        [on(0, "parse_line", "a: 1"), on(0, "get", "a"), on(0, "parse_line", " 2"), on(0, "get", "a")],
        [on(0, "add", "a", "1"), on(0, "get", "a"), on(0, "del", "a"), on(0, "add", "a", "2"), on(0, "get", "a")],
        # continuation after the last key was deleted (KeyError from parse_line; see NOTES)
        [on(0, "add", "a", "1"), on(0, "del", "a"), on(0, "parse_line", " x")],
        # continuation goes to the last *added* key, not the last set key
        [on(0, "add", "a", "1"), on(0, "set", "b", "2"), on(0, "parse_line", " x"), on(0, "get_all")],
        # raw values through __setitem__: copy raises, str/parse does not round-trip
        [on(0, "set", "a", " x"), ["copy", 0], ["reparse", 0]],
        [on(0, "set", "a b", "x"), ["copy", 0], ["reparse", 0]],
        [on(0, "set", "a", "x\ny: z"), ["copy", 0], ["reparse", 0]],
        # copies are independent
        [on(0, "add", "a", "1"), ["copy", 0], on(1, "add", "A", "2"), on(0, "add", "a", "3"), on(1, "del", "a"), on(0, "get", "a")],
        # header block
        [["parse", "Content-Type: text/html\r\nx-y:  1 \r\n\tfolded\r\nX-Y: 2\r\n\r\n"], on(1, "get", "x-y"), on(1, "str"), ["reparse", 1]],
        [["parse", " leading"], ["parse", "a: 1\n\nb: 2"], ["parse", "a: 1\r\n\r\nb"], ["parse", ""]],
        [on(0, "parse_line", "a: 1\n\n"), on(0, "parse_line", "b: 2\r\n\n"), on(0, "parse_line", "c: 3\n\r\n"), on(0, "get_all")],
        [on(3, "keys"), ["copy", 2], ["reparse", 1]],
        # MutableMapping mixins, dict-style constructor, ==
        [["frompairs", [["a", "1"], ["A", "2"], ["x-y", " raw"]]], on(1, "items"), on(1, "len"), on(1, "pop", "X-Y"), on(1, "pop", "X-Y"),
         on(1, "setdefault", "b", "3"), on(1, "setdefault", "B", "4"), on(1, "getd", "zz"), on(1, "update", [["b", "5"], ["c", "6"]]),
         ["copy", 1], ["eq", 1, 2], on(2, "add", "c", "7"), ["eq", 1, 2], ["eq", 2, 2], ["eq", 0, 0], ["eq", 0, 5]],
        [["frompairs", [["a", "1"], ["b", "2"]]], ["frompairs", [["B", "2"], ["A", "1"]]], ["eq", 1, 2], on(1, "add", "a", "x"), ["eq", 1, 2],
         on(2, "set", "a", "1,x"), ["eq", 1, 2], ["eq", 2, 1]],
        # popitem / clear / values / constructor keywords
        [["fromkw", [["a", "1"], ["b", "2"]], [["A", "3"], ["x-y", "4"]]], on(1, "values"), on(1, "add", "B", "5"), on(1, "popitem"), on(1, "values"),
         on(1, "keys"), on(1, "clear"), on(1, "popitem"), on(1, "len"), on(1, "parse_line", " c"), on(0, "clear"), on(0, "values")],
        [["fromkw", [], [["a", "1"]]], ["fromkw", [["a", " raw"]], []], on(2, "popitem"), ["copy", 1], ["eq", 1, 3]],
        [on(0, "add", "a", "1"), on(0, "get", "a"), on(0, "clear"), on(0, "add", "A", "2"), on(0, "get", "a"), on(0, "items")],
        # the seeded S1 pattern: two values, mapping read, continuation, mapping read (h.get / items / ==)
        [on(0, "add", "a", "1"), on(0, "add", "A", "2"), on(0, "getd", "a"), on(0, "parse_line", " c"), on(0, "getd", "a"), on(0, "items"), ["copy", 0], ["eq", 0, 1]],
        # witnesses of the defect fixed by 3fd7028: folding onto an empty value / an empty continuation
        [on(0, "add", "a", ""), on(0, "parse_line", " x"), on(0, "get_all"), ["copy", 0], ["reparse", 0]],
        [["parse", "A:\r\n x\r\n"], ["copy", 1], ["reparse", 1], on(1, "get", "a")],
        [["parse", "A: v\r\n \r\nB: 1\r\n"], ["copy", 1], ["reparse", 1], on(1, "get", "a")],
        [["parse", "A: v\r\n  w\r\n\t\r\n z \r\n"], ["copy", 1], on(1, "get", "a")],
    ]


def gen_cases(rng, tier):
    out = []
    if tier == "quick":
        for n in (1, 2):
            out += list(exhaustive(ALPHA12, n))          # 13 + 169
        for n in (1, 2, 3):
            out += list(cache_probe(PROBE8, n, ["A"]))   # 9 + 81 + 729
        out += list(cache_probe(PROBE6, 4, ["A"]))       # 1296
        nrand, maxlen = 450, 12
    elif tier == "search":
        nrand, maxlen = 1500, 8
    else:
        for n in (1, 2, 3):
            out += list(exhaustive(ALPHA12, n))          # 13 + 169 + 2197
        out += list(exhaustive(ALPHA11, 4))              # 14641
        out += list(exhaustive(ALPHA7, 5))               # 16807
        for n in (1, 2, 3, 4):
            out += list(cache_probe(PROBE9, n, ["A", "b"]))   # 9 + 81 + 729 + 6561
        out += list(cache_probe(PROBE7, 5, ["A", "b"]))       # 16807
        nrand, maxlen = 3000, 14
    for _ in range(nrand):
        out.append(rand_prog(rng, maxlen))
    return out


HAS_SEARCH_TIER = True


def nontrivial(case, o):
    if not any(c[0] != "on" or c[2] in ("add", "set", "del", "parse_line", "pop", "setdefault", "update", "popitem", "clear") for c in case):
        return None
    return G.jsonable(case)


def classify(case, o):
    yield "len=%s" % ("1-4" if len(case) <= 4 else "5-10" if len(case) <= 10 else "11-16" if len(case) <= 16 else "17+")
    kinds = set()
    for c in case:
        kinds.add(c[0] if c[0] != "on" else c[2])
    for k in sorted(kinds):
        yield "has=" + k
    res = o[0] if isinstance(o, list) and o and isinstance(o[0], list) else []
    for t in sorted({str(r) for r in res if isinstance(r, G.Tag)}):
        yield "raises=" + t
    if isinstance(o, list) and len(o) == 2 and isinstance(o[1], list):
        yield "objects=%d" % min(len(o[1]), 4)


def signature(case, o):
    if _validated(case) and isinstance(o, list) and o and isinstance(o[0], list):
        for c, r in zip(case, o[0]):
            if c[0] in ("copy", "reparse") and isinstance(r, G.Tag) and str(r) != "BadTarget":
                return "%s-fails:%s" % (c[0], r)
    res = o[0] if isinstance(o, list) and o and isinstance(o[0], list) else []
    exp = py_expected(case)[0]
    for c, r, e in zip(case, res, exp):
        if not _same(r, e):
            k = c[0] if c[0] != "on" else c[2]
            return "%s:%s" % (k, str(r) if isinstance(r, G.Tag) else "value")
    return "final-state"


def shrink(case):
    n = len(case)
    if n > 3:
        yield case[: n // 2]
        yield case[: n - 2]
    for i in reversed(range(n)):
        c = case[:i] + case[i + 1:]
        if c:
            yield c


LEVEL_TEXT = ("Machine-checked (Coq) refinement proof: the model of HTTPHeaders with its list store, combined-value cache and _last_key "
              "returns, for every program (any sequence of add / set / delete / get / get_list / membership / iteration / parse_line incl. continuation / "
              "str / copy / parse over any number of objects), exactly what a cache-free insertion-ordered multimap keyed by the normalised name returns; "
              "cache coherence is the invariant; names normalise equally iff they are equal up to ASCII case; a name reported present can be deleted; "
              "copy() yields an equal, independent map and parse(str(h)) yields an equal map whenever names are tokens and values field-values. "
              "The model is compared with the real class on exhaustive small programs and random programs.")
LEVEL_NOTE = ("Trusted: Coq kernel/vm_compute; hand-written model of the regex checks and str methods (tied by correspondence only); ASCII names for "
              "unvalidated mapping methods; Python aliasing (get_list returns the internal list) is outside the functional model.")
TECHNIQUE = "Coq proof (invariant + refinement to a cache-free multimap, induction over programs) + differential correspondence via vm_compute + independent Python oracle"
