"""C09 — SimpleAsyncHTTPClient: admission (max_clients / queue / queue timeout),
exactly-once completion of every fetch, and redirect rewriting / credential
stripping.  The real client is driven without sockets: a fake TCPClient hands
out FakeIOStreams, timers are captured by an IOLoop proxy and fired on command,
so every interleaving of connection outcomes, timeouts and responses is an
explicit, replayable event list."""
import asyncio
import base64
import logging
import sys
import urllib.parse

from harness import gallina as G

ID = "C09"
COQ_DIRS = ["C09", "C06"]
PROPERTY_FILE = "C09/Property.v"
RUN_IMPORTS = "From TV Require Import C06.Model C09.Model C09.Url C09.Redirect C09.Run."
RUN_FN = "run_case"
CHECK_FN = "check_case"
INPUT_TYPE = "case"

# ----------------------------------------------------------------------------------------------
# driving the real client
# ----------------------------------------------------------------------------------------------


class _TimerLoop:
    """IOLoop proxy: add_timeout/remove_timeout are captured (the harness fires a timer when the
    event list says so); everything else goes to the real loop."""

    def __init__(self, loop):
        self._loop = loop
        self.timers = {}      # handle -> callback
        self.n = 0

    def add_timeout(self, deadline, callback, *a, **k):
        self.n += 1
        h = ("timer", self.n)
        self.timers[h] = callback
        return h

    def remove_timeout(self, h):
        self.timers.pop(h, None)

    def fire(self, h):
        cb = self.timers.pop(h, None)
        if cb is None:
            return False
        self._loop.add_callback(cb)
        return True

    def __getattr__(self, name):
        return getattr(self._loop, name)


class _FakeTCP:
    def __init__(self, world):
        self.world = world

    def connect(self, host, port, af=None, ssl_options=None, max_buffer_size=None, source_ip=None, **kw):
        from tornado.concurrent import Future
        conn = sys._getframe(1).f_locals.get("self")
        fut = Future()
        self.world.on_connect(conn, host, port, ssl_options is not None, fut)
        return fut

    def close(self):
        pass


class World:
    """One client + bookkeeping.  Attempts are numbered in fetch_impl order."""

    def __init__(self, max_clients, defaults=None):
        import tornado.simple_httpclient as shc
        from tornado.ioloop import IOLoop
        self.shc = shc
        real = IOLoop.current()
        self.loop = _TimerLoop(real)
        world = self

        class _IOLoopShim:
            @staticmethod
            def current(*a, **k):
                return world.loop

        self._saved_ioloop = shc.IOLoop
        shc.IOLoop = _IOLoopShim
        world_ref = self

        class Client(shc.SimpleAsyncHTTPClient):
            def fetch_impl(self, request, callback):
                a = len(world_ref.attempts)
                world_ref.attempts.append({"req": request, "conn": None, "fut": None, "stream": None,
                                           "host": None, "port": None, "responded": False})
                world_ref.by_req[id(request)] = a
                return super().fetch_impl(request, callback)

            def _handle_request(self, request, release_callback, final_callback):
                a = world_ref.by_req[id(request)]
                world_ref.log.append([G.Tag("start"), a])
                return super()._handle_request(request, release_callback, final_callback)

            def _connection_class(self):
                base = super()._connection_class()

                def make(*args):
                    conn = base(*args)
                    world_ref.attempts[world_ref.by_req[id(args[1])]]["conn"] = conn
                    return conn
                return make

        self.client = Client(force_instance=True, max_clients=max_clients, defaults=defaults)
        self.client.io_loop = self.loop
        self.client.tcp_client = _FakeTCP(self)
        self.attempts = []
        self.by_req = {}
        self.log = []

    def close(self):
        self.shc.IOLoop = self._saved_ioloop
        try:
            self.client.close()
        except Exception:
            pass

    def on_connect(self, conn, host, port, tls, fut):
        a = self.by_req.get(id(conn.request)) if conn is not None else None
        if a is None:
            self.log.append([G.Tag("connect-unattributed")])
            return
        at = self.attempts[a]
        at["conn"], at["fut"], at["host"], at["port"], at["tls"] = conn, fut, host, port, tls

    # timers ----------------------------------------------------------------------------------
    def queue_timer(self, a):
        for key, (req, cb, h) in self.client.waiting.items():
            if self.by_req.get(id(req)) == a:
                return h if (h is not None and h in self.loop.timers) else None
        return None

    def conn_timer(self, a):
        conn = self.conn_of(a)
        if conn is None:
            return None
        h = conn._timeout
        return h if (h is not None and h in self.loop.timers) else None

    def conn_of(self, a):
        # the connection object exists from _handle_request on; find it through the pending connect
        if a < len(self.attempts):
            return self.attempts[a]["conn"]
        return None


async def settle(n=12):
    for _ in range(n):
        await asyncio.sleep(0)


# ----------------------------------------------------------------------------------------------
# schedule scenarios
# ----------------------------------------------------------------------------------------------
CT, RT = 7.0, 11.0


def outcome_of(fut):
    """canonical outcome of a finished fetch future"""
    from tornado.simple_httpclient import HTTPTimeoutError, HTTPStreamClosedError
    from tornado.httpclient import HTTPClientError
    if fut.cancelled():
        return [G.Tag("cancelled")]
    err = fut.exception()
    if err is None:
        return [G.Tag("code"), fut.result().code]
    if isinstance(err, HTTPTimeoutError):
        return [G.Tag("timeout"), G.Tag({"Timeout in request queue": "queue", "Timeout while connecting": "connecting",
                                           "Timeout during request": "request"}.get(err.message, "other"))]
    if isinstance(err, HTTPStreamClosedError):
        return [G.Tag("closed"), G.Tag({"Connection closed": "callback", "Stream closed": "read", "Malformed response": "malformed"}.get(err.message, "other"))]
    if isinstance(err, HTTPClientError):
        return [G.Tag("httperror"), err.code]
    return [G.Tag("error"), G.Tag(type(err).__name__)]


def run_schedule(case):
    from harness.vclock import run_virtual
    from harness.fake_iostream import FakeIOStream, EOF, Err
    from tornado.httpclient import HTTPRequest

    async def scenario(loop):
        w = World(case["max"])
        nf = [0]
        try:
            for ev in case["events"]:
                k = ev[0]
                if k == "fetch":
                    _, ctf, rtf, maxred, follow, bad = ev
                    f = nf[0]
                    nf[0] += 1
                    req = HTTPRequest("http://h%d.test/p" % f, method=("FOO" if bad else "GET"),
                                      connect_timeout=(CT if ctf else 0), request_timeout=(RT if rtf else 0),
                                      max_redirects=maxred, follow_redirects=bool(follow))
                    fut = w.client.fetch(req, raise_error=False)
                    fut.add_done_callback(lambda fu, f=f: w.log.append([G.Tag("done"), f, outcome_of(fu)]))
                else:
                    a = ev[1]
                    at = w.attempts[a] if a < len(w.attempts) else None
                    if k == "qt":
                        h = w.queue_timer(a)
                        if h is not None:
                            w.loop.fire(h)
                    elif k == "ct":
                        h = w.conn_timer(a)
                        if h is not None:
                            w.loop.fire(h)
                    elif at is None or at["fut"] is None:
                        pass
                    elif k == "ok":
                        if not at["fut"].done():
                            s = FakeIOStream()
                            at["stream"] = s
                            at["fut"].set_result(s)
                    elif k == "fail":
                        if not at["fut"].done():
                            at["fut"].set_exception(ConnectionRefusedError("scripted"))
                    elif at["stream"] is None or at["stream"].closed() or at["responded"]:
                        pass
                    elif k == "resp":
                        _, _, code, hasloc = ev
                        at["responded"] = True
                        msg = b"HTTP/1.1 %d X\r\n" % code
                        if hasloc:
                            msg += b"Location: /r%d\r\n" % a
                        msg += b"Content-Length: 0\r\n\r\n"
                        at["stream"].feed(msg)
                    elif k == "mal":
                        at["responded"] = True
                        at["stream"].feed(b"garbage without a status line\r\n\r\n" if a % 2 else b"HTTP/1.1 200 OK\r\nNo Colon Here\r\n\r\n")
                    elif k == "bf":
                        at["responded"] = True
                        at["stream"].feed(b"HTTP/1.1 200 OK\r\nContent-Length: x\r\n\r\n")
                    elif k == "close":
                        at["stream"].feed(EOF)
                    elif k == "reset":
                        at["stream"].feed(Err())
                await settle()
                w.log.append([G.Tag("snap"), len(w.client.active), len(w.client.queue), len(w.client.waiting), len(w.loop.timers)])
            return w.log
        finally:
            w.close()

    logging.disable(logging.CRITICAL)
    try:
        return run_virtual(scenario)
    finally:
        logging.disable(logging.NOTSET)


# ----------------------------------------------------------------------------------------------
# framework interface
# ----------------------------------------------------------------------------------------------
def run_impl(case):
    if case["kind"] == "sched":
        return run_schedule(case)
    return run_redirect(case)


def g_spec(ev):
    _, ctf, rtf, maxred, follow, bad = ev
    return "(mkSpec %s %s %s %s %s)" % (G.gbool(bool(ctf)), G.gbool(bool(rtf)), G.gz(maxred), G.gbool(bool(follow)), G.gbool(bool(bad)))


def g_event(ev):
    k = ev[0]
    if k == "fetch":
        return "EFetch " + g_spec(ev)
    if k == "resp":
        return "ERespond %s %s %s" % (G.gnat(ev[1]), G.gz(ev[2]), G.gbool(bool(ev[3])))
    name = {"qt": "EQTimeout", "ct": "ECTimeout", "ok": "EConnOk", "fail": "EConnFail", "close": "EClose", "reset": "EReset",
            "mal": "EMalformed", "bf": "EBadFraming"}[k]
    return "%s %s" % (name, G.gnat(ev[1]))


def coq_input(case):
    if case["kind"] == "sched":
        return "(CSched %s %s)" % (G.gnat(case["max"]), G.glist([g_event(e) for e in case["events"]], "event"))
    return coq_redirect(case)


def F(ct=1, rt=1, mr=2, fo=1, bad=0):
    return ["fetch", ct, rt, mr, fo, bad]


def sched(mx, evs):
    return {"kind": "sched", "max": mx, "events": evs}


# ---------------- redirect cases ----------------
def tornado_version():
    import tornado
    return tornado.version


def ref_next_url(orig, joined):
    """independent reference (urllib only) of the URL the follow-up request gets"""
    po, pn = urllib.parse.urlsplit(orig), urllib.parse.urlsplit(joined)
    if po.scheme != pn.scheme or po.netloc != pn.netloc:
        if "@" in pn.netloc:
            if pn.port is not None:
                nl = "%s:%d" % (pn.hostname, pn.port)
            else:
                if pn.hostname is None:
                    raise AssertionError
                nl = pn.hostname
            pn = pn._replace(netloc=nl)
        return urllib.parse.urlunsplit(pn)
    return joined


def finalize_redir(case):
    """fill in urljoin's result for every scripted answer (hops: [code, loc] -> [code, loc, joined])"""
    if case.get("dict"):        # what list(dict(pairs).items()) is: first position, last value
        case = dict(case, headers=[list(kv) for kv in dict((n, v) for n, v in case["headers"]).items()])
    cur = case["url"]
    hops = []
    for code, loc in [h[:2] for h in case["hops"]]:
        joined = ""
        if loc is not None:
            try:
                joined = urllib.parse.urljoin(cur, loc.strip(" \t"))
                cur = ref_next_url(case["url"], joined)
            except Exception:
                pass
        hops.append([code, loc, joined])
    case = dict(case, hops=hops)
    return case


def modelled(case):
    """inside the model's domain: ASCII, no bracketed hosts"""
    texts = [case["url"], case["method"], case["auth_user"] or "", case["auth_pass"] or "", case["ua"] or ""]
    texts += [x for kv in case["headers"] for x in kv] + [h[2] for h in case["hops"]] + [h[1] or "" for h in case["hops"]]
    if any(ord(c) >= 128 for t in texts for c in t):
        return False
    return not any("[" in t or "]" in t for t in [case["url"]] + [h[2] for h in case["hops"]])


def R(url, hops, **kw):
    return finalize_redir(redir(url, hops, **kw))


def g_text(s):
    return G.gbytes(s)


def g_otext(s):
    return "(@None text)" if s is None else "(Some %s)" % g_text(s)


def coq_redirect(case):
    body = "(@None (list N))" if case["body"] is None else "(Some %s)" % G.gbytes(case["body"].encode("latin-1"))
    hdrs = G.glist(["(%s, %s)" % (g_text(n), g_text(v)) for n, v in case["headers"]], "(text * text)")
    mr = "(@None Z)" if case["maxred"] is None else "(Some %s)" % G.gz(case["maxred"])
    fo = "(@None bool)" if case["follow"] is None else "(Some %s)" % G.gbool(case["follow"])
    script = G.glist(["(mkHop %s %s %s)" % (G.gz(c), G.gbool(loc is not None), g_text(j)) for c, loc, j in case["hops"]], "hop")
    dm = case.get("defmax")
    dmx = "(@None Z)" if dm is None else "(Some %s)" % G.gz(dm)
    return "(CRedir (mkRCase %s %s %s %s %s %s %s %s %s %s %s %s %s))" % (
        g_text(tornado_version()), g_text(case["url"]), g_text(case["method"]), body, hdrs, G.gbool(bool(case.get("dict"))),
        g_otext(case["auth_user"]), g_otext(case["auth_pass"]), mr, fo, g_otext(case["ua"]), dmx, script)


MULTI_COOKIE = [("Cookie", "a=1"), ("cookie", "b=2")]


def corpus_cases():
    out = [
        sched(1, [F(), F(), F(), ["ok", 0], ["resp", 0, 200, 0], ["qt", 2], ["ok", 1], ["close", 1]]),
        sched(1, [F(), F(), ["ok", 0], ["resp", 0, 302, 1], ["ok", 1], ["resp", 1, 200, 0], ["ok", 2], ["resp", 2, 303, 1], ["ok", 3], ["resp", 3, 404, 0]]),
        sched(2, [F(), F(bad=1), ["ct", 0], ["ok", 0], ["ok", 1], F(), ["fail", 2], F(rt=0), ["ok", 3], ["ct", 3], ["reset", 3]]),
        sched(1, [F(), ["ct", 0], ["fail", 0], F(), ["ok", 1], ["ct", 1], ["close", 1]]),
        sched(0, [F(), F(ct=0, rt=0), ["qt", 0], ["qt", 1]]),
        # before fix 2ae8e77 the user's future stayed pending for ever after these
        sched(1, [F(ct=0, rt=1, mr=3), ["ok", 0], ["resp", 0, 301, 1], ["ct", 1]]),
        sched(1, [F(), ["ok", 0], ["resp", 0, 302, 1], ["fail", 1]]),
        sched(1, [F(), F(), ["ok", 0], ["resp", 0, 307, 1], ["qt", 2], ["ok", 1], ["close", 1]]),
        # a later-queued request expires before an earlier-queued one, then a slot frees
        sched(1, [F(), F(ct=0, rt=0), F(), F(), ["qt", 2], ["ok", 0], ["resp", 0, 200, 0], ["ok", 1], ["resp", 1, 200, 0], ["ok", 3], ["close", 3]]),
        sched(1, [F(), F(), ["ok", 0], ["mal", 0], ["ok", 1], ["bf", 1]]),
        # before fix 8cd6af7 the multi-valued Cookie survived the cross-origin redirect
        R("http://a.test/x", [(302, "http://b.test/y")], headers=MULTI_COOKIE + [("Authorization", "tok")]),
        R("http://u:p@a.test/x?q=1", [(302, "http://b.test/y"), (303, "/z")], method="POST", body="hello",
          headers=MULTI_COOKIE + [("Authorization", "tok"), ("X-K", "v")]),
        R("http://a.test/x", [(301, "y"), (302, "//u2:p2@c.test:81/w"), (307, "https://a.test/")], auth_user="me", auth_pass="pw",
          headers=[("Cookie", "a=1")]),
        R("http://a.test/x", [(302, "http://u@b.test:99999/")]),
        R("http://a.test/x", [(302, "/1"), (302, "/2"), (302, "/3")], maxred=2),
        # the limit comes from the client's defaults / from the built-in default: a loop must stop
        R("http://a.test/x", [(302, "/loop")] * 4, defmax=2),
        R("http://a.test/x", [(302, "/loop")] * 8),
        R("http://a.test/x", [(307, "/loop")] * 3, defmax=0),
        R("http://user@a.test/x", []),
        R("ftp://a.test/x", []),
        R("http://a.test/x", [(302, "ftp://b.test/")]),
        R("http://a.test/x", [(302, "http://@/")]),
        R("http://a.test/x", [(302, "http://b.test/")], headers=[("Host", "zzz")]),
        R("http://u:p@a.test/x", [(302, "https:////u2:p2@b.test/y")], headers=[("Cookie", "a=1")]),
        R("http://a.test/x", [(302, "http://u@:81/y")], headers=[("Cookie", "a=1")]),
        R("http://a.test/x", [(302, "http://b.test/y")], headers=[("cookie", "a=1"), ("COOKIE", "b=2"), ("authorization", "t")], dict=True),
        R("http://a.test/x", [(302, "/y")], headers=[("X-A", "v\nInjected: 1")], dict=True),
        R("http://a.test/x", [(302, "/y")], headers=[("Bad Name", "v")], dict=True),
    ]
    return out


CODES = [200, 200, 404, 500, 304, 301, 302, 303, 307, 308, 302, 300, 305]


def rand_event(rng, n_att_guess):
    a = rng.randrange(max(1, n_att_guess + 1)) if rng.random() < 0.9 else rng.randrange(n_att_guess + 3)
    r = rng.random()
    if r < 0.22:
        return ["ok", a]
    if r < 0.30:
        return ["fail", a]
    if r < 0.55:
        return ["resp", a, rng.choice(CODES), 0 if rng.random() < 0.15 else 1]
    if r < 0.62:
        return ["close", a]
    if r < 0.66:
        return ["reset", a]
    if r < 0.68:
        return ["mal", a]
    if r < 0.70:
        return ["bf", a]
    if r < 0.85:
        return ["qt", a]
    return ["ct", a]


def rand_fetch(rng):
    return ["fetch", int(rng.random() < 0.8), int(rng.random() < 0.8), rng.choice([0, 1, 2, 2, 3, -1]),
            int(rng.random() < 0.85), int(rng.random() < 0.1)]


def gen_sched(rng):
    mx = rng.choice([0, 1, 1, 2, 2, 3])
    nf = rng.randrange(1, 7)
    evs, made = [], 0
    n = rng.randrange(3, 26)
    att = 0
    for _ in range(n):
        if made < nf and (made == 0 or rng.random() < 0.3):
            evs.append(rand_fetch(rng))
            made += 1
            att += 1
        else:
            e = rand_event(rng, att)
            if e[0] == "resp" and e[2] in (301, 302, 303, 307, 308):
                att += 1
            evs.append(e)
    return sched(mx, evs)


class Sim:
    """a small reference simulation used ONLY to pick events that apply (mostly-valid schedules)"""

    def __init__(self, mx):
        self.mx, self.queue, self.active, self.att = mx, [], [], []

    def pump(self):
        while self.queue and len(self.active) < self.mx:
            k = self.queue.pop(0)
            self.att[k]["st"] = "connecting"
            self.active.append(k)

    def submit(self, spec):
        k = len(self.att)
        self.att.append({"st": "queued", "spec": spec, "cb": True})
        self.queue.append(k)
        self.pump()

    def end(self, k):
        if k in self.active:
            self.active.remove(k)
        self.att[k]["cb"] = False
        self.pump()

    def applicable(self):
        out = []
        for k, a in enumerate(self.att):
            sp = a["spec"]
            if a["st"] == "queued":
                if sp[1] or sp[2]:
                    out.append(["qt", k])
            elif a["st"] == "connecting":
                out += [["ok", k], ["ok", k], ["fail", k]]
                if a["cb"] and (sp[1] or sp[2]):
                    out.append(["ct", k])
            elif a["st"] == "open":
                out += [["resp", k, None, None], ["resp", k, None, None], ["resp", k, None, None], ["close", k], ["reset", k], ["mal", k], ["bf", k]]
                if sp[2]:
                    out.append(["ct", k])
        return out

    def apply(self, ev):
        k = ev[1]
        a = self.att[k]
        if ev[0] == "qt":
            self.queue.remove(k)
            a["st"] = "gone"
        elif ev[0] == "ok":
            if not a["cb"]:
                a["st"] = "done"
            elif a["spec"][5]:
                a["st"] = "done"
                self.end(k)
            else:
                a["st"] = "open"
        elif ev[0] in ("fail", "close", "reset", "mal", "bf"):
            a["st"] = "done"
            if a["cb"]:
                self.end(k)
        elif ev[0] == "ct":
            if a["st"] == "open":
                a["st"] = "done"
            self.end(k)
        elif ev[0] == "resp":
            sp = a["spec"]
            a["st"] = "done"
            follow = sp[4] and ev[2] in (301, 302, 303, 307, 308) and sp[3] > 0 and ev[3]
            self.end(k)
            if follow:
                self.submit(["fetch", sp[1], sp[2], sp[3] - 1, sp[4], sp[5]])


def gen_sched_valid(rng, mx=None, nf=None, n=None):
    mx = rng.choice([0, 1, 1, 2, 2, 3]) if mx is None else mx
    nf = rng.randrange(1, 7) if nf is None else nf
    n = rng.randrange(4, 30) if n is None else n
    sim, evs, made = Sim(mx), [], 0
    for _ in range(n):
        app = sim.applicable()
        if made < nf and (not app or rng.random() < 0.3):
            f = rand_fetch(rng)
            evs.append(f)
            sim.submit(f)
            made += 1
            continue
        if not app or rng.random() < 0.08:
            evs.append(rand_event(rng, len(sim.att)))      # a stray event (usually a no-op)
            if evs[-1] in app or (evs[-1][0] == "resp" and ["resp", evs[-1][1], None, None] in app):
                sim.apply(evs[-1])
            continue
        ev = list(rng.choice(app))
        if ev[0] == "resp":
            ev[2], ev[3] = rng.choice(CODES), (0 if rng.random() < 0.12 else 1)
        evs.append(ev)
        sim.apply(ev)
    return sched(mx, evs)


def enum_sched(mx, specs, depth, cap, rng):
    """every sequence of applicable events of length <= depth after submitting `specs` (small scope)"""
    out = []

    def rec(prefix, k):
        if len(out) >= cap:
            return
        sim = Sim(mx)
        for e in prefix:
            if e[0] == "fetch":
                sim.submit(e)
            else:
                sim.apply(e)
        out.append(sched(mx, list(prefix)))
        if k == 0:
            return
        seen = []
        for ev in sim.applicable():
            if ev[0] in ("mal", "bf"):      # same transition as "close" up to the outcome: sampled, not enumerated
                continue
            for ev2 in ([ev] if ev[0] != "resp" else [["resp", ev[1], 200, 0], ["resp", ev[1], 302, 1]]):
                if ev2 not in seen:
                    seen.append(ev2)
                    rec(prefix + [ev2], k - 1)

    rec(list(specs), depth)
    return out


SCHEMES = ["http", "http", "https"]
HOSTS = ["a.test", "a.test", "b.test", "A.test", "a.test:80", "a.test:8080", "b.test:81", "c.test"]
USERINFO = ["", "", "", "u:p@", "u:p@", "user:pa:ss@", "u@", "u:@", ":p@", "@", "x@y:z@"]
PATHS = ["/", "/x", "/x/y?q=1", "", "?q", "/p#f", "//dd/e", "/a%20b"]


def rand_abs(rng, weird=False):
    return "%s://%s%s%s" % (rng.choice(SCHEMES), rng.choice(USERINFO), rng.choice(HOSTS), rng.choice(PATHS))


WEIRD_LOCS = ["http:////u:p@b.test/y", "https:////u:p@b.test/y", "http://u@b.test:99999/", "http://@/", "ftp://b.test/",
              "http://b.test:0x1/", "HTTP://B.TEST/", "http://b.test:/", "http://u:p@:81/", "http://u:p@b.test:0080/z",
              "//b.test", "//u:p@a.test/", "", "#frag", "?only=query", "../up", "http:relative", "http://B.test%25Z:5/",
              "https://a.test", "http://a.test@b.test/", "http://b.test/a b", "\thttp://b.test/\t", "mailto:x@y", "http://b.test:99999/"]


def rand_loc(rng, orig):
    r = rng.random()
    if r < 0.25:
        return rng.choice(["/r", "r", "/r?x=1", "./r/../s", "/"])
    if r < 0.75:
        return rand_abs(rng)
    if r < 0.85:
        p = urllib.parse.urlsplit(orig)
        return "%s://%s/same" % (p.scheme, p.netloc)
    return rng.choice(WEIRD_LOCS)


HDR_POOL = [("Cookie", "a=1"), ("cookie", "b=2"), ("COOKIE", "c=3; d=4"), ("Authorization", "Bearer tok"), ("authorization", "Basic QQ=="),
            ("Content-Type", "text/plain"), ("Content-Encoding", "gzip"), ("Transfer-Encoding", "chunked"), ("Content-Length", "999"),
            ("X-Custom", "v1"), ("x-custom", "v2"), ("Accept-Encoding", "br"), ("User-Agent", "mine"), ("Host", "override.test"),
            ("Connection", "keep-alive"), ("Cookie2", "z"), ("Proxy-Authorization", "p"), ("X-Cookie", "no")]
BAD_HDRS = [("Bad Name", "v"), ("X", "a\nb"), ("", "v"), ("X-Y", " lead")]


def rand_redir(rng):
    url = rand_abs(rng) if rng.random() < 0.95 else rng.choice(["ftp://a.test/", "//a.test/x", "a.test/x", "http:///x", " http://a.test/", "HTTP://a.test/"])
    method = rng.choice(["GET", "GET", "POST", "POST", "HEAD", "PUT", "DELETE", "PATCH", "OPTIONS"]) if rng.random() < 0.97 else "FOO"
    body = None
    if method in ("POST", "PUT", "PATCH"):
        body = rng.choice(["", "x", "hello world", "k=v&a=b"]) if rng.random() < 0.95 else None
    elif rng.random() < 0.03:
        body = "stray"
    hdrs = [rng.choice(HDR_POOL) for _ in range(rng.choice([0, 1, 2, 3, 3, 4, 6]))]
    if body is None:        # a Content-Length without a body is HTTP1Connection's HTTPOutputError: not this property
        hdrs = [h for h in hdrs if h[0] != "Content-Length"]
    if rng.random() < 0.06:
        hdrs.insert(rng.randrange(len(hdrs) + 1), rng.choice(BAD_HDRS))
    au, ap = rng.choice([(None, None), (None, None), ("me", "pw"), ("me", None), ("me", ""), ("", "pw"), (None, "pw")])
    nh = rng.choice([0, 1, 1, 2, 2, 3, 4, 7])
    hops = []
    for _ in range(nh):
        code = rng.choice([301, 302, 302, 303, 303, 307, 308]) if rng.random() < 0.85 else rng.choice([200, 404, 300, 304, 305, 201])
        hops.append([code, None if rng.random() < 0.05 else rand_loc(rng, url)])
    c = R(url, hops, method=method, body=body, headers=hdrs, auth_user=au, auth_pass=ap,
          maxred=rng.choice([None, None, 0, 1, 2, 3, 6, -1]), follow=rng.choice([None, True, True, False]),
          ua=rng.choice([None, None, None, "ua/1", ""]), dict=(rng.random() < 0.3),
          defmax=rng.choice([None, None, None, 0, 1, 2, 3, 7]))
    return c


def gen_loops(rng, quick):
    """redirect chains LONGER than the limit (loops included), for each source of max_redirects:
    explicit on the request / the client's defaults / the built-in default 5"""
    out = []
    for src in ("request", "client", "builtin", "both"):
        for k in ((0, 1, 2, 3) if src != "builtin" else (5,)):
            for variant in range(2 if quick else 6):
                n = k + rng.choice([1, 2, 3, 4])
                if variant == 0:
                    hops = [(rng.choice([302, 307, 301, 308, 303]), "/loop")] * n          # a loop
                elif variant == 1:
                    hops = [(302, "http://%s.test/p%d" % ("ab"[i % 2], i)) for i in range(n)]   # ping-pong between two hosts
                else:
                    hops = [(rng.choice([301, 302, 303, 307, 308]), rand_loc(rng, "http://a.test/x")) for _ in range(n)]
                kw = {"request": dict(maxred=k), "client": dict(defmax=k), "builtin": {},
                      "both": dict(maxred=k, defmax=rng.choice([0, 9]))}[src]
                out.append(R("http://a.test/x", hops, headers=[("Cookie", "a=1")] if variant else [], **kw))
    return out


def enum_redir():
    """small scope, exhaustive: credentials x header shape x method x code x Location class"""
    out = []
    hsets = [[], [("Cookie", "a=1")], MULTI_COOKIE, [("Authorization", "tok")], MULTI_COOKIE + [("Authorization", "t1"), ("authorization", "t2")],
             [("Content-Type", "text/plain"), ("Content-Encoding", "gzip"), ("Cookie", "a")]]
    origs = ["http://a.test/x", "http://u:p@a.test/x", "https://a.test:8443/x"]
    locs = ["/y", "http://a.test/y", "http://b.test/y", "https://a.test/y", "http://a.test:81/y", "http://u2:p2@b.test/y",
            "http://u:p@a.test/y", "//b.test/y", "https:////u:p@b.test/y", "http://u@b.test:1/"]
    for o in origs:
        for hs in hsets:
            for method, body in (("GET", None), ("POST", "b"), ("HEAD", None), ("PUT", "b")):
                for code in (301, 302, 303, 307, 308):
                    for loc in locs:
                        for auth in ((None, None), ("me", "pw")):
                            out.append(R(o, [(code, loc), (302, "/again")], method=method, body=body, headers=hs,
                                         auth_user=auth[0], auth_pass=auth[1], dict=(len(out) % 3 == 2)))
    return out


def gen_qt_order(rng):
    """queue timeouts that do NOT arrive in FIFO order, interleaved with slot releases"""
    mx = rng.choice([1, 1, 2])
    nq = rng.randrange(2, 5)
    evs = [F() for _ in range(mx)]
    specs = []
    for i in range(nq):
        f = rand_fetch(rng)
        f[5] = 0
        if i > 0 or rng.random() < 0.5:
            f[1] = 1                      # has a queue timer
        specs.append(f)
    evs += specs
    queued = list(range(mx, mx + nq))
    active = list(range(mx))
    nxt = mx + nq
    for _ in range(rng.randrange(2, 8)):
        r = rng.random()
        cand = [q for q in queued[1:] if specs[q - mx][1] or specs[q - mx][2]] if len(queued) > 1 else []
        if cand and r < 0.45:
            q = rng.choice(cand)          # a later request expires before an earlier one
            evs.append(["qt", q])
            queued.remove(q)
        elif active and r < 0.9:
            a = rng.choice(active)
            evs.append(["ok", a])
            evs.append(rng.choice([["resp", a, 200, 0], ["close", a], ["resp", a, 404, 0], ["mal", a]]))
            active.remove(a)
            if queued:
                active.append(queued.pop(0))
        elif queued:
            q = queued[0]
            if specs[q - mx][1] or specs[q - mx][2]:
                evs.append(["qt", q])
                queued.pop(0)
    for a in list(active):
        evs += [["ok", a], ["resp", a, 200, 0]]
        active.remove(a)
        if queued:
            active.append(queued.pop(0))
    for a in list(active):
        evs += [["ok", a], ["resp", a, 200, 0]]
    return sched(mx, evs)


def gen_cases(rng, tier):
    out = []
    quick = tier == "quick"
    for _ in range(30 if quick else 200):
        out.append(gen_qt_order(rng))
    for _ in range(130 if quick else 800):
        out.append(gen_sched_valid(rng))
    for _ in range(40 if quick else 250):
        out.append(gen_sched(rng))
    # small scopes, exhaustively: every sequence of applicable events up to the depth (the caps are
    # above the exact counts 96 / 399 / 1717 / 732 / 389, so nothing is cut off)
    two = [F(), F(ct=0, rt=0, mr=1)]
    three = [F(), F(rt=0), F(ct=0, mr=0)]
    if quick:
        out += enum_sched(1, two, 4, 120, rng)
    else:
        out += enum_sched(1, two, 9, 500, rng)
        out += enum_sched(1, three, 5, 1800, rng)
        out += enum_sched(2, two, 5, 800, rng)
        out += enum_sched(2, three, 3, 400, rng)
        out += enum_sched(0, [F(), F(ct=0, rt=0)], 3, 50, rng)
    n = 0
    want = 160 if quick else 700
    while n < want:
        c = rand_redir(rng)
        if modelled(c):
            out.append(c)
            n += 1
    out += [c for c in gen_loops(rng, quick) if modelled(c)]
    en = [c for c in enum_redir() if modelled(c)]
    en = rng.sample(en, 90 if quick else 1100)
    out += en
    rng.shuffle(out)        # balance the coqc shards (redirect cases are the heavy ones)
    return out


def py_check_sched(case, o):
    """independent oracle on a schedule's observable: active <= max_clients at every snapshot, starts
    in submission order, no fetch completes twice, and the conservation law
        len(active) + len(queue) + completed == fetches submitted so far
    after every event (every fetch is waiting, or holds a slot, or has completed: no lost completion,
    no leaked slot); idle at the end => everything completed"""
    mx = case["max"]
    nf = sum(1 for e in case["events"] if e[0] == "fetch")
    last, done, idle = None, [], True
    ev_i, submitted = 0, 0
    for e in o:
        if not isinstance(e, list) or not e:
            return False
        if e[0] == "start":
            if last is not None and not last < e[1]:
                return False
            last = e[1]
        elif e[0] == "done":
            if e[1] in done or not (0 <= e[1] < nf):
                return False
            done.append(e[1])
        elif e[0] == "snap":
            if ev_i >= len(case["events"]):
                return False
            if case["events"][ev_i][0] == "fetch":
                submitted += 1
            ev_i += 1
            if not (0 <= e[1] <= mx):
                return False
            if e[1] + e[2] + len(done) != submitted:
                return False
            if any(d >= submitted for d in done):
                return False
            idle = e[1] == 0 and e[2] == 0
        else:
            return False
    return ev_i == len(case["events"]) and ((not idle) or len(done) == nf)


def _names(lines):
    return [bytes(l).split(b":", 1)[0].strip().lower() for l in lines]


def py_check_redir(case, o):
    """independent oracle (urllib + plain string tests) of the redirect clauses on the observed requests"""
    if not (isinstance(o, list) and len(o) == 2 and isinstance(o[0], list)):
        return False
    hops = o[0]
    maxred = case["maxred"] if case["maxred"] is not None else (case["defmax"] if case.get("defmax") is not None else 5)
    follow = True if case["follow"] is None else case["follow"]
    if len(hops) > 1 + (max(0, maxred) if follow else 0):
        return False
    if not hops:
        return True
    po = urllib.parse.urlsplit(case["url"])
    for i in range(1, len(hops)):
        if i - 1 >= len(case["hops"]):
            return False
        code, loc, joined = case["hops"][i - 1]
        if code not in (301, 302, 303, 307, 308) or loc is None:
            return False
        prev_method = bytes(hops[i - 1][4]).split(b" ")[0]
        url, start, lines, body = hops[i][0], bytes(hops[i][4]), hops[i][5], bytes(hops[i][6])
        if start == b"":        # the follow-up failed before it wrote anything: it carried nothing
            continue
        names = _names(lines)
        if (code == 303 and prev_method != b"HEAD") or (code in (301, 302) and prev_method == b"POST"):
            if not start.startswith(b"GET ") or body != b"":
                return False
            if any(n in (b"content-length", b"content-type", b"content-encoding", b"transfer-encoding") for n in names):
                return False
        pn = urllib.parse.urlsplit(url)
        if pn.scheme != po.scheme or pn.netloc != po.netloc:
            if b"cookie" in names:
                return False
            if urllib.parse.urlsplit(joined).netloc != "":
                if "@" in pn.netloc or b"authorization" in names:
                    return False
    return True


def py_check(case, o):
    try:
        if case["kind"] == "sched":
            return py_check_sched(case, o)
        return py_check_redir(case, o)
    except Exception:
        return False


def nontrivial(case, o):
    if case["kind"] == "sched":
        if not any(isinstance(e, list) and e and e[0] == "done" for e in (o if isinstance(o, list) else [])):
            return None
    import json
    return json.dumps(case, sort_keys=True)


def classify(case, o):
    yield "kind=" + case["kind"]
    if case["kind"] == "redir":
        hops = o[0] if isinstance(o, list) and o and isinstance(o[0], list) else []
        yield "requests=%d" % len(hops)
        yield "method=" + case["method"]
        yield "max_redirects-from=" + ("request" if case["maxred"] is not None else "client-defaults" if case.get("defmax") is not None else "built-in")
        yield "cookies=%d" % sum(1 for n, _ in case["headers"] if n.lower() == "cookie")
        yield "authz=%d" % sum(1 for n, _ in case["headers"] if n.lower() == "authorization")
        yield "url-credentials=%s" % ("@" in urllib.parse.urlsplit(case["url"]).netloc)
        po = urllib.parse.urlsplit(case["url"])
        for h in hops[1:]:
            pn = urllib.parse.urlsplit(h[0])
            yield "followup=" + ("cross-origin" if (pn.scheme, pn.netloc) != (po.scheme, po.netloc) else "same-origin")
        if isinstance(o, list) and len(o) == 2 and isinstance(o[1], list) and o[1]:
            yield "final=" + str(o[1][0]) + ("" if len(o[1]) < 2 or isinstance(o[1][1], int) else ":" + str(o[1][1]))
    if case["kind"] == "sched":
        yield "max=%d" % case["max"]
        yield "fetches=%d" % sum(1 for e in case["events"] if e[0] == "fetch")
        if isinstance(o, list):
            for e in o:
                if isinstance(e, list) and e and e[0] == "done":
                    yield "done=" + "/".join(str(x) for x in e[2][:2] if not isinstance(x, int) or x < 300) 


def shrink(case):
    if case["kind"] == "sched":
        evs = case["events"]
        for i in range(len(evs) - 1, -1, -1):
            yield dict(case, events=evs[:i] + evs[i + 1:])
    else:
        hs = case["headers"]
        for i in range(len(hs)):
            yield finalize_redir(dict(case, headers=hs[:i] + hs[i + 1:]))
        if len(case["hops"]) > 1:
            yield finalize_redir(dict(case, hops=case["hops"][:-1]))
        if case["auth_user"] is not None:
            yield finalize_redir(dict(case, auth_user=None, auth_pass=None))


def signature(case, o):
    if case["kind"] == "sched":
        redirected = any(e[0] == "resp" and e[2] in (301, 302, 303, 307, 308) for e in case["events"])
        return "sched-redirect" if redirected else "sched"
    return "redirect"


TRUSTED_BASE = [
    "harness World: a SimpleAsyncHTTPClient subclass that only records (fetch_impl / _handle_request / _connection_class wrappers call the real methods), a fake TCPClient handing out harness FakeIOStreams, and an IOLoop proxy that captures add_timeout/remove_timeout so that 'timer fires' is an explicit event (tornado.simple_httpclient.IOLoop is replaced by a shim for the run); each event is followed by 12 loop iterations (settle)",
    "urllib.parse.urljoin is NOT modelled: its result for every scripted Location is computed by the generator (stdlib urljoin on the chain of URLs obtained with a 10-line urllib-only reference) and given to the model as data; a wrong value shows up as a correspondence mismatch, it cannot make a theorem true (the theorems quantify over every joined URL)",
    "Url.v: hand-written Gallina urlsplit / urlunsplit / username,password,hostname,port / split_host_and_port for ASCII text without bracketed hosts (CPython 3.12.1 semantics), tied to the stdlib only through the correspondence runs; non-ASCII input and '[' ']' in a netloc are an explicit Unmodelled result and are not generated",
    "C06's HTTPHeaders model (coq/C06/Model.v) for the header objects",
    "HTTP1Connection request serialisation is modelled only as far as the client uses it here (request line, 'Name: value' lines in get_all order, body with Content-Length); response parsing enters as events (complete response / malformed head / bad framing / EOF / reset); chunked request bodies, body_producer, expect_100_continue, proxies, streaming/header callbacks, decompression of responses are outside the model and not exercised",
]
ASSUMPTIONS = [
    "Part 1 (admission/completion): request URLs are valid http URLs, so every started connection reaches tcp_client.connect; timeouts enter only as 'non-zero or zero' (a timer exists or not) and a timer may fire at any later moment",
    "Part 2 (redirects): ASCII URLs/headers, no bracketed IPv6 hosts; the Location-joined URL is an arbitrary text in the theorems",
]
RULE = ("schedules: random mostly-applicable event lists chosen with a small reference simulation (+8% stray events, + fully random lists), "
        "plus every sequence of applicable events up to a depth bound after 2-3 submissions (small scope, exhaustive up to the cap); "
        "redirects: random requests (credentials in URL / auth_username / Authorization, 0-3 Cookie values with case variants, body/method combinations, "
        "malformed header names) against 0-7 scripted answers with same-origin, cross-origin (scheme/host/port/userinfo) and odd Location values, "
        "plus the product origs x header shapes x methods x codes x Location classes x auth; distinct by canonical JSON; "
        "non-trivial = a schedule in which some fetch completed, or any redirect scenario")
LEVEL_TEXT = ("Machine-checked (Coq) theorems over ALL event lists of an executable model of SimpleAsyncHTTPClient's queue/active/waiting machine and "
              "_HTTPConnection's completion machine (|active| <= max_clients, starts in submission order, exactly-once completion as a conservation law, "
              "no reachable internal error, timers armed, every terminal event completes), and over ALL requests / header sets / Location-derived URLs for "
              "finish()'s redirect rewriting (followed iff, max_redirects decreases and bounds every chain, 303/301/302 -> bodiless GET, cross-origin => no "
              "Authorization, no Cookie of any multiplicity, no auth_username/password, netloc rebuilt without userinfo; also for the bytes run() then writes). "
              "The model is compared with the real client on every generated schedule and redirect chain, and a Coq checker of the property is applied to the real client's observables.")
LEVEL_NOTE = ("Trusted: Coq kernel/vm_compute; the recording harness (fake TCP/streams, captured timers); the hand-written URL model and the externally supplied urljoin "
              "results; C06's header model. The 'no userinfo / no Authorization on the wire' theorems need a non-empty netloc in the Location-derived URL: for an empty netloc and "
              "a path starting with '//' CPython 3.12.1's urlunsplit re-creates a netloc from the path (a proved witness is in Property.v); only credentials that the redirecting "
              "server wrote into Location can appear then. The Coq checker (proved to accept the model on every input) and an independent Python oracle run on the implementation's observables.")
TECHNIQUE = "Coq proof (inductive invariants over all event lists; structural lemmas over the C06 header model) + differential correspondence via vm_compute + property checker on implementation observables"


# ----------------------------------------------------------------------------------------------
# redirect scenarios: one fetch against a scripted server; every hop's request is recorded
# ----------------------------------------------------------------------------------------------
def parse_sent(raw):
    head, sep, body = raw.partition(b"\r\n\r\n")
    lines = head.split(b"\r\n")
    return [lines[0], lines[1:], body] if sep else [raw, [], b""]


def error_tag(err):
    from tornado.simple_httpclient import HTTPTimeoutError, HTTPStreamClosedError
    from tornado.httpclient import HTTPClientError
    if isinstance(err, (HTTPTimeoutError, HTTPStreamClosedError, HTTPClientError)):
        return [G.Tag("httperror"), getattr(err, "code", 0)]
    return [G.Tag("error"), G.Tag(type(err).__name__)]


def run_redirect(case):
    from harness.vclock import run_virtual
    from harness.fake_iostream import FakeIOStream
    from tornado.httpclient import HTTPRequest
    from tornado.httputil import HTTPHeaders

    async def scenario(loop):
        dm = case.get("defmax")
        w = World(2, None if dm is None else dict(max_redirects=dm))
        hops = []
        try:
            try:
                if case.get("dict"):
                    h = dict((n, v) for n, v in case["headers"])        # plain dict: fetch() converts with update()
                else:
                    h = HTTPHeaders()
                    for n, v in case["headers"]:
                        h.add(n, v)
                kw = {}
                if case.get("ua") is not None:
                    kw["user_agent"] = case["ua"]
                req = HTTPRequest(case["url"], method=case["method"],
                                  body=(None if case["body"] is None else case["body"].encode("latin-1")),
                                  headers=h, auth_username=case["auth_user"], auth_password=case["auth_pass"],
                                  follow_redirects=case["follow"], max_redirects=case["maxred"], **kw)
                fut = w.client.fetch(req, raise_error=False)
            except Exception as e:
                return [[], [G.Tag("fetch-raised"), G.Tag(type(e).__name__)]]
            script = list(case["hops"])
            served = 0
            for _ in range(len(script) + 12):
                await settle()
                if fut.done():
                    break
                at = w.attempts[-1]
                if at["fut"] is None or at["fut"].done():
                    break
                s = FakeIOStream()
                at["stream"] = s
                at["fut"].set_result(s)
                await settle()
                rec = [at["conn"].request.url, at["host"], at["port"], bool(at["tls"])] + parse_sent(bytes(s.sent))
                hops.append(rec)
                if s.closed():
                    continue
                if served < len(script):
                    code, loc = script[served][:2]
                else:
                    code, loc = 200, None
                served += 1
                msg = b"HTTP/1.1 %d X\r\n" % code
                if loc is not None:
                    msg += b"Location: " + loc.encode("latin-1") + b"\r\n"
                msg += b"Content-Length: 0\r\n\r\n"
                s.feed(msg)
            await settle()
            if not fut.done():
                return [hops, [G.Tag("pending")]]
            err = fut.exception()
            if err is not None:
                return [hops, error_tag(err)]
            r = fut.result()
            return [hops, [G.Tag("code"), r.code, r.effective_url]]
        finally:
            w.close()

    logging.disable(logging.CRITICAL)
    try:
        return run_virtual(scenario)
    finally:
        logging.disable(logging.NOTSET)


def redir(url, hops, method="GET", body=None, headers=(), auth_user=None, auth_pass=None, maxred=None, follow=True, ua=None, dict=False,
          defmax=None):
    return {"kind": "redir", "dict": bool(dict), "defmax": defmax, "url": url, "method": method, "body": body, "headers": [list(x) for x in headers],
            "auth_user": auth_user, "auth_pass": auth_pass, "maxred": maxred, "follow": follow, "ua": ua,
            "hops": [list(x) for x in hops]}
