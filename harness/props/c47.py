"""C47 — the WSGI container presents requests and responses faithfully.

One WSGIContainer, mounted on an http and an https HTTPServer, serves the requests of a case one after the other, each over its own FakeIOStream; the
capturing WSGI app records the environ it was handed and answers as the case prescribes; the
bytes the server wrote are split into status line / header lines / body.  Both observables are
compared with the Gallina model (C47.Run.run_case) and checked by C47.Run.check_case."""
import logging
import socket
import sys
import types

from harness import gallina as G

ID = "C47"
COQ_DIRS = ["C47", "Gen", "C32"]
PROPERTY_FILE = "C47/Property.v"
RUN_IMPORTS = "From TV Require Import C47.Model C47.Run."
RUN_FN = "run_case"
CHECK_FN = "check_case"
INPUT_TYPE = "input"

CRLF = b"\r\n"


def pre_build():
    """Regenerate coq/Gen/C47_src.v from tornado/wsgi.py of the checkout under test (fail-closed)."""
    import importlib
    import os
    from harness.framework import REPO, COQ
    sys.path.insert(0, os.path.join(os.path.dirname(COQ), "translators"))
    import c47_src
    importlib.reload(c47_src)
    c47_src.emit(REPO, os.path.join(COQ, "Gen", "C47_src.v"))

_quiet = [False]


def _silence():
    if _quiet[0]:
        return
    _quiet[0] = True
    for n in ("tornado.application", "tornado.general", "tornado.access", "asyncio"):
        lg = logging.getLogger(n)
        lg.addHandler(logging.NullHandler())
        lg.setLevel(logging.CRITICAL + 1)
        lg.propagate = False


def wire_request(case):
    head = case["method"] + " " + case["uri"] + " " + ("HTTP/1.1" if case["v11"] else "HTTP/1.0") + "\r\n"
    for n, v in case["headers"]:
        head += n + ":" + v + "\r\n"          # the model strips the value as HTTPHeaders.parse_line does
    head += "\r\n"
    return head.encode("latin-1") + case["body"].encode("latin-1")


BASE_KEYS = ["REQUEST_METHOD", "SCRIPT_NAME", "PATH_INFO", "QUERY_STRING", "REMOTE_ADDR", "SERVER_NAME", "SERVER_PORT",
             "SERVER_PROTOCOL", "wsgi.version", "wsgi.url_scheme", "wsgi.input", "wsgi.errors", "wsgi.multithread",
             "wsgi.multiprocess", "wsgi.run_once"]


def canon_environ(environ):
    """The fifteen fixed keys must come first, in order, with the constant ones holding their constants; the
    observable is the nine computed values (str; wsgi.input as the bytes it yields) + the remaining items."""
    items = list(environ.items())
    keys = [k for k, _ in items[:15]]
    if keys != BASE_KEYS:
        return [G.Tag("BadFixedKeys"), [str(k) for k in keys]]
    d = dict(items[:15])
    consts_ok = (d["SCRIPT_NAME"] == "" and isinstance(d["SCRIPT_NAME"], str) and d["wsgi.version"] == (1, 0)
                 and d["wsgi.errors"] is sys.stderr and d["wsgi.multithread"] is False
                 and d["wsgi.multiprocess"] is True and d["wsgi.run_once"] is False)
    if not consts_ok:
        return [G.Tag("BadConstants")]
    out = []
    for k in ("REQUEST_METHOD", "PATH_INFO", "QUERY_STRING", "REMOTE_ADDR", "SERVER_NAME", "SERVER_PORT",
              "SERVER_PROTOCOL", "wsgi.url_scheme"):
        if not isinstance(d[k], str):
            return [G.Tag("NotStr"), k, type(d[k]).__name__]
        out.append(d[k])
    body = d["wsgi.input"].read()
    if not isinstance(body, bytes):
        return [G.Tag("InputNotBytes")]
    out.append(body)
    extra = []
    for k, v in items[15:]:
        if not (isinstance(k, str) and isinstance(v, str)):
            return [G.Tag("NotStr"), str(k), type(v).__name__]
        extra.append([k, v])
    out.append(extra)
    return out


def split_wire(sent):
    if sent == b"":
        return G.Tag("Raised")
    head, sep, body = sent.partition(CRLF + CRLF)
    if not sep:
        return [G.Tag("NoHeadEnd"), sent]
    lines = head.split(CRLF)
    hs = []
    for ln in lines[1:]:
        n, s2, v = ln.partition(b": ")
        hs.append([n, v] if s2 else [G.Tag("NoColon"), ln])
    return [lines[0], hs, body]


def run_impl(case):
    """All steps of the case are served, one after the other (each on its own connection), by ONE
    WSGIContainer mounted on four HTTPServers (http / https x xheaders off / on)."""
    from harness.fake_iostream import FakeIOStream, EOF
    from harness.vclock import run_virtual, settle
    from tornado.httpserver import HTTPServer
    from tornado.wsgi import WSGIContainer

    _silence()
    cur = {}

    def app(environ, start_response):
        step = cur["step"]
        cur["env"] = canon_environ(environ)
        if step["start"] is not None:
            status, hs = step["start"]
            write = start_response(status, [(n, v) for n, v in hs])      # a fresh list per response
            for w in step["written"]:
                write(w.encode("latin-1"))
        return [c.encode("latin-1") for c in step["chunks"]]

    done = []

    class Container(WSGIContainer):          # only signals completion to the harness
        async def handle_request(self, request):
            try:
                await super().handle_request(request)
            finally:
                done.append(1)

    async def scenario(loop):
        container = Container(app)
        servers = {}

        def server_for(st):
            key = (bool(st["https"]), bool(st.get("xheaders")), tuple(st.get("trusted", [])))
            if key not in servers:
                servers[key] = HTTPServer(container, protocol="https" if key[0] else None, xheaders=key[1],
                                          trusted_downstream=list(key[2]) or None)
            return servers[key]
        outs = []
        for step in case["steps"]:
            cur.clear()
            cur["step"] = step
            del done[:]
            s = FakeIOStream()
            s.socket = types.SimpleNamespace(family=socket.AF_INET)
            server_for(step).handle_stream(s, (step["ip"], 4711))
            s.feed(wire_request(step))
            for _ in range(100 + 8 * len(step["chunks"])):
                await settle(1)
                if done or s.sent:
                    break
            await settle(6)
            s.feed(EOF)
            await settle(8)
            sent = bytes(s.sent)
            if "env" not in cur:
                if sent.startswith(b"HTTP/1.1 400 "):
                    outs.append(G.Tag("Rejected"))
                elif sent == b"":
                    outs.append(G.Tag("EnvironRaised"))
                else:
                    outs.append([G.Tag("Unexpected"), sent])
            else:
                outs.append([G.Tag("Served"), cur["env"], split_wire(sent)])
        return outs

    return run_virtual(scenario)


def _pairs(l):
    return G.glist(["(%s, %s)" % (G.gbytes(n), G.gbytes(v)) for n, v in l], "(list N * list N)")


STEP_TY = ("((bool * bool * list N * list (list N) * list (list N * bool) * bool * list N * list N * list (list N * list N) * list N) * "
           "(option (list N * list (list N * list N)) * list (list N) * list (list N)))")


_gai_cache = {}


def raw_gai(s):
    """socket.getaddrinfo(AI_NUMERICHOST), the OS function behind netutil.is_valid_ip, asked directly"""
    if s not in _gai_cache:
        try:
            r = bool(socket.getaddrinfo(s, 0, socket.AF_UNSPEC, socket.SOCK_STREAM, 0, socket.AI_NUMERICHOST))
        except socket.gaierror as e:
            if e.args[0] != socket.EAI_NONAME:
                raise
            r = False
        except UnicodeError:
            r = False
        _gai_cache[s] = r
    return _gai_cache[s]


def gai_table(step):
    """answers for every string _apply_xheaders can hand to is_valid_ip for this request"""
    if not step.get("xheaders"):
        return []
    keys = []

    def add(x):
        if x not in keys and "\x00" not in x and x != "" and x.isascii():     # is_valid_ip's own guard comes first
            keys.append(x)
    add(step["ip"])
    vals = lambda name: [v.strip(" \t") for n, v in step["headers"] if n.lower() == name]
    xff, real = vals("x-forwarded-for"), vals("x-real-ip")
    if xff:
        for piece in ",".join(xff).split(","):
            add(piece.strip())
    if real:
        add(",".join(real))
    return [(k, raw_gai(k)) for k in keys]


def coq_step(step):
    req = "(%s, %s, %s, %s, %s, %s, %s, %s, %s, %s)" % (
        G.gbool(step["https"]), G.gbool(bool(step.get("xheaders"))), G.gbytes(step["ip"]),
        G.glist([G.gbytes(x) for x in step.get("trusted", [])], "(list N)"),
        G.glist(["(%s, %s)" % (G.gbytes(k), G.gbool(b)) for k, b in gai_table(step)], "(list N * bool)"), G.gbool(step["v11"]), G.gbytes(step["method"]),
        G.gbytes(step["uri"]), _pairs(step["headers"]), G.gbytes(step["body"]))
    if step["start"] is None:
        st = "(@None (list N * list (list N * list N)))"
    else:
        st = "(Some (%s, %s))" % (G.gbytes(step["start"][0]), _pairs(step["start"][1]))
    app = "(%s, %s, %s)" % (st, G.glist([G.gbytes(w) for w in step["written"]], "(list N)"),
                            G.glist([G.gbytes(c) for c in step["chunks"]], "(list N)"))
    return "(%s, %s)" % (req, app)


def coq_input(case):
    import tornado
    return "(%s, %s)" % (G.gbytes(tornado.version), G.glist([coq_step(st) for st in case["steps"]], STEP_TY))


# ----------------------------------------------------------------------------
# generator
# ----------------------------------------------------------------------------
def step(method="GET", uri="/", v11=True, headers=None, body="", https=False, xheaders=False, trusted=(), ip="1.2.3.4",
       start=("200 OK", []), written=(), chunks=("hi",)):
    return {"https": https, "xheaders": xheaders, "trusted": list(trusted), "ip": ip, "v11": v11, "method": method, "uri": uri,
            "headers": [list(h) for h in (headers if headers is not None else [("Host", " example.com")])],
            "body": body,
            "start": None if start is None else [start[0], [list(h) for h in start[1]]],
            "written": list(written), "chunks": list(chunks)}


def seq(*steps):
    return {"steps": list(steps)}


def mk(**kw):
    return seq(step(**kw))


NAMES = ["example.com", "a", "localhost", "1.2.3.4", "[::1]", "[2001:db8::1]", "", "A.b-c_d~e", "xn--bcher-kva.example",
         "[v1.a:b]", "[]", "h%41x", "a!$&'()*+;=b"]
PORTS = ["", ":", ":80", ":8080", ":0", ":00080", ":65535", ":99999", ":100000", ":123456", ":443", ":00000", ":1"]
BAD_HOSTS = ["a,b", "a b", "a/b", "%4", "%zz", "a%", "::1", "a:b:80", "[::1", "\xe9", "a@b", "[::1]x", "[::1]:80:90",
             "a:8a", "a:-1", "a:+1", "a: 80", "a:80 ", "[::1]]:80", "]:80", "a::", ":80", ":", "a:\u0661".encode("utf-8").decode("latin-1"),
             "a:1_0", "a\\b", "a\"b", "a#b", "a?b", "[a]:b]:1", "1:2:3", "a:080:", "{a}"]
METHODS = ["GET", "POST", "HEAD", "PUT", "OPTIONS", "get", "M-SEARCH", "DELETE", "Head"]
PATHS = ["/", "/a", "/a%20b", "/%e9", "/%C3%A9", "/%", "/%2", "/%zz", "/a%2Fb", "/a+b", "/~x/y.z", "*", "/a//b", "/%00",
         "http://x/y", "/%41%5a%7E", "/a%2", "/%%41", "/%4%31", "/a;b=c", "/%e2%82%ac", "x", "/%25%32%30"]
RAW_PATHS = ["/\xe9", "/caf\xc3\xa9", "/\xff%41", "/%e9\xe9"]
QUERIES = ["", "?", "?x=1", "?a=%20&b=+", "?x?y", "?%zz", "?\xe9", "?a=b#c"]
HDR_NAMES = ["X-Foo", "x-foo", "X_Foo", "X-FOO", "Accept", "Cookie", "X-A-b", "A", "x--y", "-", "1x", "Accept-Language",
             "X_foo", "x-Foo-", "-x", "User-Agent", "Content_Type", "Http-Host", "Referer", "X.Y", "x!y", "If-None-Match"]
HDR_VALUES = [" 1", " a b", "", " a ", " \xe9", " a,b", "\t", "x", " \t v\t ", " a\tb", " %41", " \"q\"", "  ", " 0"]
BAD_HDRS = [("X Foo", " 1"), ("X@", " 1"), ("\xe9", " 1"), ("", " 1"), ("X", " a\x00b"), ("X", " a\x7fb"), ("X", " \x01"),
            ("X(", " 1"), ("X", " a\x0bb"), ("X/Y", " 1"), ("X", " \x1f")]
CTYPES = [" text/plain", " t/x; charset=utf-8", " application/json", ""]
XPROTO = [" https", " http", " https, http", " http,https ", " HTTPS", " ftp", "", " https\xa0", " ,", " http,", " https,\thttp\t",
          " \x85https", " wss, https", "https", " http://"]
XFF = [" 9.9.9.9", " 9.9.9.9, 10.0.0.1", " 9.9.9.9,10.0.0.2, 10.0.0.1", " 10.0.0.1", " 10.0.0.1, 10.0.0.2", " bogus", " 9.9.9.9, bogus",
       " ::1", " 2001:db8::5, 10.0.0.1", "", " ,", " 9.9.9.9,", " 1.2.3", " 9.9.9.9\xa0, 10.0.0.1", " 8.8.8.8 , 10.0.0.1 ", " [::1]",
       " 999.1.1.1", " 9.9.9.9\t,\t10.0.0.1", " 1.2.3.4"]
XREAL = [" 7.7.7.7", " bogus", " ::ffff:1.2.3.4", "", " 7.7.7.7, 8.8.8.8", " 7.7.7.7 x", " fe80::1%lo", " 0", " \xe9"]
CONNS = [" close", " keep-alive", " Keep-Alive", " CLOSE", " upgrade", " close, x", ""]

STATUSES = ["200 OK", "404 Not Found", "304 Not Modified", "204 No Content", "100 Continue", "500 ", "201 Created",
            "199 x", "999 Weird thing", "301 Moved Permanently", "200 O K  ", "418 I'm a teapot", "101 Switching Protocols"]
BAD_STATUSES = ["200", "2OO OK", "099 X", "200  two", "200 OK\r\nX: y", "200 \xe9", "", " 200 OK", "20 OK", "2000 OK",
                "abc def", "200\tOK", "200 a\nb", "0 z", "7 seven", "200 \u20ac", "000 x", "304", "30x y",
                "200 a\x00b", "200 a\tb", "200 \x7f", "404 \x1fx", "200 \xff\x80", "500 \u0100", "200 \x0b"]
APP_HDRS = [("Content-Type", "text/plain"), ("content-type", "a/b"), ("X-A", "1"), ("x-a", "2"), ("X-B", "q"),
            ("Set-Cookie", "a=1"), ("set-cookie", "b=2"), ("Server", "mine"), ("SERVER", "other"), ("X-Empty", ""),
            ("ETag", "\"x\""), ("X-L", "\xe9"), ("Location", "/x y"), ("x_a", "3"), ("X-A", "a, b"), ("Vary", "*"),
            ("CONTENT-TYPE", "c/d")]
BAD_APP_HDRS = [("X Y", "1"), ("X", "a\nb"), ("X", "a\r"), ("", "1"), ("X", " lead"), ("X", "trail "), ("X", "\u0100"),
                ("\xe9", "1"), ("X:", "1"), ("X", "a\x00"), ("Connection", "close"), ("connection", "keep-alive"),
                ("Transfer-Encoding", "chunked"), ("X", "\t")]
BODIES = [[], [""], ["hi"], ["a", "bc"], ["", "x", ""], ["\x00\xff\r\n"], ["0123456789" * 3], ["x" * 100, "y"]]


def _body_len(written, chunks):
    return sum(len(x) for x in written) + sum(len(x) for x in chunks)


def rand_request(rng, good=True):
    v11 = rng.random() < 0.75
    method = rng.choice(METHODS) if rng.random() < 0.5 else rng.choice(["GET", "HEAD", "POST"])
    if good or rng.random() < 0.5:
        path = rng.choice(PATHS) if rng.random() < 0.93 else rng.choice(RAW_PATHS)
    else:
        path = rng.choice(PATHS + RAW_PATHS + ["/a b", "", "/\x7f", "/\x01"])
    uri = path + rng.choice(QUERIES)
    hs = []
    r = rng.random()
    if r < 0.86:
        host = rng.choice(NAMES) + rng.choice(PORTS)
        hs.append((rng.choice(["Host", "host", "HOST"]), rng.choice([" ", "", "  "]) + host))
    elif r < 0.96 and not good:
        hs.append(("Host", " " + rng.choice(BAD_HOSTS)))
    elif r < 0.98 and not good:
        hs.append(("Host", " a"))
        hs.append(("host", " b"))
    for _ in range(rng.choice([0, 0, 1, 1, 2, 3, 5])):
        hs.append((rng.choice(HDR_NAMES), rng.choice(HDR_VALUES)))
    if rng.random() < 0.3:
        hs.append((rng.choice(["Content-Type", "content-type", "CONTENT-TYPE"]), rng.choice(CTYPES)))
    if rng.random() < 0.1:
        hs.append(("Content-Type", rng.choice(CTYPES)))
    if rng.random() < 0.3:
        hs.append((rng.choice(["Connection", "connection"]), rng.choice(CONNS)))
    body = ""
    if rng.random() < 0.3:
        body = "".join(chr(rng.randrange(256)) for _ in range(rng.choice([0, 1, 2, 7, 30])))
        hs.append((rng.choice(["Content-Length", "content-length"]), " %d" % len(body)))
    if not good and rng.random() < 0.4:
        hs.append(rng.choice(BAD_HDRS))
    if not good and rng.random() < 0.15:
        method = rng.choice(["G T", "", "GE(T", "G\xe9T", "GET,"])
    xh = rng.random() < 0.3
    if rng.random() < (0.6 if xh else 0.1):
        hs.append((rng.choice(["X-Forwarded-Proto", "x-forwarded-proto", "X-Scheme", "x-scheme"]), rng.choice(XPROTO)))
        if rng.random() < 0.3:
            hs.append((rng.choice(["X-Forwarded-Proto", "X-Scheme"]), rng.choice(XPROTO)))
    trusted = []
    if rng.random() < (0.5 if xh else 0.05):
        trusted = rng.choice([[], [], ["10.0.0.1"], ["10.0.0.1", "10.0.0.2"], ["1.2.3.4"]])
        for _ in range(rng.choice([1, 1, 2])):
            hs.append((rng.choice(["X-Forwarded-For", "x-forwarded-for"]), rng.choice(XFF)))
    if rng.random() < (0.3 if xh else 0.05):
        hs.append((rng.choice(["X-Real-Ip", "X-Real-IP", "x-real-ip"]), rng.choice(XREAL)))
    rng.shuffle(hs)
    return dict(xheaders=xh, trusted=trusted, method=method, uri=uri, v11=v11, headers=hs, body=body, https=rng.random() < 0.3,
                ip=rng.choice(["1.2.3.4", "10.0.0.1", "255.255.255.255"]))


def rand_app(rng, good=True):
    if rng.random() < 0.03:
        return dict(start=None, written=[], chunks=rng.choice(BODIES))
    chunks = list(rng.choice(BODIES))
    written = rng.choice([[], [], [], ["w"], ["w1", "w2"]])
    status = rng.choice(STATUSES) if (good or rng.random() < 0.5) else rng.choice(BAD_STATUSES)
    if status[:3] in ("304", "204", "100", "101", "199") and rng.random() < 0.8:
        chunks, written = rng.choice([[], [""]]), []
    hs = []
    for _ in range(rng.choice([0, 1, 1, 2, 3, 4, 6])):
        hs.append(rng.choice(APP_HDRS))
    if rng.random() < 0.3:
        n = _body_len(written, chunks)
        if not good and rng.random() < 0.5:
            v = rng.choice([str(n + 1), str(max(n - 1, 0)), "x", "", "0" + str(n), "+%d" % n, str(n) + " "])
        else:
            v = str(n)
        hs.insert(rng.randrange(len(hs) + 1), (rng.choice(["Content-Length", "content-length"]), v))
        if not good and rng.random() < 0.2:
            hs.append(("Content-Length", str(n)))
    if not good and rng.random() < 0.5:
        hs.insert(rng.randrange(len(hs) + 1), rng.choice(BAD_APP_HDRS))
    return dict(start=(status, hs), written=written, chunks=chunks)


def _strings(alpha, maxlen):
    cur = [""]
    out = [""]
    for _ in range(maxlen):
        cur = [s + c for s in cur for c in alpha]
        out += cur
    return out


def corpus_cases():
    return [
        # witnesses of the defect fixed by c742a14 (DESIGN.md section 8)
        mk(headers=[("Host", " example.com:")]),
        mk(headers=[("Host", " [::1]:8080")]),
        mk(headers=[("Host", " [::1]")]),
        mk(headers=[("Host", " [::1]:")], https=True),
        mk(uri="/a%20b%zz%e9?x=1%20", headers=[("Host", " h:81"), ("X-Foo", " 1"), ("x-foo", " 2"), ("Content-Type", " t/x")]),
        mk(v11=False, headers=[]),
        mk(headers=[]),
        mk(method="POST", headers=[("Host", " h"), ("Content-Length", " 3")], body="abc",
           start=("201 Created", [("X-A", "1"), ("X-B", "q"), ("x-a", "2"), ("Set-Cookie", "a"), ("set-cookie", "b")]), chunks=["ok"]),
        mk(start=("304 Not Modified", [("ETag", "\"x\"")]), chunks=[]),
        mk(start=("200 OK", [("Content-Length", "2")]), chunks=["hi"]),
        mk(headers=[("Host", " h"), ("X-Foo", " 1"), ("X_Foo", " 2")]),
        mk(method="HEAD", chunks=[]),
        mk(v11=False, headers=[("Host", " h"), ("Connection", " keep-alive")]),
        mk(headers=[("Host", " h"), ("Connection", " close")]),
    ] + FIXED_WITNESSES


# witnesses of the two defects found while building this property (fixed by a2172c8, 9dbe448)
FIXED_WITNESSES = [
    mk(method="HEAD", chunks=["hi"]),
    mk(method="HEAD", v11=False, start=("404 Not Found", [("Content-Type", "a/b")]), written=["w"], chunks=["x", "yz"]),
    mk(uri="/caf\xc3\xa9"),
    mk(uri="/\xe9%e9\xff?\xe9"),
    # fix 92da2a1: reason phrases outside the reason-phrase grammar are refused by write_headers
    mk(start=("200 \u20ac", [])),
    mk(start=("200 a\x00b", [])),
    mk(start=("200 caf\xe9\tx", [])),
    # one container, same port-less Host, the other scheme second (seeded change C47_2)
    seq(step(headers=[("Host", " app.example.com")], https=True), step(headers=[("Host", " app.example.com")], https=False),
        step(headers=[("Host", " [2001:db8::1]")], https=False), step(headers=[("Host", " [2001:db8::1]")], https=True),
        step(headers=[("Host", " other.example.com:")], https=False), step(headers=[("Host", " other.example.com:")], https=True)),
]


def gen_cases(rng, tier):
    out = []
    # every host name x port suffix, both schemes
    for n in NAMES:
        for p in PORTS:
            out.append(mk(headers=[("Host", " " + n + p)], https=(len(out) % 3 == 0), v11=(len(out) % 5 != 0)))
    for h in BAD_HOSTS:
        out.append(mk(headers=[("Host", " " + h)]))
        out.append(mk(headers=[("Host", " " + h)], v11=False))
    # small-scope exhaustive Host values
    alpha, L = ("a:1[]", 3) if tier == "quick" else ("a:1[]0", 4)
    for s in _strings(alpha, L):
        out.append(mk(headers=[("Host", " " + s)], chunks=[]))
    if tier == "thorough":
        for s in _strings("0189:", 4):
            if s.count(":") <= 2:
                out.append(mk(headers=[("Host", " h:" + s)], chunks=[], https=True))
        for s in _strings("%4a/g", 4):
            out.append(mk(uri="/" + s, chunks=[]))
    else:
        for s in _strings("%4g", 3):
            out.append(mk(uri="/" + s, chunks=[]))
    # every path x query
    for i, p in enumerate(PATHS + RAW_PATHS):
        for j, q in enumerate(QUERIES):
            if tier == "thorough" or (i + j) % 4 == 0:
                out.append(mk(uri=p + q, method=METHODS[len(out) % len(METHODS)], chunks=[]))
    # every status x body, with and without the defaulted headers
    for st in STATUSES + BAD_STATUSES:
        for b in (BODIES[:4] if tier == "thorough" else BODIES[1:3]):
            out.append(mk(start=(st, []), chunks=b))
        out.append(mk(start=(st, [("Content-Type", "a/b"), ("Server", "s"), ("Content-Length", "0")]), chunks=[]))
        out.append(mk(start=(st, [("content-length", "2")]), chunks=["hi"], v11=False))
        out.append(mk(method="HEAD", start=(st, []), chunks=[]))
    for h in APP_HDRS + BAD_APP_HDRS:
        out.append(mk(start=("200 OK", [h]), chunks=["b"]))
        out.append(mk(start=("200 OK", [("X-A", "0"), h, ("x-a", "9")]), chunks=["b"], v11=False,
                      headers=[("Host", " h"), ("Connection", " keep-alive")]))
    for h in BAD_HDRS:
        out.append(mk(headers=[("Host", " h"), h]))
    # header names pairwise (collisions of CGI names, case-insensitive grouping)
    for i, a in enumerate(HDR_NAMES):
        for b in HDR_NAMES[i:] if tier == "thorough" else HDR_NAMES[i:i + 3]:
            out.append(mk(headers=[(a, " 1"), ("Host", " h"), (b, " 2"), (a, " 3")], chunks=[]))
    n_rand = 300 if tier == "quick" else 2500
    for i in range(n_rand):
        good_r = rng.random() < 0.8
        good_a = rng.random() < 0.75
        c = rand_request(rng, good_r)
        c.update(rand_app(rng, good_a))
        out.append(mk(**c))
    out += sequence_cases(rng, tier)
    return out


SEQ_HOSTS = ["app.example.com", "app.example.com:", "[2001:db8::1]", "[::1]:", "a", "h:8080", "[::1]:81", "", "h:443", "h:80"]


def sequence_cases(rng, tier):
    """Several requests served by ONE container: same Host (no port / empty port / IPv6 literal / explicit port)
    under alternating schemes, in every order of length 2 and 3; then random mixtures."""
    out = []
    for h in SEQ_HOSTS:
        hdr = [("Host", " " + h)]
        for pattern in ([(a, b) for a in (False, True) for b in (False, True)]
                        + [(a, b, c) for a in (False, True) for b in (False, True) for c in (False, True)]):
            if tier == "quick" and len(pattern) == 3 and pattern in ((False, False, False), (True, True, True)):
                continue
            out.append(seq(*[step(headers=hdr, https=sch, chunks=[], v11=(i != 2)) for i, sch in enumerate(pattern)]))
    # the same, behind a TLS-terminating proxy: one plain-http server with xheaders, scheme per request from the header
    for h in SEQ_HOSTS[:6]:
        for hdrname in ("X-Forwarded-Proto", "X-Scheme"):
            for pattern in ((True, False), (False, True), (True, False, True)):
                out.append(seq(*[step(headers=[("Host", " " + h)] + ([(hdrname, " https")] if sch else []),
                                      xheaders=True, chunks=[]) for sch in pattern]))
    for v in XPROTO:
        out.append(seq(step(headers=[("Host", " h"), ("X-Forwarded-Proto", v)], xheaders=True, chunks=[]),
                       step(headers=[("Host", " h"), ("X-Scheme", v), ("X-Forwarded-Proto", " https")], xheaders=True, https=True, chunks=[]),
                       step(headers=[("Host", " h"), ("X-Scheme", v)], xheaders=False, chunks=[]),
                       step(headers=[("Host", " h"), ("x-scheme", v), ("X-SCHEME", " http")], xheaders=True, https=True, chunks=[])))
    # REMOTE_ADDR behind proxies: every X-Forwarded-For / X-Real-Ip value x trusted_downstream; xheaders off ignores them;
    # the rewrite does not leak into the next request
    for tr in ([], ["10.0.0.1"], ["10.0.0.1", "10.0.0.2"]):
        for v in XFF:
            out.append(seq(step(headers=[("Host", " h"), ("X-Forwarded-For", v)], xheaders=True, trusted=tr, chunks=[]),
                           step(headers=[("Host", " h")], xheaders=True, trusted=tr, chunks=[])))
    for v in XREAL:
        out.append(seq(step(headers=[("Host", " h"), ("X-Forwarded-For", " 9.9.9.9"), ("X-Real-Ip", v)], xheaders=True, chunks=[]),
                       step(headers=[("Host", " h"), ("X-Real-Ip", v), ("X-Forwarded-For", " 9.9.9.9")], xheaders=False, chunks=[]),
                       step(headers=[("Host", " h"), ("x-real-ip", v), ("X-REAL-IP", " 6.6.6.6")], xheaders=True, ip="10.0.0.1", chunks=[])))
    out.append(seq(step(headers=[("Host", " h"), ("X-Forwarded-For", " 9.9.9.9"), ("x-forwarded-for", " 10.0.0.1"), ("Accept", " a"), ("accept", " b")],
                        xheaders=True, trusted=["10.0.0.1"], chunks=[])))
    # two hosts interleaved, the port-less one seen under both schemes around a request with an explicit port
    for h1, h2 in [("a", "a:8080"), ("[::1]", "[::1]:"), ("x.y:", "x.y"), ("h", "H")]:
        for first in (False, True):
            out.append(seq(step(headers=[("Host", " " + h1)], https=first, chunks=[]),
                           step(headers=[("Host", " " + h2)], https=not first, chunks=[]),
                           step(headers=[("Host", " " + h1)], https=not first, chunks=[]),
                           step(headers=[("Host", " " + h2)], https=first, chunks=[])))
    # a rejected request and a failing application in the middle leave nothing behind
    out.append(seq(step(https=True, chunks=[]), step(headers=[("Host", " a,b")]), step(chunks=[]),
                   step(https=True, start=None), step(start=("200", [])), step(https=False, chunks=["x"])))
    # more than 64 distinct hosts between two requests for the same one
    if tier == "thorough":
        out.append(seq(*([step(headers=[("Host", " first")], https=True, chunks=[])]
                         + [step(headers=[("Host", " h%d" % i)], chunks=[]) for i in range(66)]
                         + [step(headers=[("Host", " first")], chunks=[])])))
    for _ in range(40 if tier == "quick" else 400):
        hosts = [rng.choice(NAMES) + rng.choice(["", "", ":", ":8080"]) for _ in range(rng.choice([1, 1, 2]))]
        steps = []
        for _ in range(rng.choice([2, 3, 3, 4, 5])):
            c = rand_request(rng, rng.random() < 0.9)
            c.update(rand_app(rng, rng.random() < 0.8))
            if rng.random() < 0.85:
                c["headers"] = [h for h in c["headers"] if h[0].lower() != "host"] + [("Host", " " + rng.choice(hosts))]
            c["https"] = rng.random() < 0.5
            steps.append(step(**c))
        out.append(seq(*steps))
    return out


def _accepted(o):
    return isinstance(o, list) and o and o[0] == "Served"


def _host_of(st):
    hosts = [v.strip(" \t") for n, v in st["headers"] if n.lower() == "host"]
    return hosts[0] if hosts else None


def nontrivial(case, obs):
    if not any(_accepted(o) for o in obs):
        return None
    return repr(case["steps"])


def classify(case, obs):
    steps = case["steps"]
    yield "steps=%d" % min(len(steps), 5)
    if len(steps) > 1:
        seen = {}
        for st in steps:
            seen.setdefault(_host_of(st), set()).add(st["https"])
        yield "seq:same-host-both-schemes=" + str(any(len(v) == 2 for v in seen.values()))
    for st, o in zip(steps, obs):
        yield "outcome=" + (o[0] if _accepted(o) else str(o if isinstance(o, str) else o[0]))
        if _accepted(o):
            w = o[2]
            yield "wire=" + (str(w) if isinstance(w, str) else "written")
        h = _host_of(st)
        if h is None:
            yield "host=absent"
        else:
            yield "host=" + ("bracketed" if h.startswith("[") else "plain") + ("+port" if h.rpartition(":")[2].isdigit() else
                                                                             "+emptyport" if h.endswith(":") else "")
        yield "scheme=" + ("https" if st["https"] else "http") + ("+xheaders" if st.get("xheaders") else "")
        yield "method=" + ("HEAD" if st["method"] == "HEAD" else "other")
        yield "path=" + ("raw-non-ascii" if any(ord(c) > 127 for c in st["uri"].partition("?")[0]) else
                         "escapes" if "%" in st["uri"].partition("?")[0] else "plain")
        if st["start"] is None:
            yield "app=no-start"
        else:
            yield "status=" + st["start"][0][:3]
            yield "app-headers=%d" % min(len(st["start"][1]), 4)
        yield "req-headers=%d" % min(len(st["headers"]), 6)


def signature(case, obs):
    return "steps=%d:" % len(case["steps"]) + ",".join(
        ("served" if _accepted(o) else str(o if isinstance(o, str) else o[0])) for o in obs)[:80]


def shrink_step(case):
    hs = case["headers"]
    for i in range(len(hs)):
        if hs[i][0].lower() not in ("host", "content-length"):
            yield dict(case, headers=hs[:i] + hs[i + 1:])
    if case["start"] is not None:
        st, ah = case["start"]
        for i in range(len(ah)):
            yield dict(case, start=[st, ah[:i] + ah[i + 1:]])
        if st != "200 OK":
            yield dict(case, start=["200 OK", ah])
    if case["written"]:
        yield dict(case, written=[])
    if len(case["chunks"]) > 1:
        yield dict(case, chunks=case["chunks"][:1])
    if case["chunks"] and len(case["chunks"][0]) > 1:
        yield dict(case, chunks=[case["chunks"][0][:1]])
    path, q, query = case["uri"].partition("?")
    if q:
        yield dict(case, uri=path)
    if len(path) > 1:
        yield dict(case, uri=path[:len(path) // 2] + q + query)
        yield dict(case, uri=path[:-1] + q + query)
    if not case["v11"] and any(n.lower() == "host" for n, _ in hs):
        yield dict(case, v11=True)
    if case["method"] not in ("GET", "HEAD"):
        yield dict(case, method="GET")


def shrink(case):
    steps = case["steps"]
    if len(steps) > 1:
        for i in range(len(steps)):
            yield {"steps": steps[:i] + steps[i + 1:]}
    for i, st in enumerate(steps):
        for st2 in shrink_step(st):
            yield {"steps": steps[:i] + [st2] + steps[i + 1:]}
        if len(steps) == 1 and st["https"]:
            yield {"steps": [dict(st, https=False)]}


TRUSTED_BASE = [
    "translators/c47_src.py (ast-based reader of WSGIContainer.environ and _path_bytes; fails closed on any other statement/expression shape and on any use of self other than reading self.executor)",
    "the request reader (C01's subject) is outside this model: a case is the start line and header lines the reader splits out; the harness renders them as 'name:value' lines and one request per connection",
    "the harness splits the bytes written by the server at the first blank line, at CRLF and at the first ': ' of each line (the model proves no line contains CR or LF)",
    "urllib.parse.unquote_to_bytes and the UTF-8 codec are modelled in coq/Lib/C21_Pct.v / C21_Utf8.v",
    "ASCII case mapping is used for header names (exact: names are validated as ASCII tokens first)",
]
ASSUMPTIONS = [
    "the default (same-thread) executor; wsgi.multithread is then the constant False",
    "the application passes str status/header values and bytes body chunks (other types raise TypeErrors that are not modelled)",
    "the status code field contains no whitespace, sign, underscore or non-ASCII character unless it is all digits (int()'s extended syntax is outside the model: IntUnmodelled)",
    "socket.getaddrinfo(AI_NUMERICHOST) behind netutil.is_valid_ip is a recorded table (asked directly by the harness for every candidate string); the remote_ip part of _apply_xheaders is C32's model (coq/C32/Model.v)",
    "request headers Expect / Transfer-Encoding, duplicate Content-Length and form/multipart content types are not generated (they trigger connection-layer behaviour outside WSGIContainer)",
    "response pass-through is stated for applications that respect PEP 3333 / HTTP (Run.app_ok): 3-digit status + space + printable ASCII reason, token header names, valid field values, no hop-by-hop headers, a correct Content-Length if given, no body with 1xx/204/304",
]
RULE = ("Host names x port suffixes exhaustively, all strings over a small Host alphabet up to length 3 (quick: a:1[]) / 4 (thorough: a:1[]0), "
        "thorough also all port strings over 0189: up to length 4 and all paths over %4a/g up to length 4, "
        "paths with every kind of escape x query strings, statuses x bodies x default-header presence, header-name pairs (CGI collisions), "
        "plus random structured requests/applications (80% well-formed); sequences of 2-6 (thorough: up to 68) requests on ONE container: "
        "same Host without port / with empty port / IPv6 literal / explicit port under every http/https order of length 2 and 3, interleaved hosts, "
        "rejected and failing requests in the middle, random mixtures; distinct by full input; non-trivial = the application was called")
LEVEL_TEXT = ("Machine-checked (Coq) theorems over an executable model of WSGIContainer.environ / handle_request and the parts of HTTPHeaders, "
              "HTTPServerRequest and HTTP1Connection.write_headers they rely on: building the environ never raises for any accepted request; PATH_INFO is the percent-decoding of the raw path bytes; "
              "SERVER_NAME/SERVER_PORT equal the left-to-right reading of name[:port] Host values; every CGI variable is determined by the request; "
              "for every well-formed application output the response is written and status, headers (per-name value sequences) and body (none for HEAD) reach the transport unchanged apart from the three defaults; the model satisfies the checker on every input. "
              "The model is compared with the real server + container on every generated request/application pair.")
LEVEL_NOTE = ("Trusted: Coq kernel/vm_compute; the request reader upstream of HTTPServerRequest; the harness's response splitter; the Pct/Utf8 library models.")
TECHNIQUE = "Coq proofs (induction over header lists / header map invariants) + translator from wsgi.py (environ) with equivalence proofs + differential correspondence via vm_compute through a real HTTPServer on a fake stream"
