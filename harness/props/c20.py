"""C20 — template autoescaping never emits unescaped data.

Same input shape and implementation runner as C19; the observable is the output of
generate() only.  The generator wraps every expression tag in sentinel bytes that
say what the tag's DEFINING FILE promises: \\x01..\\x02 = escaped with
xhtml_escape, \\x03..\\x04 = raw tag or a file with autoescape None."""
import html

from harness import gallina as G
from harness.props import c19 as B

ID = "C20"
COQ_DIRS = ["C20"]
PROPERTY_FILE = "C20/Property.v"
RUN_IMPORTS = "From TV Require Import C19.Model C19.Sem C19.Run C20.Model C20.Run."
RUN_FN = "C20.Run.run_case"
CHECK_FN = "C20.Run.check_case"
INPUT_TYPE = "case"

coq_input = B.coq_input

VALUES = {
    "s1": {"t": "s", "v": "<a href=\"x\">&'</a>"},
    "s2": {"t": "s", "v": "é☃ <\"'>"},
    "s3": {"t": "s", "v": "&lt;already&amp;"},
    "e": {"t": "s", "v": ""},
    "b1": {"t": "b", "v": "<b>\xc3\xa9'\""},
    "b3": {"t": "b", "v": "plain"},
    "o1": {"t": "o", "s": "<script>alert('\"&')</script>", "truth": True, "items": None},
    "t": {"t": "o", "s": "T<", "truth": True, "items": ["p", "<q>", "'"]},
    "f": {"t": "o", "s": "F>", "truth": False, "items": []},
    "xs": {"t": "o", "s": "xs", "truth": True, "items": ["a", "<b>", "é\"", "&"]},
}
PRINTABLE = ["s1", "s2", "s3", "e", "b1", "b3", "o1", "t", "f", "xs"]
ITERABLE = ["xs", "t", "f", "s1", "e"]
ESCAPING = ("xhtml_escape", "escape")


def run_impl(case):
    o = B.run_impl(case)
    if isinstance(o, list) and o and o[0] == "ok":
        return [G.Tag("ok"), o[2]]
    return o


def mark(eff, raw, tag):
    if raw or eff is None:
        return "\x03" + tag + "\x04"
    if eff in ESCAPING:
        return "\x01" + tag + "\x02"
    return tag


TEXT = ["a", " ", "\n", "<p>", "'", '"', "&", "}}", "é", "  \n ", "<pre> </pre>", "\\", "}"]


def g_items(rng, depth, ctx, lo=0, hi=4):
    return "".join(g_item(rng, depth, ctx) for _ in range(rng.randrange(lo, hi + 1)))


def g_item(rng, depth, ctx):
    eff, loopvars = ctx["eff"], ctx["vars"]
    r = rng.random()
    if depth <= 0 or r < 0.5:
        k = rng.randrange(10)
        if k < 2:
            return "".join(rng.choice(TEXT) for _ in range(rng.randrange(1, 4)))
        if k < 6:
            return mark(eff, False, "{{ %s }}" % rng.choice(PRINTABLE + loopvars * 3))
        if k == 6:
            return mark(eff, True, "{%% raw %s %%}" % rng.choice(PRINTABLE + loopvars))
        if k == 7 and ctx["includes"]:
            return "{%% include %s %%}" % rng.choice(ctx["includes"])
        if k == 8:
            return rng.choice(["{# c #}", "{% whitespace oneline %}", "{% whitespace all %}", "{{!", "{%!"])
        return mark(eff, False, "{{%s}}" % rng.choice(PRINTABLE + loopvars * 3))
    d = depth - 1
    k = rng.randrange(6)
    if k < 2:
        s = "{%% if %s %%}%s" % (rng.choice(PRINTABLE), g_items(rng, d, ctx))
        if rng.random() < 0.4:
            s += "{%% elif %s %%}%s" % (rng.choice(PRINTABLE), g_items(rng, d, ctx))
        if rng.random() < 0.5:
            s += "{% else %}" + g_items(rng, d, ctx)
        return s + "{% end %}"
    if k < 4:
        v = rng.choice(["x", "y"])
        inner = dict(ctx, vars=sorted(set(loopvars + [v])))
        return "{%% for %s in %s %%}%s{%% end %%}" % (v, rng.choice(ITERABLE), g_items(rng, d, inner, 1, 3))
    if k == 4:
        return "{%% apply wrap %%}%s{%% end %%}" % g_items(rng, d, ctx)
    if ctx["blocks"]:
        return "{%% block %s %%}%s{%% end %%}" % (rng.choice(ctx["blocks"]), g_items(rng, d, dict(ctx, vars=[])))
    return mark(eff, False, "{{ s1 }}")


SETTINGS = [None, "xhtml_escape", "xhtml_escape", "escape", "wrap"]


def g_file(rng, depth, default, includes, blocks, prefix="", lo=1, hi=4):
    """file content whose effective setting is decided first; the directive may come last"""
    k = rng.randrange(4)
    if k == 0:
        eff, pre, post = default, "", ""
    else:
        eff = rng.choice(SETTINGS)
        d = "{%% autoescape %s %%}" % ("None" if eff is None else eff)
        pre, post = (d, "") if k == 1 else ("", d) if k == 2 else ("{% autoescape wrap %}", d)
    body = g_items(rng, depth, {"eff": eff, "vars": [], "includes": includes, "blocks": blocks}, lo, hi)
    return prefix + pre + body + post


def g_case(rng, depth):
    lae = rng.choice(SETTINGS)
    blocks = ["b1k", "b2k"]
    i2 = g_file(rng, depth - 1, lae, [], [])
    i1 = g_file(rng, depth - 1, lae, ["i2.html"], blocks)
    base = g_file(rng, depth, lae, ["i1.html", "i2.html"], blocks) + "{% block b1k %}" + mark(None, True, "{% raw s1 %}") + "{% end %}"
    mid = g_file(rng, depth, lae, ["i2.html"], blocks, prefix='{% extends "base.html" %}', lo=0)
    files = [["base.html", base], ["mid.html", mid], ["i1.html", i1], ["i2.html", i2]]
    rae = rng.choice([None, None, [None], ["xhtml_escape"], ["wrap"]])
    rdef = lae if rae is None else rae[0]
    k = rng.randrange(3)
    if k == 0:
        root = g_file(rng, depth, rdef, ["i1.html", "i2.html"], blocks, prefix="{%% extends %s %%}" % rng.choice(["mid.html", "base.html"]), lo=0)
    elif k == 1:
        root = g_file(rng, depth, rdef, ["i1.html", "i2.html", "base.html"], blocks)
    else:
        root = g_file(rng, depth, rdef, [], [])
        files = []
    return B.mk(root, name=rng.choice(["r.html", "r.txt"]), files=files, use=True, lae=lae,
                lws=rng.choice([None, None, "oneline"]), rae=rae, env=[[k2, VALUES[k2]] for k2 in VALUES])


def corpus_cases():
    env = [[k, VALUES[k]] for k in VALUES]
    m = lambda src, **kw: B.mk(src, env=env, **kw)
    return [
        m("\x01{{ s1 }}\x02\x03{% raw s1 %}\x04"),
        m("{% autoescape None %}\x03{{ o1 }}\x04{% include i.html %}\x03{{ b1 }}\x04", files=[["i.html", "\x01{{ o1 }}\x02"]]),
        m("\x01{{ s1 }}\x02{% include i.html %}\x01{{ s1 }}\x02", files=[["i.html", "\x03{{ s1 }}\x04{% autoescape None %}"]]),
        m('{% extends "base.html" %}{% block b %}\x01{{ s1 }}\x02{% end %}',
          files=[["base.html", "{% autoescape None %}[{% block b %}{% end %}]\x03{{ s1 }}\x04"]]),
        m('{% extends "base.html" %}{% autoescape None %}{% block b %}\x03{{ s1 }}\x04{% end %}',
          files=[["base.html", "[{% block b %}{% end %}]\x01{{ s1 }}\x02"]]),
        m("{% apply wrap %}\x01{{ o1 }}\x02{% for x in xs %}\x01{{ x }}\x02{% end %}{% end %}"),
        m("\x03{{ s1 }}\x04", lae=None),
        m("\x01{{ s1 }}\x02", lae=None, rae=["xhtml_escape"]),
    ]


def gen_cases(rng, tier):
    n = 450 if tier == "quick" else 1600
    out = [g_case(rng, rng.choice([1, 2, 2, 3])) for _ in range(n)]
    keep = []
    for c in out:
        if len(c["root"]["src"]) > 500 or sum(len(s) for _, s in c["ldr"]["files"]) > 900 or not B.in_pool(c):
            continue
        try:                      # size filter only: very long outputs overflow coqc's list parser
            o = run_impl(c)
        except Exception:
            o = None
        if isinstance(o, list) and len(o) == 2 and isinstance(o[1], bytes) and len(o[1]) > 1500:
            continue
        keep.append(c)
    return keep


# ---------------------------------------------------------------- independent oracle
def _raw(v):
    if v["t"] == "s":
        return v["v"].encode("utf-8")
    if v["t"] == "b":
        return v["v"].encode("latin-1")
    return v["s"].encode("utf-8")


def _cands(case):
    vs = []
    for _, v in case["env"]:
        vs.append(_raw(v))
        if v["t"] == "s":
            vs += [ch.encode("utf-8") for ch in v["v"]]
        elif v["t"] == "o" and v["items"] is not None:
            vs += [i.encode("utf-8") for i in v["items"]]
        elif v["t"] == "b":
            vs += [str(b).encode() for b in v["v"].encode("latin-1")]
    return vs


def py_check(case, o):
    if not (isinstance(o, list) and len(o) == 2 and o[0] == "ok" and isinstance(o[1], bytes)):
        return True          # construction errors are compared with the model by check_case
    raws = _cands(case)
    escs = set()
    for r in raws:
        try:
            escs.add(html.escape(r.decode("utf-8"), quote=True).encode("utf-8"))
        except UnicodeDecodeError:
            pass
    raws = set(raws)
    out, i, n = o[1], 0, len(o[1])
    while i < n:
        c = out[i]
        if c in (1, 3):
            close = 2 if c == 1 else 4
            j = i + 1
            while j < n and out[j] not in (1, 2, 3, 4):
                j += 1
            if j >= n or out[j] != close:
                return False
            seg = out[i + 1:j]
            if c == 1:
                if seg not in escs or any(ch in seg for ch in b"<>\"'"):
                    return False
            elif seg not in raws:
                return False
            i = j + 1
        elif c in (2, 4):
            return False
        else:
            i += 1
    return True


def nontrivial(case, o):
    if isinstance(o, list) and len(o) == 2 and isinstance(o[1], bytes) and (b"\x01" in o[1] or b"\x03" in o[1]):
        return (case["root"]["src"], tuple(tuple(f) for f in case["ldr"]["files"]), str(case["root"]["ae"]), str(case["ldr"]["ae"]))
    return None


def classify(case, o):
    if isinstance(o, list) and len(o) == 2 and isinstance(o[1], bytes):
        yield "escaped_contributions=%s" % min(o[1].count(b"\x01"), 9)
        yield "raw_contributions=%s" % min(o[1].count(b"\x03"), 9)
    else:
        yield "result=" + str(o)[:40]
    yield "loader_autoescape=%s" % case["ldr"]["ae"]
    yield "root_autoescape=%s" % (case["root"]["ae"],)
    yield "files=%d" % len(case["ldr"]["files"])
    for d in ("include", "extends", "block", "apply", "autoescape None", "raw"):
        if any(("{% " + d) in s for s in [case["root"]["src"]] + [f[1] for f in case["ldr"]["files"]]):
            yield "has=" + d


def signature(case, o):
    return "ok" if isinstance(o, list) and o and o[0] == "ok" else str(o)


def shrink(case):
    yield from B.shrink(case)
    fs = case["ldr"]["files"]
    for i, (n, s) in enumerate(fs):
        for a, b in ((0, len(s) // 2), (len(s) // 2, len(s))):
            if b > a:
                yield dict(case, ldr=dict(case["ldr"], files=fs[:i] + [[n, s[:a] + s[b:]]] + fs[i + 1:]))


TRUSTED_BASE = B.TRUSTED_BASE + [
    "the sentinel convention: the generator marks a tag as 'escaped' exactly when the effective setting of the file it writes the tag into "
    "is xhtml_escape/escape, and as 'raw' for raw tags and files with autoescape None; py_check then judges the bytes between sentinels (check_case compares the output with the per-file annotated interpretation)",
    "C21's model of escape.xhtml_escape (html.escape with quote=True over UTF-8 decoded input)",
]
ASSUMPTIONS = B.ASSUMPTIONS + ["values in the correspondence are non-raising (str, bytes that are valid UTF-8, objects whose __str__ returns text); raising values are covered by C19"]
RULE = ("random multi-file templates (root + base/mid/i1/i2 through extends, include, block override, apply) where every file gets its own autoescape "
        "setting (loader default, Template(autoescape=...), directive first / last / overriding an earlier directive); every expression tag wrapped in sentinels; "
        "distinct by (root source, files, settings); non-trivial = output contains at least one sentinel-delimited contribution")
LEVEL_TEXT = ("Machine-checked (Coq): autoescaping is a per-file annotation (uresolve = aresolve . annotate), the stateful code writer implements exactly that "
              "lexical rule and restores the current template, the compiled lines of one tag append exactly utf8(f(utf8(value))), and with xhtml_escape the "
              "contribution has no markup byte; tied to tornado.template by C19's code/output correspondence plus the sentinel oracle on generate() output.")
LEVEL_NOTE = "Trusted: as C19, plus the sentinel convention of the generator and C21's xhtml_escape model."
TECHNIQUE = "Coq proof (fuel induction relating stateful writer to lexical resolution; per-file annotation lemma) + differential correspondence + per-file-annotation checker (Coq check_case, proved to accept the model) + sentinel oracle (independent Python py_check)"
