"""C26 — static file serving never leaves its root directory.

A case is {"cfg": k, "raw": request.path (ASCII)}; cfg k selects (cwd, root,
route prefix, default_filename) from CFGS.  The real stack is driven end to end
without sockets: HTTPServer.handle_stream(FakeIOStream) -> HTTP/1 parser ->
Application routing (regex prefix + "(.*)") -> percent/UTF-8 decoding ->
StaticFileHandler.get over a fixture tree created under .scratch/c26fx (no
symlinks; sibling directories share the root's name prefix; every file's
content is "F:" + its own location, so a response body identifies which file
was served).  Observable: [status, Location, body, absolute path computed by
StaticFileHandler.get_absolute_path (recorded by a subclass wrapper) or None].
"""
import asyncio
import itertools
import logging
import os
import re

from harness import gallina as G
from harness.framework import SCRATCH

ID = "C26"
COQ_DIRS = ["C26"]
PROPERTY_FILE = "C26/Property.v"
RUN_IMPORTS = "From TV Require Import C26.Model C26.Run."
RUN_FN = "run_case"
CHECK_FN = "check_case"
INPUT_TYPE = "input"

B = os.path.join(SCRATCH, "c26fx")
EACUTE = "é.txt"

# name -> content id | dict ; must mirror `fixture` in coq/C26/Run.v
TREE = {
    "root": {
        "index.html": "F:root/index.html",
        "a.txt": "F:root/a.txt",
        ".hidden": "F:root/.hidden",
        "sp ace.txt": "F:root/sp ace.txt",
        EACUTE: "F:root/e.txt",
        "sub": {
            "index.html": "F:root/sub/index.html",
            "b.txt": "F:root/sub/b.txt",
            "deep": {"c.txt": "F:root/sub/deep/c.txt"},
        },
        "empty": {},
        "idxdir": {"index.html": {"x.txt": "F:root/idxdir/index.html/x.txt"}},
        "root": {"n.txt": "F:root/root/n.txt"},
    },
    "rootX": {"index.html": "F:rootX/index.html", "secret.txt": "F:rootX/secret.txt"},
    "root.txt": "F:root.txt",
    "roo": {"x.txt": "F:roo/x.txt"},
    "secret.txt": "F:secret.txt",
    "other": {"index.html": "F:other/index.html", "sub": {"b.txt": "F:other/sub/b.txt"}},
}

IDX = "index.html"
# (cwd, root, route prefix, default_filename)
CFGS = [
    (B, B + "/root", "/static/", IDX),            # 0 the usual configuration
    (B, B + "/root", "/static/", None),           # 1 no default file
    (B, "root", "/static/", IDX),                 # 2 relative root
    (B + "/root", ".", "/static/", IDX),          # 3 root "." below cwd
    (B + "/rootX", "../root", "/static/", IDX),   # 4 relative with ..
    (B, B + "/root/", "/static/", IDX),           # 5 trailing slash
    (B, B + "/rootX/../root//", "/static/", IDX),  # 6 unnormalised root
    (B, "/" + B + "/root", "/static/", IDX),      # 7 root with two leading slashes
    (B, B + "/root", "/", IDX),                   # 8 prefix "/": request.path may start with "//"
    (B, B, "/", IDX),                             # 9 root = base
    (B, B + "/roo", "/static/", IDX),             # 10 root whose name is a prefix of its siblings
    (B, B + "/root/sub", "/static/", IDX),        # 11 nested root
    (B, B + "/root/root", "/static/", None),      # 12 root/root
    (B, "/", "/", IDX),                           # 13 root "/" (validation disabled; restricted paths)
    (B, B + "/root", "/static/", "../a.txt"),     # 14.. default_filename is not a plain name (configuration
    (B, B + "/root", "/static/", "sub/index.html"),  # outside the theorem's hypothesis; model must still agree)
    (B, B + "/root", "/static/", ""),
    (B, B + "/root", "/static/", ".."),
    (B, B + "/root", "/static/", "../../secret.txt"),
]
ROOT_SLASH_CFG = 13
PLAIN = lambda d: d is None or (d != "" and "/" not in d and d not in (".", ".."))

TRUSTED_BASE = [
    "CPython 3.12 posixpath.join/normpath/abspath, urllib.parse.unquote_to_bytes and bytes.decode('utf-8') are modelled by hand (Model.v) and tied by the correspondence only",
    "the filesystem is an oracle path -> Missing|Dir|File(content) queried atomically; for the correspondence it is a fixed symlink-free fixture tree (Run.v `fixture`, mirrored by TREE here); symlinks and races between the checks and open() are outside the model",
    "request.path is ASCII without '?', control characters or spaces (what the HTTP/1 request-line parser lets through unchanged); the route regex is a literal prefix followed by (.*)",
    "a subclass of StaticFileHandler that records the result of get_absolute_path (calls super(); no behaviour change) provides the absolute-path component of the observable",
]
ASSUMPTIONS = [
    "os.getcwd() is an absolute path (theorem hypothesis cwd = '/' :: _)",
    "default_filename is None or a plain file name (non-empty, no '/', not '.' or '..') for the default-file confinement; C26_default_filename_must_be_plain shows the hypothesis is necessary",
]
RULE = ("19 configurations (absolute/relative/unnormalised/double-slash roots, prefix '/', root '/', nested and prefix-named roots, odd default file names) x "
        "paths built from fixture names, '..', '.', empty, absolute and sibling targets with per-character percent-encoding variants (valid, overlong, NUL, bad hex, "
        "double-encoded), plus a malformed character stream; small-scope exhaustive enumeration of segment sequences (length <= 3 quick, <= 4 thorough) on the main configuration; "
        "distinct by (configuration, request path); non-trivial = the route matched")

logging.getLogger("tornado.access").setLevel(logging.CRITICAL)
logging.getLogger("tornado.general").setLevel(logging.CRITICAL)
logging.getLogger("tornado.application").setLevel(logging.CRITICAL)


# ----------------------------------------------------------------------------
# fixture and driver
# ----------------------------------------------------------------------------
def _mk(path, t):
    os.makedirs(path, exist_ok=True)
    for name, v in t.items():
        p = os.path.join(path, name)
        if isinstance(v, dict):
            _mk(p, v)
        else:
            data = v.encode("ascii")
            try:
                if open(p, "rb").read() == data:
                    continue
            except OSError:
                pass
            tmp = p + ".tmp%d" % os.getpid()
            open(tmp, "wb").write(data)
            os.replace(tmp, p)


_state = {}


def _setup():
    if _state:
        return _state
    _mk(B, TREE)
    from tornado.web import Application, StaticFileHandler
    log = []

    class Rec(StaticFileHandler):
        @classmethod
        def get_absolute_path(cls, root, path):
            r = super().get_absolute_path(root, path)
            log.append(r)
            return r

    loop = asyncio.new_event_loop()
    _state.update(loop=loop, log=log, Rec=Rec, Application=Application, apps={})
    return _state


def _app(st, k):
    if k not in st["apps"]:
        cwd, root, prefix, dflt = CFGS[k]
        st["apps"][k] = st["Application"]([(re.escape(prefix) + r"(.*)", st["Rec"], {"path": root, "default_filename": dflt})])
    return st["apps"][k]


_ERRPAGE = re.compile(rb"^<html><title>(\d+): [^<]*</title><body>\1: [^<]*</body></html>$")


def run_impl(case):
    from harness.fake_iostream import FakeIOStream, EOF
    from tornado.httpserver import HTTPServer
    st = _setup()
    k, raw = case["cfg"], case["raw"]
    cwd = CFGS[k][0]
    app = _app(st, k)
    del st["log"][:]

    async def one():
        srv = HTTPServer(app)
        s = FakeIOStream()
        srv.handle_stream(s, ("1.2.3.4", 5))
        s.feed(b"GET " + raw.encode("ascii") + b" HTTP/1.1\r\nHost: x\r\n\r\n")
        for _ in range(8):
            await asyncio.sleep(0)
        s.feed(EOF)
        for _ in range(4):
            await asyncio.sleep(0)
        return bytes(s.sent)

    old = os.getcwd()
    os.chdir(cwd)
    asyncio.set_event_loop(st["loop"])
    try:
        data = st["loop"].run_until_complete(one())
    finally:
        asyncio.set_event_loop(None)
        os.chdir(old)
    head, sep, body = data.partition(b"\r\n\r\n")
    if not sep:
        return [G.Tag("NoResponse"), data[:60]]
    lines = head.split(b"\r\n")
    status = int(lines[0].split(b" ")[1])
    hdr = {}
    for ln in lines[1:]:
        n, _, v = ln.partition(b":")
        hdr[n.strip().lower()] = v.strip()
    if b"content-length" in hdr and int(hdr[b"content-length"]) != len(body):
        return [G.Tag("BadFraming"), status]
    if status != 200 and _ERRPAGE.match(body):
        body = b""
    loc = hdr.get(b"location")
    log = st["log"]
    if len(log) > 1:
        return [G.Tag("SeveralAbsolutePaths"), status]
    return [status, loc, body, (log[0] if log else None)]


def coq_input(case):
    cwd, root, prefix, dflt = CFGS[case["cfg"]]
    return "(%s, %s, %s, %s, %s, %s)" % (
        G.gbytes(B), G.gbytes(cwd), G.gbytes(root), G.gbytes(prefix),
        G.goption(dflt, G.gbytes, "str"), G.gbytes(case["raw"]))


def py_check(case, o):
    """Independent oracle using the REAL filesystem: a 200 body names a file whose real location is
    inside the real location of the root; only 200/301/400/403/404 occur."""
    cwd, root, prefix, dflt = CFGS[case["cfg"]]
    if not (isinstance(o, list) and len(o) == 4 and isinstance(o[0], int) and not isinstance(o[0], G.Tag)):
        return False
    st, loc, body, ab = o
    if st not in (200, 301, 400, 403, 404):
        return False
    if not PLAIN(dflt):
        return True
    rr = os.path.realpath(os.path.join(cwd, root))
    rr_slash = rr if rr.endswith("/") else rr + "/"
    if st == 200:
        if not body.startswith(b"F:"):
            return False
        where = os.path.realpath(os.path.join(B, body[2:].decode("ascii")))
        if not (where + "/").startswith(rr_slash) or where == rr:
            return False
    if st in (200, 301) and ab is not None:
        real = os.path.realpath(ab)
        if not (real + "/").startswith(rr_slash):
            return False
    if st == 301 and (loc is None or loc.startswith(b"//")):
        return False
    return True


# ----------------------------------------------------------------------------
# generator
# ----------------------------------------------------------------------------
NAMES = ["a.txt", "sub", "deep", "index.html", "root", "rootX", "secret.txt", "roo", "root.txt", "other",
         "empty", "idxdir", ".hidden", "b.txt", "c.txt", "x.txt", "n.txt", "sp ace.txt", EACUTE, "nope"]
SPECIAL = ["..", ".", "", "...", ".. ", "..\x00", "a.txt\x00", "\x00", "..\\", "~", "%", "%2e", "sub\x00"]
SMALL = ["..", ".", "", "sub", "rootX", "root", "a.txt", "index.html", "secret.txt"]
SAFE = set("abcdefghijklmnopqrstuvwxyzABCDEFGHIJKLMNOPQRSTUVWXYZ0123456789._-~/")


def enc_char(rng, ch, mode):
    """Percent-encode one character of the DECODED path; result is ASCII request text."""
    bs = ch.encode("utf-8")
    if mode == "min":
        if ch in SAFE:
            return ch
    elif mode == "mix":
        if ch in SAFE and rng.random() < 0.7:
            return ch
    elif mode == "dots":
        if ch in SAFE and ch != ".":
            return ch
    h = "%%%02X" if rng.random() < 0.5 else "%%%02x"
    return "".join(h % b for b in bs)


def enc_path(rng, path, mode):
    return "".join(enc_char(rng, c, mode) for c in path)


BAD_BITS = ["%c0%ae", "%c0%af", "%e0%80%ae", "%ff", "%E9", "%zz", "%", "%2", "%%32%65", "%252e%252e", "%252f",
            "%ed%a0%80", "%f4%90%80%80", "%c3", "%2e%2e%2f", "%2E%2E/", "..%2f", "..%5c", "%00", "%u002e"]


def rand_path(rng):
    n = rng.choice([0, 1, 1, 2, 2, 3, 3, 4, 5, 6])
    segs = []
    for _ in range(n):
        r = rng.random()
        if r < 0.5:
            segs.append(rng.choice(NAMES))
        elif r < 0.8:
            segs.append(rng.choice(SMALL))
        else:
            segs.append(rng.choice(SPECIAL))
    p = "/".join(segs)
    r = rng.random()
    if r < 0.12:
        p = "/" + p
    elif r < 0.22:
        p = B + "/" + p
    elif r < 0.27:
        p = "/" + B + "/" + p
    elif r < 0.31:
        p = B + "/root/" + p
    elif r < 0.34:
        p = "../" * rng.randrange(1, 8) + B[1:] + "/" + p
    if rng.random() < 0.25:
        p += "/"
    if rng.random() < 0.1:
        p = p.replace("/", "//", 1)
    return p


def rand_raw(rng, k):
    prefix = CFGS[k][2]
    r = rng.random()
    if r < 0.06:   # malformed character stream
        alpha = "/.%2eEfF0cC~-_aX:;=+&@!$'()*,\\"
        return prefix + "".join(rng.choice(alpha) for _ in range(rng.randrange(0, 14)))
    if r < 0.09:   # route does not match
        return rng.choice(["/", "/static", "/stati/a.txt", "/Static/a.txt", "/other/a.txt", "//static/a.txt"])
    p = rand_path(rng)
    raw = enc_path(rng, p, rng.choice(["min", "min", "mix", "dots", "all"]))
    if rng.random() < 0.15:
        i = rng.randrange(len(raw) + 1)
        raw = raw[:i] + rng.choice(BAD_BITS) + raw[i:]
    if rng.random() < 0.05:
        raw = raw.replace("%2F", "%252F").replace("%2E", "%252E")
    return prefix + raw


def rand_raw_rootslash(rng):
    """root '/': only paths inside the fixture or names that certainly do not exist."""
    segs = [rng.choice(NAMES + ["..", ".", ""]) for _ in range(rng.randrange(0, 4))]
    depth = 0
    for s in segs:   # keep the walk below the fixture base
        if s == "..":
            depth -= 1
        elif s not in (".", ""):
            depth += 1
        if depth < 0:
            return "/" + B[1:] + "/root/a.txt"
    head = rng.choice([B[1:], "/" + B[1:], "c26_no_such_dir_zz", B[1:] + "/root/.."])
    return "/" + enc_path(rng, head + "/" + "/".join(segs), rng.choice(["min", "mix"]))


def mk(k, raw):
    return {"cfg": k, "raw": raw}


def corpus_cases():
    out = []
    for tail in ["a.txt", "sub", "sub/", "", "../rootX/secret.txt", "%2e%2e/rootX/secret.txt", "..%2frootX/secret.txt",
                 "../rootX", "../rootX/", "../root.txt", "../roo/x.txt", "../root", "../root/", "../root/a.txt", "..", "../",
                 B + "/secret.txt", B + "/root/a.txt", "/" + B + "/root/a.txt", "/etc/passwd", "//etc/passwd",
                 "a.txt%00", "%00", "sub%00/", "a.txt/", "a.txt/.", "a.txt/..", "idxdir", "idxdir/", "empty/", "empty",
                 "%c0%ae%c0%ae/secret.txt", "%E9.txt", "%C3%A9.txt", "sp%20ace.txt", "root/n.txt", "root/../../secret.txt",
                 "sub/../../rootX/index.html", "./sub/./b.txt", "sub//b.txt", "sub/deep/../../a.txt", "....//secret.txt",
                 "..././secret.txt", "%2e/%2E%2e/%2e%2E/" + B[1:] + "/root/a.txt", "..\\..\\secret.txt", "%", "%2", "%zz"]:
        out.append(mk(0, "/static/" + tail))
    for k in range(1, len(CFGS)):
        if k == ROOT_SLASH_CFG:
            continue
        p = CFGS[k][2]
        for tail in ["a.txt", "sub", "sub/", "", "../rootX/secret.txt", "../root/a.txt", "x.txt", "../secret.txt", "b.txt", "index.html"]:
            out.append(mk(k, p + tail))
    # prefix "/": request.path starting with two slashes (open-redirect guard)
    for k in (8, 9):
        for tail in ["/" + B[1:] + "/root/sub", "/" + B[1:] + "/root/sub/", "/" + B[1:] + "/root", "/..//" + B[1:] + "/root/sub",
                     "sub", "/sub", "root/sub", "rootX", "rootX/", "/" + B[1:] + "/rootX"]:
            out.append(mk(k, "/" + tail))
    for tail in [B[1:] + "/root/a.txt", B[1:] + "/secret.txt", B[1:] + "/root", B[1:] + "/root/", "/" + B[1:] + "/root/sub/",
                 "c26_no_such_dir_zz/x", B[1:] + "/root/sub/../../rootX/secret.txt"]:
        out.append(mk(ROOT_SLASH_CFG, "/" + tail))
    return out


def gen_cases(rng, tier):
    out = []
    depth = 3 if tier == "quick" else 4
    # small-scope exhaustive: every sequence of SMALL segments up to `depth`, with and without trailing slash
    for n in range(1, depth + 1):
        for segs in itertools.product(SMALL, repeat=n):
            p = "/".join(segs)
            if tier == "quick" and n == 3 and rng.random() < 0.5:
                continue
            out.append(mk(0, "/static/" + p))
            if n < depth:
                out.append(mk(0, "/static/" + p + "/"))
    if tier != "quick":
        for n in range(1, 4):
            for segs in itertools.product(SMALL, repeat=n):
                p = "/".join(segs)
                for k in (1, 2, 7, 8, 9, 10, 11):
                    out.append(mk(k, CFGS[k][2] + p))
    nrand = 700 if tier == "quick" else 9000
    ks = [k for k in range(len(CFGS)) if k != ROOT_SLASH_CFG]
    for _ in range(nrand):
        k = 0 if rng.random() < 0.3 else rng.choice(ks)
        out.append(mk(k, rand_raw(rng, k)))
    for _ in range(40 if tier == "quick" else 400):
        out.append(mk(ROOT_SLASH_CFG, rand_raw_rootslash(rng)))
    if tier == "search":
        out = [mk(0, rand_raw(rng, 0)) for _ in range(1500)]
    ok = []
    for c in out:
        r = c["raw"]
        if all(33 <= ord(ch) < 127 for ch in r) and "?" not in r and len(r) < 300:
            ok.append(c)
    return ok


HAS_SEARCH_TIER = True


def neighbours(case, rng):
    k = case["cfg"]
    for _ in range(150):
        yield mk(k, rand_raw(rng, k))


def nontrivial(case, o):
    if isinstance(o, list) and len(o) == 4 and (o[3] is not None or o[0] == 400):
        return (case["cfg"], case["raw"])
    return None


def classify(case, o):
    raw = case["raw"]
    yield "cfg=%d" % case["cfg"]
    if isinstance(o, list) and len(o) == 4:
        yield "status=%s" % o[0]
        ab = o[3]
        if ab is not None:
            cwd, root, prefix, dflt = CFGS[case["cfg"]]
            rr = os.path.realpath(os.path.join(cwd, root)).rstrip("/") + "/"
            yield "abspath=" + ("inside-root" if (os.path.normpath(ab) + "/").replace("//", "/").startswith(rr) else "outside-root")
            if "\x00" in ab:
                yield "NUL-in-path"
    if "%" in raw:
        yield "percent-encoded"
    if ".." in raw or "%2e%2e" in raw.lower():
        yield "dotdot"
    if "//" in raw[1:]:
        yield "double-slash"


def signature(case, o):
    st = o[0] if isinstance(o, list) and o else "?"
    return "cfg-kind=%s status=%s" % ("plain" if PLAIN(CFGS[case["cfg"]][3]) else "odd-default", st)


def shrink(case):
    k, raw = case["cfg"], case["raw"]
    prefix = CFGS[k][2]
    if raw.startswith(prefix):
        tail = raw[len(prefix):]
        segs = tail.split("/")
        for i in range(len(segs)):
            yield mk(k, prefix + "/".join(segs[:i] + segs[i + 1:]))
        for i in range(len(tail)):
            yield mk(k, prefix + tail[:i] + tail[i + 1:])
    if k != 0 and CFGS[k][2] == CFGS[0][2]:
        yield mk(0, raw)


LEVEL_TEXT = ("Machine-checked (Coq) proofs over an executable model of routing capture, percent/UTF-8 decoding, posixpath.join/normpath/abspath, "
              "StaticFileHandler.get_absolute_path and validate_absolute_path with the filesystem as an arbitrary oracle: for every configuration with an absolute cwd "
              "and every request path, a 200 or 301 response implies the absolute path (and the default file) is a normalised path whose segment list extends the "
              "root's segment list; paths outside the root yield 403 without consulting the filesystem, and the response is invariant under any change of the "
              "filesystem outside the root (non-interference); only 200/301/400/403/404 occur; the string prefix test with the re-added trailing slash is proved "
              "equivalent to segment-wise containment (sibling directories sharing the root's name prefix are excluded). The model is compared with the real "
              "HTTP stack end to end on a fixture tree.")
LEVEL_NOTE = ("Trusted: Coq kernel/vm_compute; hand model of CPython posixpath/unquote/UTF-8 tied by correspondence; filesystem oracle (no symlinks, no races); "
              "ASCII request paths; the recording subclass; correspondence harness.")
TECHNIQUE = "Coq proof (invariants of the normpath loop, prefix/segment equivalence, non-interference over an oracle) + differential correspondence via vm_compute on a fixture tree"
