"""C26 — static file serving never leaves its root directory.

A case is {"app": a, "hc": static_hash_cache, "ops": [...]}; app a selects (cwd, [handler (root,
route prefix, default_filename), ...]) from APPS (the first 19 are the single-handler configurations
CFGS; the others have several StaticFileHandlers with sibling / nested roots which share the
class-wide StaticFileHandler._static_hashes cache).  ops are run in order against ONE Application
after StaticFileHandler.reset():  ["G", raw] / ["H", raw] = GET / HEAD with request.path raw (ASCII),
["U", k, path] = StaticFileHandler.make_static_url(settings of handler k, path).
The real stack is driven end to end
without sockets: HTTPServer.handle_stream(FakeIOStream) -> HTTP/1 parser ->
Application routing (regex prefix + "(.*)") -> percent/UTF-8 decoding ->
StaticFileHandler.get over a fixture tree created under .scratch/c26fx (no
symlinks; sibling directories share the root's name prefix; every file's
content is "F:" + its own location, so a response body identifies which file
was served).  Observable per request: [status, Location, body, absolute path computed by
StaticFileHandler.get_absolute_path (recorded by a subclass wrapper) or None, Etag]; per static_url
call: [url].  SHA-512 digests (Etag, ?v=) are replaced by the content they are the digest of.
"""
import asyncio
import hashlib
import itertools
import json
import logging
import os
import re

from harness import gallina as G
from harness.framework import SCRATCH

ID = "C26"
COQ_DIRS = ["C26"]
PROPERTY_FILE = "C26/Property.v"
RUN_IMPORTS = "From TV Require Import C26.Model C26.Seq C26.Run."
RUN_FN = "run_case"
CHECK_FN = "check_case"
INPUT_TYPE = "input"

B = os.path.join(SCRATCH, "c26fx")
EACUTE = "é.txt"

# name -> content id | dict ; must mirror `fixture` in coq/C26/Run.v
TREE = {
    "root": {
        "index.html": "F:root/index.html",
        "a.txt": "F:root/a.txt",
        ".hidden": "F:root/.hidden",
        "sp ace.txt": "F:root/sp ace.txt",
        EACUTE: "F:root/e.txt",
        "sub": {
            "index.html": "F:root/sub/index.html",
            "b.txt": "F:root/sub/b.txt",
            "deep": {"c.txt": "F:root/sub/deep/c.txt"},
        },
        "empty": {},
        "idxdir": {"index.html": {"x.txt": "F:root/idxdir/index.html/x.txt"}},
        "root": {"n.txt": "F:root/root/n.txt"},
    },
    "rootX": {"index.html": "F:rootX/index.html", "secret.txt": "F:rootX/secret.txt"},
    "root.txt": "F:root.txt",
    "roo": {"x.txt": "F:roo/x.txt"},
    "secret.txt": "F:secret.txt",
    "other": {"index.html": "F:other/index.html", "sub": {"b.txt": "F:other/sub/b.txt"}},
}

IDX = "index.html"
# (cwd, root, route prefix, default_filename)
CFGS = [
    (B, B + "/root", "/static/", IDX),            # 0 the usual configuration
    (B, B + "/root", "/static/", None),           # 1 no default file
    (B, "root", "/static/", IDX),                 # 2 relative root
    (B + "/root", ".", "/static/", IDX),          # 3 root "." below cwd
    (B + "/rootX", "../root", "/static/", IDX),   # 4 relative with ..
    (B, B + "/root/", "/static/", IDX),           # 5 trailing slash
    (B, B + "/rootX/../root//", "/static/", IDX),  # 6 unnormalised root
    (B, "/" + B + "/root", "/static/", IDX),      # 7 root with two leading slashes
    (B, B + "/root", "/", IDX),                   # 8 prefix "/": request.path may start with "//"
    (B, B, "/", IDX),                             # 9 root = base
    (B, B + "/roo", "/static/", IDX),             # 10 root whose name is a prefix of its siblings
    (B, B + "/root/sub", "/static/", IDX),        # 11 nested root
    (B, B + "/root/root", "/static/", None),      # 12 root/root
    (B, "/", "/", IDX),                           # 13 root "/" (validation disabled; restricted paths)
    (B, B + "/root", "/static/", "../a.txt"),     # 14.. default_filename is not a plain name (configuration
    (B, B + "/root", "/static/", "sub/index.html"),  # outside the theorem's hypothesis; model must still agree)
    (B, B + "/root", "/static/", ""),
    (B, B + "/root", "/static/", ".."),
    (B, B + "/root", "/static/", "../../secret.txt"),
]
# (cwd, [handlers]) : the single-handler configurations, then Applications with several handlers
APPS = [(c[0], [(c[1], c[2], c[3])]) for c in CFGS] + [
    (B, [(B + "/root", "/static/", IDX), (B + "/rootX", "/x/", IDX), (B + "/roo", "/roo/", None)]),      # 19 sibling roots
    (B, [(B + "/root/sub", "/s/", IDX), (B + "/root", "/static/", IDX), (B, "/all/", IDX)]),             # 20 nested roots
    (B, [(B + "/rootX", "/x/", None), (B + "/root", "/", IDX)]),                                         # 21 catch-all prefix
    (B, [("rootX", "/static/x/", IDX), ("root", "/static/", IDX), ("other", "/static/", IDX)]),          # 22 relative roots, overlapping prefixes
]
MULTI = list(range(len(CFGS), len(APPS)))
ROOT_SLASH_CFG = 13
PLAIN = lambda d: d is None or (d != "" and "/" not in d and d not in (".", ".."))

TRUSTED_BASE = [
    "CPython 3.12 posixpath.join/normpath/abspath, urllib.parse.unquote_to_bytes and bytes.decode('utf-8') are modelled by hand (Model.v) and tied by the correspondence only",
    "the filesystem is an oracle path -> Missing|Dir|File(content) queried atomically; for the correspondence it is a fixed symlink-free fixture tree (Run.v `fixture`, mirrored by TREE here); symlinks and races between the checks and open() are outside the model",
    "request.path is ASCII without '?', control characters or spaces (what the HTTP/1 request-line parser lets through unchanged); the route regex is a literal prefix followed by (.*)",
    "a subclass of StaticFileHandler that records the result of get_absolute_path (calls super(); no behaviour change) provides the absolute-path component of the observable",
    "the SHA-512 content hash is an abstract function H in the theorems and the identity in run_case: the harness replaces each digest in Etag / ?v= by the fixture content it is the digest of (no empty files in the fixture); every case starts from StaticFileHandler.reset(); the filesystem does not change during a sequence (stale cache entries can only affect the Etag, see C26_cache_never_changes_what_is_served which holds for ANY cache state)",
]
ASSUMPTIONS = [
    "os.getcwd() is an absolute path (theorem hypothesis cwd = '/' :: _)",
    "default_filename is None or a plain file name (non-empty, no '/', not '.' or '..') for the default-file confinement; C26_default_filename_must_be_plain shows the hypothesis is necessary",
]
RULE = ("19 single-handler configurations (absolute/relative/unnormalised/double-slash roots, prefix '/', root '/', nested and prefix-named roots, odd default file names) x "
        "paths built from fixture names, '..', '.', empty, absolute and sibling targets with per-character percent-encoding variants (valid, overlong, NUL, bad hex, "
        "double-encoded), plus a malformed character stream; small-scope exhaustive enumeration of segment sequences (length <= 3 quick, <= 4 thorough) on the main configuration; "
        "4 multi-handler Applications (sibling, nested, catch-all, relative/overlapping-prefix roots) x static_hash_cache on/off: every pair (operation that puts a target file into "
        "the shared hash cache: GET/HEAD through the handler that owns it or static_url through any handler) x (request for the same target through every handler in 8 spellings), "
        "exhaustive over 13 targets in thorough, plus random sequences of 2-6 operations; GET and HEAD; "
        "distinct by (application, cache flag, operation list); non-trivial = some request reached get() or was refused for bad encoding")

logging.getLogger("tornado.access").setLevel(logging.CRITICAL)
logging.getLogger("tornado.general").setLevel(logging.CRITICAL)
logging.getLogger("tornado.application").setLevel(logging.CRITICAL)


# ----------------------------------------------------------------------------
# fixture and driver
# ----------------------------------------------------------------------------
def _mk(path, t):
    os.makedirs(path, exist_ok=True)
    for name, v in t.items():
        p = os.path.join(path, name)
        if isinstance(v, dict):
            _mk(p, v)
        else:
            data = v.encode("ascii")
            try:
                if open(p, "rb").read() == data:
                    continue
            except OSError:
                pass
            tmp = p + ".tmp%d" % os.getpid()
            open(tmp, "wb").write(data)
            os.replace(tmp, p)


_state = {}


def _files(t, pre=""):
    for name, v in t.items():
        if isinstance(v, dict):
            yield from _files(v, pre + name + "/")
        else:
            yield pre + name, v


FILES = dict(_files(TREE))                      # location relative to B -> content id
DIGEST = {hashlib.sha512(v.encode("ascii")).hexdigest(): v for v in FILES.values()}


def _setup():
    if _state:
        return _state
    _mk(B, TREE)
    from tornado.web import Application, StaticFileHandler
    log = []

    class Rec(StaticFileHandler):
        @classmethod
        def get_absolute_path(cls, root, path):
            r = super().get_absolute_path(root, path)
            log.append(r)
            return r

    loop = asyncio.new_event_loop()
    _state.update(loop=loop, log=log, Rec=Rec, Application=Application, SFH=StaticFileHandler, apps={})
    return _state


def _app(st, a, hc):
    if (a, hc) not in st["apps"]:
        cwd, hs = APPS[a]
        routes = [(re.escape(prefix) + r"(.*)", st["Rec"], {"path": root, "default_filename": dflt}) for root, prefix, dflt in hs]
        st["apps"][(a, hc)] = st["Application"](routes, static_hash_cache=hc)
    return st["apps"][(a, hc)]


_ERRPAGE = re.compile(rb"^<html><title>(\d+): [^<]*</title><body>\1: [^<]*</body></html>$")


def _canon_digest(h):
    """SHA-512 hex digest -> the fixture content it is the digest of."""
    return DIGEST[h] if h in DIGEST else G.Tag("UnknownDigest")


def _request(st, app, method, raw):
    from harness.fake_iostream import FakeIOStream, EOF
    from tornado.httpserver import HTTPServer
    del st["log"][:]

    async def one():
        srv = HTTPServer(app)
        s = FakeIOStream()
        srv.handle_stream(s, ("1.2.3.4", 5))
        s.feed(method + b" " + raw.encode("ascii") + b" HTTP/1.1\r\nHost: x\r\n\r\n")
        for _ in range(8):
            await asyncio.sleep(0)
        s.feed(EOF)
        for _ in range(4):
            await asyncio.sleep(0)
        return bytes(s.sent)

    data = st["loop"].run_until_complete(one())
    head, sep, body = data.partition(b"\r\n\r\n")
    if not sep:
        return [G.Tag("NoResponse"), data[:60]]
    lines = head.split(b"\r\n")
    status = int(lines[0].split(b" ")[1])
    hdr = {}
    for ln in lines[1:]:
        n, _, v = ln.partition(b":")
        hdr[n.strip().lower()] = v.strip()
    if method == b"GET" and b"content-length" in hdr and int(hdr[b"content-length"]) != len(body):
        return [G.Tag("BadFraming"), status]
    if status != 200 and _ERRPAGE.match(body):
        body = b""
    loc = hdr.get(b"location")
    etag = hdr.get(b"etag")
    if etag is not None:
        e = etag.decode("latin-1")
        etag = _canon_digest(e[1:-1]) if len(e) > 2 and e[0] == e[-1] == '"' else G.Tag("BadEtag")
        if not isinstance(etag, G.Tag):
            etag = etag.encode("ascii")
    log = st["log"]
    if len(log) > 1:
        return [G.Tag("SeveralAbsolutePaths"), status]
    return [status, loc, body, (log[0] if log else None), etag]


def _static_url(st, a, k, path):
    root, prefix, dflt = APPS[a][1][k]
    url = st["Rec"].make_static_url({"static_path": root, "static_url_prefix": prefix}, path)
    m = re.search(r"\?v=([0-9a-f]{128})$", url)
    if m:
        d = _canon_digest(m.group(1))
        if isinstance(d, G.Tag):
            return [d]
        url = url[:m.start()] + "?v=" + d
    return [url]


def run_impl(case):
    st = _setup()
    a, hc = case["app"], case["hc"]
    cwd = APPS[a][0]
    app = _app(st, a, hc)
    old = os.getcwd()
    os.chdir(cwd)
    asyncio.set_event_loop(st["loop"])
    st["SFH"].reset()                      # every case starts with an empty _static_hashes
    assert "_static_hashes" not in st["Rec"].__dict__
    out = []
    try:
        for op in case["ops"]:
            if op[0] == "U":
                out.append(_static_url(st, a, op[1], op[2]))
            else:
                out.append(_request(st, app, b"GET" if op[0] == "G" else b"HEAD", op[1]))
    finally:
        asyncio.set_event_loop(None)
        os.chdir(old)
    return out


def coq_input(case):
    cwd, hs = APPS[case["app"]]
    hl = G.glist(["(%s, %s, %s)" % (G.gbytes(r), G.gbytes(p), G.goption(d, G.gbytes, "str")) for r, p, d in hs])
    ops = []
    for op in case["ops"]:
        if op[0] == "U":
            ops.append("OStaticUrl %s %s" % (G.gnat(op[1]), G.gbytes(op[2])))
        else:
            ops.append("OReq %s %s" % ("GET" if op[0] == "G" else "HEAD", G.gbytes(op[1])))
    assert cwd.startswith("/")
    return "(%s, %s, %s, %s, %s)" % (G.gbytes(B), G.gbytes(cwd[1:]), G.gbool(case["hc"]), hl, G.glist(ops, "op"))


def pick(a, raw):
    for h in APPS[a][1]:
        if raw.startswith(h[1]):
            return h
    return None


def _py_check_req(cwd, h, method, o):
    if not (isinstance(o, list) and len(o) == 5 and isinstance(o[0], int) and not isinstance(o[0], G.Tag)):
        return False
    st, loc, body, ab, etag = o
    if st not in (200, 301, 400, 403, 404) or isinstance(etag, G.Tag):
        return False
    if h is None:
        return st == 404 and ab is None
    root, prefix, dflt = h
    if not PLAIN(dflt):
        return True
    rr = os.path.realpath(os.path.join(cwd, root))
    rr_slash = rr if rr.endswith("/") else rr + "/"

    def inside(ident):
        if not ident.startswith(b"F:"):
            return False
        where = os.path.realpath(os.path.join(B, ident[2:].decode("ascii")))
        return (where + "/").startswith(rr_slash) and where != rr
    if st == 200:
        if method == "G" and not inside(body):
            return False
        if etag is None or not inside(etag) or (method == "G" and etag != body) or (method == "H" and body != b""):
            return False
    elif etag is not None:
        return False
    if st in (200, 301) and ab is not None:
        real = os.path.realpath(ab)
        if not (real + "/").startswith(rr_slash):
            return False
    if st == 301 and (loc is None or loc.startswith(b"//")):
        return False
    return True


def py_check(case, o):
    """Independent oracle using the REAL filesystem: whatever was requested or hashed before, a 200
    body / Etag names a file whose real location is inside the real location of the root of the
    handler that answers; only 200/301/400/403/404 occur."""
    cwd, hs = APPS[case["app"]]
    if not (isinstance(o, list) and len(o) == len(case["ops"])):
        return False
    for op, out in zip(case["ops"], o):
        if op[0] == "U":
            if not (isinstance(out, list) and len(out) == 1 and isinstance(out[0], str) and not isinstance(out[0], G.Tag)):
                return False
        elif not _py_check_req(cwd, pick(case["app"], op[1]), op[0], out):
            return False
    return True


# ----------------------------------------------------------------------------
# generator
# ----------------------------------------------------------------------------
NAMES = ["a.txt", "sub", "deep", "index.html", "root", "rootX", "secret.txt", "roo", "root.txt", "other",
         "empty", "idxdir", ".hidden", "b.txt", "c.txt", "x.txt", "n.txt", "sp ace.txt", EACUTE, "nope"]
SPECIAL = ["..", ".", "", "...", ".. ", "..\x00", "a.txt\x00", "\x00", "..\\", "~", "%", "%2e", "sub\x00"]
SMALL = ["..", ".", "", "sub", "rootX", "root", "a.txt", "index.html", "secret.txt"]
SAFE = set("abcdefghijklmnopqrstuvwxyzABCDEFGHIJKLMNOPQRSTUVWXYZ0123456789._-~/")


def enc_char(rng, ch, mode):
    """Percent-encode one character of the DECODED path; result is ASCII request text."""
    bs = ch.encode("utf-8")
    if mode == "min":
        if ch in SAFE:
            return ch
    elif mode == "mix":
        if ch in SAFE and rng.random() < 0.7:
            return ch
    elif mode == "dots":
        if ch in SAFE and ch != ".":
            return ch
    h = "%%%02X" if rng.random() < 0.5 else "%%%02x"
    return "".join(h % b for b in bs)


def enc_path(rng, path, mode):
    return "".join(enc_char(rng, c, mode) for c in path)


BAD_BITS = ["%c0%ae", "%c0%af", "%e0%80%ae", "%ff", "%E9", "%zz", "%", "%2", "%%32%65", "%252e%252e", "%252f",
            "%ed%a0%80", "%f4%90%80%80", "%c3", "%2e%2e%2f", "%2E%2E/", "..%2f", "..%5c", "%00", "%u002e"]


def rand_path(rng):
    n = rng.choice([0, 1, 1, 2, 2, 3, 3, 4, 5, 6])
    segs = []
    for _ in range(n):
        r = rng.random()
        if r < 0.5:
            segs.append(rng.choice(NAMES))
        elif r < 0.8:
            segs.append(rng.choice(SMALL))
        else:
            segs.append(rng.choice(SPECIAL))
    p = "/".join(segs)
    r = rng.random()
    if r < 0.12:
        p = "/" + p
    elif r < 0.22:
        p = B + "/" + p
    elif r < 0.27:
        p = "/" + B + "/" + p
    elif r < 0.31:
        p = B + "/root/" + p
    elif r < 0.34:
        p = "../" * rng.randrange(1, 8) + B[1:] + "/" + p
    if rng.random() < 0.25:
        p += "/"
    if rng.random() < 0.1:
        p = p.replace("/", "//", 1)
    return p


def rand_raw(rng, k):
    prefix = CFGS[k][2]
    r = rng.random()
    if r < 0.06:   # malformed character stream
        alpha = "/.%2eEfF0cC~-_aX:;=+&@!$'()*,\\"
        return prefix + "".join(rng.choice(alpha) for _ in range(rng.randrange(0, 14)))
    if r < 0.09:   # route does not match
        return rng.choice(["/", "/static", "/stati/a.txt", "/Static/a.txt", "/other/a.txt", "//static/a.txt"])
    p = rand_path(rng)
    raw = enc_path(rng, p, rng.choice(["min", "min", "mix", "dots", "all"]))
    if rng.random() < 0.15:
        i = rng.randrange(len(raw) + 1)
        raw = raw[:i] + rng.choice(BAD_BITS) + raw[i:]
    if rng.random() < 0.05:
        raw = raw.replace("%2F", "%252F").replace("%2E", "%252E")
    return prefix + raw


def rand_raw_rootslash(rng):
    """root '/': only paths inside the fixture or names that certainly do not exist."""
    segs = [rng.choice(NAMES + ["..", ".", ""]) for _ in range(rng.randrange(0, 4))]
    depth = 0
    for s in segs:   # keep the walk below the fixture base
        if s == "..":
            depth -= 1
        elif s not in (".", ""):
            depth += 1
        if depth < 0:
            return "/" + B[1:] + "/root/a.txt"
    head = rng.choice([B[1:], "/" + B[1:], "c26_no_such_dir_zz", B[1:] + "/root/.."])
    return "/" + enc_path(rng, head + "/" + "/".join(segs), rng.choice(["min", "mix"]))


def mk(k, raw, meth="G"):
    return {"app": k, "hc": True, "ops": [[meth, raw]]}


def mkseq(a, hc, ops):
    return {"app": a, "hc": hc, "ops": ops}


def rel_from(root_loc, target_loc):
    """path from directory root_loc to target_loc (both relative to B, '' = B)"""
    r = [x for x in root_loc.split("/") if x]
    t = [x for x in target_loc.split("/") if x]
    i = 0
    while i < len(r) and i < len(t) and r[i] == t[i]:
        i += 1
    return "/".join([".."] * (len(r) - i) + t[i:])


def root_loc(a, k):
    cwd, hs = APPS[a]
    p = os.path.normpath(os.path.join(cwd, hs[k][0]))
    return "" if p == B else os.path.relpath(p, B)


TARGETS = ["root/a.txt", "root/index.html", "root/sub/b.txt", "root/sub/index.html", "rootX/secret.txt", "rootX/index.html",
           "roo/x.txt", "secret.txt", "root.txt", "other/index.html", "other/sub/b.txt", "root/root/n.txt", "root/sub/deep/c.txt"]
DIRS = ["root", "root/sub", "rootX", "roo", "other", "other/sub", "root/empty", ""]


def warm_ops(a, t):
    """operations that legitimately put target t into the hash cache"""
    out = []
    for k, (root, prefix, dflt) in enumerate(APPS[a][1]):
        rl = root_loc(a, k)
        rel = rel_from(rl, t)
        out.append(["U", k, rel])                       # static_url hashes anything the app names
        if not rel.startswith(".."):
            out.append(["G", prefix + rel])
            out.append(["H", prefix + rel])
    return out


def attack_ops(rng, a, t):
    """requests for target t (file or directory) through every handler, in several spellings"""
    out = []
    for k, (root, prefix, dflt) in enumerate(APPS[a][1]):
        rel = rel_from(root_loc(a, k), t)
        forms = [rel, enc_path(rng, rel, "dots"), "./x/../" + rel, B + "/" + t, "/" + B + "/" + t, enc_path(rng, rel, "all"),
                 "sub/../" + rel, rel.replace("/", "//")]
        for f in forms:
            out.append([rng.choice(["G", "G", "H"]), prefix + f])
    return out


def seq_cases(rng, tier):
    out = []
    apps = MULTI if tier != "quick" else MULTI[:3]
    # exhaustive pairs: one warming operation, then one request for the same target through each handler
    for a in apps:
        for hc in (True, False):
            for t in (TARGETS if tier != "quick" else TARGETS[:8:1]):
                ws = warm_ops(a, t)
                ats = attack_ops(rng, a, t)
                if tier == "quick":
                    ats = [x for i, x in enumerate(ats) if i % 8 in (0, 1, 3)]
                    ws = ws[:4]
                    if not hc and rng.random() < 0.6:
                        continue
                for w in ws:
                    for at in ats:
                        out.append(mkseq(a, hc, [w, at]))
    # random longer sequences
    for _ in range(150 if tier == "quick" else 2500):
        a = rng.choice(MULTI)
        hc = rng.random() < 0.8
        ops = []
        for _ in range(rng.randrange(2, 7)):
            t = rng.choice(TARGETS + DIRS)
            r = rng.random()
            if r < 0.35:
                ops.append(rng.choice(warm_ops(a, t)))
            elif r < 0.85:
                ops.append(rng.choice(attack_ops(rng, a, t)))
            elif r < 0.93:
                k = rng.randrange(len(APPS[a][1]))
                ops.append(["U", k, rng.choice(["", "nope.txt", "../", "a.txt\x00", B + "/secret.txt", "sub", "é.txt", "..//rootX/secret.txt"])])
            else:
                k = rng.randrange(len(APPS[a][1]))
                ops.append(["G", APPS[a][1][k][1] + rand_raw(rng, 0)[len("/static/"):]])
        out.append(mkseq(a, hc, ops))
    # single-handler configurations: static_url then request, hash cache off, HEAD
    for _ in range(60 if tier == "quick" else 600):
        k = rng.choice([0, 1, 2, 7, 8, 9, 10, 11])
        raw = rand_raw(rng, k)
        ops = [["U", 0, rng.choice(["../rootX/secret.txt", "a.txt", "sub/index.html", "../secret.txt", B + "/rootX/index.html"])],
               [rng.choice(["G", "H"]), raw], ["G", raw]]
        out.append(mkseq(k, rng.random() < 0.7, ops))
    return out


def corpus_cases():
    out = []
    for tail in ["a.txt", "sub", "sub/", "", "../rootX/secret.txt", "%2e%2e/rootX/secret.txt", "..%2frootX/secret.txt",
                 "../rootX", "../rootX/", "../root.txt", "../roo/x.txt", "../root", "../root/", "../root/a.txt", "..", "../",
                 B + "/secret.txt", B + "/root/a.txt", "/" + B + "/root/a.txt", "/etc/passwd", "//etc/passwd",
                 "a.txt%00", "%00", "sub%00/", "a.txt/", "a.txt/.", "a.txt/..", "idxdir", "idxdir/", "empty/", "empty",
                 "%c0%ae%c0%ae/secret.txt", "%E9.txt", "%C3%A9.txt", "sp%20ace.txt", "root/n.txt", "root/../../secret.txt",
                 "sub/../../rootX/index.html", "./sub/./b.txt", "sub//b.txt", "sub/deep/../../a.txt", "....//secret.txt",
                 "..././secret.txt", "%2e/%2E%2e/%2e%2E/" + B[1:] + "/root/a.txt", "..\\..\\secret.txt", "%", "%2", "%zz"]:
        out.append(mk(0, "/static/" + tail))
    for k in range(1, len(CFGS)):
        if k == ROOT_SLASH_CFG:
            continue
        p = CFGS[k][2]
        for tail in ["a.txt", "sub", "sub/", "", "../rootX/secret.txt", "../root/a.txt", "x.txt", "../secret.txt", "b.txt", "index.html"]:
            out.append(mk(k, p + tail))
    # prefix "/": request.path starting with two slashes (open-redirect guard)
    for k in (8, 9):
        for tail in ["/" + B[1:] + "/root/sub", "/" + B[1:] + "/root/sub/", "/" + B[1:] + "/root", "/..//" + B[1:] + "/root/sub",
                     "sub", "/sub", "root/sub", "rootX", "rootX/", "/" + B[1:] + "/rootX"]:
            out.append(mk(k, "/" + tail))
    for tail in [B[1:] + "/root/a.txt", B[1:] + "/secret.txt", B[1:] + "/root", B[1:] + "/root/", "/" + B[1:] + "/root/sub/",
                 "c26_no_such_dir_zz/x", B[1:] + "/root/sub/../../rootX/secret.txt"]:
        out.append(mk(ROOT_SLASH_CFG, "/" + tail))
    return out


def gen_cases(rng, tier):
    out = []
    depth = 3 if tier == "quick" else 4
    # small-scope exhaustive: every sequence of SMALL segments up to `depth`, with and without trailing slash
    for n in range(1, depth + 1):
        for segs in itertools.product(SMALL, repeat=n):
            p = "/".join(segs)
            if tier == "quick" and n == 3 and rng.random() < 0.5:
                continue
            out.append(mk(0, "/static/" + p))
            if n < depth:
                out.append(mk(0, "/static/" + p + "/"))
    if tier != "quick":
        for n in range(1, 4):
            for segs in itertools.product(SMALL, repeat=n):
                p = "/".join(segs)
                for k in (1, 2, 7, 8, 9, 10, 11):
                    out.append(mk(k, CFGS[k][2] + p))
    nrand = 700 if tier == "quick" else 9000
    ks = [k for k in range(len(CFGS)) if k != ROOT_SLASH_CFG]
    for _ in range(nrand):
        k = 0 if rng.random() < 0.3 else rng.choice(ks)
        out.append(mk(k, rand_raw(rng, k)))
    for _ in range(40 if tier == "quick" else 400):
        out.append(mk(ROOT_SLASH_CFG, rand_raw_rootslash(rng)))
    for c in out:
        if rng.random() < 0.08:
            c["ops"][0][0] = "H"
    out += seq_cases(rng, tier)
    if tier == "search":
        out = [mk(0, rand_raw(rng, 0)) for _ in range(700)] + seq_cases(rng, "quick")[:800]
    ok = []
    for c in out:
        good = True
        for op in c["ops"]:
            if op[0] != "U":
                r = op[1]
                good = good and all(33 <= ord(ch) < 127 for ch in r) and "?" not in r and len(r) < 300
        if good:
            ok.append(c)
    return ok


HAS_SEARCH_TIER = True


def neighbours(case, rng):
    a = case["app"]
    if a in MULTI:
        for _ in range(100):
            t = rng.choice(TARGETS)
            yield mkseq(a, case["hc"], [rng.choice(warm_ops(a, t)), rng.choice(attack_ops(rng, a, t))])
    else:
        for _ in range(150):
            yield mk(a, rand_raw(rng, a))


def _reqs(case, o):
    if isinstance(o, list) and len(o) == len(case["ops"]):
        for op, out in zip(case["ops"], o):
            if op[0] != "U" and isinstance(out, list) and len(out) == 5:
                yield op, out


def nontrivial(case, o):
    for op, out in _reqs(case, o):
        if out[3] is not None or out[0] == 400:
            return (case["app"], case["hc"], json.dumps(case["ops"]))
    return None


def classify(case, o):
    a = case["app"]
    yield "app=%d" % a
    yield "ops=%d" % len(case["ops"])
    if not case["hc"]:
        yield "static_hash_cache=False"
    warmed = set()
    cwd = APPS[a][0]
    for i, op in enumerate(case["ops"]):
        if op[0] == "U":
            yield "op=static_url"
            root = APPS[a][1][op[1]][0]
            warmed.add(os.path.normpath(os.path.join(cwd, root, op[2])) if "\x00" not in op[2] else None)
    for op, out in _reqs(case, o):
        raw = op[1]
        yield "op=" + ("GET" if op[0] == "G" else "HEAD")
        yield "status=%s" % out[0]
        ab = out[3]
        h = pick(a, raw)
        if ab is not None and h is not None:
            rr = os.path.realpath(os.path.join(cwd, h[0])).rstrip("/") + "/"
            ins = (os.path.normpath(ab) + "/").replace("//", "/").startswith(rr)
            yield "abspath=" + ("inside-root" if ins else "outside-root")
            if not ins and ab in warmed:
                yield "outside-root-path-already-in-hash-cache"
            if "\x00" in ab:
                yield "NUL-in-path"
            if out[0] == 200:
                warmed.add(ab)
                if h[2]:
                    warmed.add(ab + "/" + h[2])
        if "%" in raw:
            yield "percent-encoded"
        if ".." in raw or "%2e%2e" in raw.lower():
            yield "dotdot"
        if "//" in raw[1:]:
            yield "double-slash"


def signature(case, o):
    sts = [str(out[0]) for _, out in _reqs(case, o)]
    plain = all(PLAIN(h[2]) for h in APPS[case["app"]][1])
    return "cfg-kind=%s statuses=%s" % ("plain" if plain else "odd-default", ",".join(sts[-2:]))


def shrink(case):
    a, hc, ops = case["app"], case["hc"], case["ops"]
    if len(ops) > 1:
        for i in range(len(ops)):
            yield mkseq(a, hc, ops[:i] + ops[i + 1:])
    if not hc:
        yield mkseq(a, True, ops)
    for j, op in enumerate(ops):
        if op[0] == "U":
            continue
        raw = op[1]
        h = pick(a, raw)
        if h is None:
            continue
        prefix = h[1]
        tail = raw[len(prefix):]
        segs = tail.split("/")
        cands = ["/".join(segs[:i] + segs[i + 1:]) for i in range(len(segs))]
        if len(tail) <= 40:
            cands += [tail[:i] + tail[i + 1:] for i in range(len(tail))]
        for t2 in cands:
            if pick(a, prefix + t2) == h:
                yield mkseq(a, hc, ops[:j] + [[op[0], prefix + t2]] + ops[j + 1:])
        if op[0] == "H":
            yield mkseq(a, hc, ops[:j] + [["G", raw]] + ops[j + 1:])
    if len(ops) == 1 and a not in MULTI and a != 0 and CFGS[a][2] == CFGS[0][2]:
        yield mkseq(0, hc, ops)


def case_from_json(c):
    return c


LEVEL_TEXT = ("Machine-checked (Coq) proofs over an executable model of routing capture, percent/UTF-8 decoding, posixpath.join/normpath/abspath, "
              "StaticFileHandler.get_absolute_path and validate_absolute_path with the filesystem as an arbitrary oracle: for every configuration with an absolute cwd "
              "and every request path, a 200 or 301 response implies the absolute path (and the default file) is a normalised path whose segment list extends the "
              "root's segment list; paths outside the root yield 403 without consulting the filesystem, and the response is invariant under any change of the "
              "filesystem outside the root (non-interference); only 200/301/400/403/404 occur; the string prefix test with the re-added trailing slash is proved "
              "equivalent to segment-wise containment (sibling directories sharing the root's name prefix are excluded). Lifted to sequences: for any list of handlers "
              "(sibling/nested roots) sharing the class-wide hash cache, any sequence of GET/HEAD requests and static_url calls and ANY cache state, each request is "
              "answered exactly as the cache-less single-request model answers it (the cache can influence only the Etag, and from a consistent cache not even that); "
              "normpath is idempotent; check_case accepts the model on every input. The model is compared with the real HTTP stack end to end on a fixture tree.")
LEVEL_NOTE = ("Trusted: Coq kernel/vm_compute; hand model of CPython posixpath/unquote/UTF-8 tied by correspondence; filesystem oracle (no symlinks, no races); "
              "ASCII request paths; the recording subclass; correspondence harness.")
TECHNIQUE = "Coq proof (invariants of the normpath loop, prefix/segment equivalence, non-interference over an oracle) + differential correspondence via vm_compute on a fixture tree"
