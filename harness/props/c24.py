"""C24 — XSRF protection accepts exactly the tokens issued for the cookie.

The implementation is a real tornado.web.Application(xsrf_cookies=...) whose handler
returns self.xsrf_token from every method.  Each case is one request; it is run
(a) directly (HTTPServerRequest handed to the Application, response captured by a
stand-in connection) and, when every value survives header transport unchanged,
(b) as bytes through HTTPServer/HTTP1Connection over a FakeIOStream; both must agree.
os.urandom and time.time as seen by tornado.web are inputs of the case."""
import asyncio
import http.cookies
import itertools
import logging
import re
import urllib.parse

from harness import gallina as G

ID = "C24"
COQ_DIRS = ["C24"]
PROPERTY_FILE = "C24/Property.v"
RUN_IMPORTS = "From TV Require Import C24.Model C24.Run C24.Args."
RUN_FN = "run_case2"
CHECK_FN = "check_case2"
INPUT_TYPE = "case2"

DEFAULT_SUP = ["GET", "HEAD", "POST", "DELETE", "PATCH", "PUT", "OPTIONS"]      # RequestHandler.SUPPORTED_METHODS
SAFE = ("GET", "HEAD", "OPTIONS")

# ---------------------------------------------------------------- implementation runner

_state = {}
_rec = {}


class _Shim:
    """tornado.web's view of a module, with a few attributes replaced."""

    def __init__(self, real, **over):
        self.__dict__["_real"] = real
        self.__dict__["_over"] = over

    def __getattr__(self, name):
        o = self.__dict__["_over"]
        if name in o:
            return o[name]
        return getattr(self.__dict__["_real"], name)


def _urandom(n):
    _rec["urandom"].append(n)
    if n == 16:
        return _rec["rnd"]
    if n == 4:
        return _rec["mask"]
    raise AssertionError("unexpected os.urandom(%d)" % n)


def _time():
    return float(_rec["now"])


class _Conn:
    def __init__(self):
        self.start_line = None
        self.headers = None
        self.chunks = []
        self.finished = False
        self.context = None

    def set_close_callback(self, cb):
        pass

    def write_headers(self, start_line, headers, chunk=None):
        assert self.start_line is None, "headers written twice"
        self.start_line = start_line
        self.headers = [(k, v) for k, v in headers.get_all()]
        if chunk:
            self.chunks.append(bytes(chunk))
        f = asyncio.get_event_loop().create_future()
        f.set_result(None)
        return f

    def write(self, chunk):
        if chunk:
            self.chunks.append(bytes(chunk))
        f = asyncio.get_event_loop().create_future()
        f.set_result(None)
        return f

    def finish(self):
        self.finished = True


def _setup():
    if _state:
        return _state
    import os
    import time
    from tornado import web
    for n in ("tornado.access", "tornado.general", "tornado.application"):
        logging.getLogger(n).setLevel(logging.CRITICAL + 1)

    if list(web.RequestHandler.SUPPORTED_METHODS) != DEFAULT_SUP:
        raise AssertionError("RequestHandler.SUPPORTED_METHODS changed: %r" % (web.RequestHandler.SUPPORTED_METHODS,))

    web.os = _Shim(os, urandom=_urandom)
    web.time = _Shim(time, time=_time)
    _state["web"] = web
    _state["H"] = {}
    _state["apps"] = {}
    _state["srv"] = {}
    _state["loop"] = asyncio.new_event_loop()
    return _state


def sup_of(case):
    return DEFAULT_SUP if case.get("sup") is None else case["sup"]


def _handler(sup):
    """a handler class that declares exactly the verbs `sup` (the documented SUPPORTED_METHODS mechanism)
    and returns self.xsrf_token from each of them"""
    st = _setup()
    key = tuple(sup)
    if key not in st["H"]:
        web = st["web"]

        def _go(self):
            _rec["ran"] += 1
            t = self.xsrf_token
            _rec["token"] = t
            self.write(t)

        H = type("H", (web.RequestHandler,), {"SUPPORTED_METHODS": tuple(sup)})
        for m in sup:
            setattr(H, m.lower(), _go)
        st["H"][key] = H
    return st["H"][key]


def _app(on, ov, sup):
    st = _setup()
    k = (on, ov, tuple(sup))
    if k not in st["apps"]:
        st["apps"][k] = st["web"].Application([(r"/", _handler(sup))], xsrf_cookies=on, xsrf_cookie_version=ov)
    return st["apps"][k]


def _arm(case):
    _rec.clear()
    _rec.update(ran=0, token=None, urandom=[], rnd=case["rnd"].encode("latin-1"),
                mask=case["mask"].encode("latin-1"), now=case["now"])


def _q(v):
    return urllib.parse.quote(v.encode("utf-8"), safe="")


def _uri_body(case):
    if case.get("args") is not None:                 # raw query string and raw urlencoded body (latin-1 text of the bytes)
        q, b = case["args"]
        return "/?" + q, b.encode("latin-1")
    qs = "&".join("_xsrf=" + _q(v) for c, v in case["fields"] if c == "q")
    body = "&".join("_xsrf=" + _q(v) for c, v in case["fields"] if c == "b")
    return ("/?" + qs if qs else "/"), body.encode("ascii")


def ref_arg_values(case):
    """the _xsrf values of a raw query/body as bytes, by the standard library's urlencoded parser (query first)"""
    out = []
    for part in case["args"]:
        for k, v in urllib.parse.parse_qsl(part, keep_blank_values=True, encoding="latin-1", errors="strict"):
            if k == "_xsrf":
                out.append(v.encode("latin-1"))
    return out


def model_fields(case):
    if case.get("args") is not None:
        return [v.decode("utf-8") for v in ref_arg_values(case)]     # raises for invalid utf-8: callers test args_bad first
    return [v for c, v in case["fields"] if c == "q"] + [v for c, v in case["fields"] if c == "b"]


_SC = re.compile(r"_xsrf=([^;]*); Path=/")


def _set_cookie(values):
    if not values:
        return None
    if len(values) > 1:
        return G.Tag("TwoSetCookies")
    m = _SC.fullmatch(values[0])
    if not m:
        return G.Tag("OddSetCookie")
    return m.group(1).encode("latin-1")


def _observe(status, set_cookies):
    if _rec["ran"] > 1:
        return G.Tag("HandlerRanTwice")
    if _rec["urandom"] not in ([], [16], [4], [16, 4]):
        return [G.Tag("UrandomCalls"), repr(_rec["urandom"])]
    return [status, bool(_rec["ran"]), _rec["token"], _set_cookie(set_cookies)]


def run_direct(case):
    from tornado import httputil
    st = _setup()
    h = httputil.HTTPHeaders()
    if case["hx"] is not None:
        h.add("X-Xsrftoken", case["hx"])
    if case["hc"] is not None:
        h.add("X-Csrftoken", case["hc"])
    if case.get("chdr") is not None:
        h.add("Cookie", case["chdr"])                # the real HTTPServerRequest.cookies / parse_cookie run on it
    uri, body = _uri_body(case)
    if body:
        h.add("Content-Type", "application/x-www-form-urlencoded")
    conn = _Conn()
    req = httputil.HTTPServerRequest(method=case["m"], uri=uri, version="HTTP/1.1", headers=h, body=body,
                                     connection=conn, host="localhost")
    if case.get("chdr") is None:
        jar = http.cookies.SimpleCookie()
        if case["cookie"] is not None:
            jar["_xsrf"] = case["cookie"]          # what HTTPServerRequest.cookies does with parse_cookie's result
            if jar["_xsrf"].value != case["cookie"]:
                return G.Tag("CookieJarAltered")
        req._cookies = jar
    _arm(case)

    async def go():
        _app(case["on"], case["ov"], sup_of(case))(req)
        for _ in range(50):
            if conn.finished:
                break
            await asyncio.sleep(0)

    st["loop"].run_until_complete(go())
    if not conn.finished or conn.start_line is None:
        return G.Tag("NoResponse")
    o = _observe(conn.start_line.code, [v for k, v in conn.headers if k == "Set-Cookie"])
    if isinstance(o, list) and o[1] and o[0] == 200 and case["m"] != "HEAD" and b"".join(conn.chunks) != o[2]:
        return G.Tag("BodyIsNotToken")
    return o


_VALUE = re.compile(r"(?:[\x21-\x7e\x80-\xff](?:[\x21-\x7e\x80-\xff \t]*[\x21-\x7e\x80-\xff])?)?")


def header_ok(v):
    return v is None or bool(_VALUE.fullmatch(v))


def cookie_wire_safe(v):
    if v is None:
        return True
    if not _VALUE.fullmatch(v) or ";" in v or v != v.strip():
        return False
    return not (len(v) >= 2 and v[0] == '"' and v[-1] == '"')


_TOKEN = re.compile(r"[!#$%&'*+\-.^_`|~0-9A-Za-z]+")


def wire_safe(case):
    if case.get("chdr") is not None and not (header_ok(case["chdr"]) and len(case["chdr"]) < 6000):
        return False
    if case.get("args") is not None and not re.fullmatch(r"[\x21-\x7e\x80-\xff]*", case["args"][0]):
        return False
    return (bool(_TOKEN.fullmatch(case["m"])) and cookie_wire_safe(case["cookie"]) and header_ok(case["hx"]) and header_ok(case["hc"])
            and sum(len(v) for _, v in case["fields"]) < 3000 and len(case["cookie"] or "") < 6000)


def run_wire(case):
    from tornado.httpserver import HTTPServer
    from harness.fake_iostream import FakeIOStream, EOF
    st = _setup()
    uri, body = _uri_body(case)
    lines = ["%s %s HTTP/1.1" % (case["m"], uri), "Host: localhost"]
    if case.get("chdr") is not None:
        lines.append("Cookie: " + case["chdr"])
    elif case["cookie"] is not None:
        lines.append("Cookie: _xsrf=" + case["cookie"])
    if case["hx"] is not None:
        lines.append("X-XSRFToken: " + case["hx"])
    if case["hc"] is not None:
        lines.append("X-CSRFToken: " + case["hc"])
    if body:
        lines.append("Content-Type: application/x-www-form-urlencoded")
    if body or case["m"] not in SAFE:
        lines.append("Content-Length: %d" % len(body))
    raw = ("\r\n".join(lines) + "\r\n\r\n").encode("latin-1") + body
    _arm(case)

    async def go():
        k = (case["on"], case["ov"], tuple(sup_of(case)))
        if k not in st["srv"]:
            st["srv"][k] = HTTPServer(_app(*k))
        s = FakeIOStream()
        st["srv"][k].handle_stream(s, ("127.0.0.1", 5))
        s.feed(raw)
        for _ in range(15):
            await asyncio.sleep(0)
        s.feed(EOF)
        for _ in range(6):
            await asyncio.sleep(0)
        return bytes(s.sent)

    sent = st["loop"].run_until_complete(go())
    head, sep, rbody = sent.partition(b"\r\n\r\n")
    if not sep:
        return ["no-response", sent[:80]]
    hl = head.decode("latin-1").split("\r\n")
    m = re.fullmatch(r"HTTP/1\.1 ([0-9]{3}) .*", hl[0])
    if not m:
        return ["bad-status-line", hl[0]]
    sc = [l[len("Set-Cookie: "):] for l in hl[1:] if l.startswith("Set-Cookie: ")]
    o = _observe(int(m.group(1)), sc)
    if isinstance(o, list) and o[1] and o[0] == 200 and case["m"] != "HEAD" and rbody != o[2]:
        return ["body-is-not-token", rbody[:80]]
    return o


def run_impl(case):
    o = run_direct(case)
    if wire_safe(case):
        w = run_wire(case)
        if w != o:
            return [G.Tag("WireDisagrees"), repr(w)[:200].encode("ascii", "replace").decode("ascii")]
    return o


# ---------------------------------------------------------------- Gallina rendering

def _gstr(s):
    return G.gbytes(s)          # str -> code points


def _gopt(s):
    return G.goption(s, _gstr, "str")


def coq_input(case):
    a = case.get("args")
    args = "None" if a is None else "(Some (%s, %s))" % (G.gbytes(a[0].encode("latin-1")), G.gbytes(a[1].encode("latin-1")))
    flds = [] if a is not None else model_fields(case)
    return "(%s, (%s, mkreq %s %s %s %s %s %s %s %s %s %s %s))" % (
        args, _gopt(case.get("chdr")),
        G.gbool(case["on"]), _gstr(case["m"]),
        "default_supported" if case.get("sup") is None else G.glist([_gstr(m) for m in case["sup"]], "str"),
        G.gn(case["ov"]), _gopt(case["cookie"]),
        G.glist([_gstr(v) for v in flds], "str"), _gopt(case["hx"]), _gopt(case["hc"]),
        G.gbytes(case["rnd"].encode("latin-1")), G.gbytes(case["mask"].encode("latin-1")), G.gz(case["now"]))


# ---------------------------------------------------------------- independent reference (oracle + generator)

_HEX = re.compile(r"(?:[0-9a-fA-F]{2})*", re.ASCII)
_VER = re.compile(rb"([1-9][0-9]*)\|")


def _unhex(s):
    if not _HEX.fullmatch(s):
        raise ValueError("not hex")
    return bytes.fromhex(s)


def ref_secret(s):
    """secret carried by a token/cookie string, or None; written from the documented formats, not from web.py"""
    try:
        b = s.encode("utf-8")
    except UnicodeEncodeError:
        return None
    m = _VER.match(b)
    if m:
        if m.group(1) != b"2":
            return None
        parts = s.split("|")
        if len(parts) != 4:
            return None
        try:
            mask, masked = _unhex(parts[1]), _unhex(parts[2])
            int(parts[3])
        except ValueError:
            return None
        if len(mask) != 4:
            return None
        return bytes(x ^ mask[i % 4] for i, x in enumerate(masked))
    try:
        return _unhex(s)
    except ValueError:
        return b


def ref_issue(ver, mask, secret, ts):
    if ver == 1:
        return secret.hex()
    return "2|%s|%s|%d" % (mask.hex(), bytes(x ^ mask[i % 4] for i, x in enumerate(secret)).hex(), ts)


_CTRL = re.compile(r"[\x00-\x08\x0e-\x1f]")


def args_bad(case):
    if case.get("args") is None:
        return False
    try:
        for v in ref_arg_values(case):
            v.decode("utf-8")
    except UnicodeDecodeError:
        return True
    return False


def ref_input_token(case):
    vals = [] if args_bad(case) else model_fields(case)
    f = _CTRL.sub(" ", vals[-1]).strip() if vals else None
    return f or case["hx"] or case["hc"]


_OCT = re.compile(r"\\(?:([0-3][0-7][0-7])|(.))")


def ref_cookie_value(hdr):
    """value of the cookie named _xsrf in a Cookie header, browser style (Django 1.9 algorithm, as documented for
    httputil.parse_cookie): split on ';', name/value at the first '=', both stripped, later cookies win, a value in
    double quotes is unquoted with \\ooo and \\c escapes"""
    found = None
    for chunk in hdr.split(";"):
        name, eq, val = chunk.partition("=")
        if not eq:
            name, val = "", chunk
        name, val = name.strip(), val.strip()
        if name == "_xsrf":
            if len(val) >= 2 and val[0] == val[-1] == '"':
                val = _OCT.sub(lambda m: chr(int(m.group(1), 8)) if m.group(1) else m.group(2), val[1:-1])
            found = val
    return found


def cookie_of(case):
    return case["cookie"] if case.get("chdr") is None else ref_cookie_value(case["chdr"])


def ref_expected_secret(case):
    c = cookie_of(case)
    s = ref_secret(c) if c else None
    fresh = not s                 # absent, undecodable, or an empty secret (which no token can ever match)
    return (case["rnd"].encode("latin-1") if fresh else s), fresh


def py_check(case, o):
    if not (isinstance(o, list) and len(o) == 4 and not isinstance(o[0], G.Tag)):
        return False
    status, ran, token, sc = o
    if case["m"] not in sup_of(case):                     # a verb the handler does not declare
        return status == 405 and ran is False and token is None and sc is None
    expected, fresh = ref_expected_secret(case)
    gate = case["on"] and case["m"] not in SAFE
    if gate and args_bad(case):                           # an _xsrf argument that is not utf-8: 400 from get_argument
        return status == 400 and ran is False and token is None and sc is None
    t = ref_input_token(case)
    carried = ref_secret(t) if t else None
    should_run = (not gate) or (bool(carried) and carried == expected)
    if ran != should_run:
        return False
    if not ran:
        return status == 403 and token is None and sc is None
    if token is None:
        return status == 500 and sc is None and (case["ov"] not in (1, 2) or len(case["mask"]) != 4)
    if status != 200 or not isinstance(token, bytes):
        return False
    tk = token.decode("latin-1")
    if ref_secret(tk) != expected:
        return False
    if not expected:
        return False          # a token was issued for an empty secret: no request could ever get it accepted (fixed by 44e6de9)
    if case["ov"] == 1 and not re.fullmatch(r"(?:[0-9a-f]{2})*", tk):
        return False
    if case["ov"] == 2 and not re.fullmatch(r"2\|[0-9a-f]{8}\|(?:[0-9a-f]{2})*\|-?[0-9]+", tk):
        return False
    return sc == (token if fresh else None)


# ---------------------------------------------------------------- generator

DEF_RND = bytes(range(0xA0, 0xB0))
DEF_MASK = b"\x11\x22\x33\x44"
DEF_NOW = 1700000000


def mk(m="POST", cookie=None, fields=(), hx=None, hc=None, on=True, ov=2, rnd=DEF_RND, mask=DEF_MASK, now=DEF_NOW, sup=None, chdr=None, args=None):
    if chdr is not None:
        assert cookie is None and header_ok(chdr), chdr
    fields = [[c, v] for c, v in fields]
    fields = [f for f in fields if f[0] == "q"] + [f for f in fields if f[0] != "q"]
    if not header_ok(hx):
        fields, hx = fields + [["b", hx]], None
    if not header_ok(hc):
        fields, hc = fields + [["b", hc]], None
    if args is not None:
        assert not fields
    return {"on": bool(on), "m": m, "sup": sup, "ov": ov, "args": args, "chdr": chdr, "cookie": cookie, "fields": fields, "hx": hx, "hc": hc,
            "rnd": bytes(rnd).decode("latin-1"), "mask": bytes(mask).decode("latin-1"), "now": now}


def carry(tok, k, **kw):
    """token through carrier k: 0 query field, 1 body field, 2 X-XSRFToken, 3 X-CSRFToken"""
    if k == 0:
        return mk(fields=[("q", tok)], **kw)
    if k == 1:
        return mk(fields=[("b", tok)], **kw)
    if k == 2:
        return mk(hx=tok, **kw)
    return mk(hc=tok, **kw)


def rbytes(rng, n):
    return bytes(rng.randrange(256) for _ in range(n))


def rsecret(rng):
    r = rng.random()
    if r < 0.7:
        return rbytes(rng, 16)
    if r < 0.8:
        return rbytes(rng, rng.choice([1, 2, 3, 4, 5, 8, 15, 17, 32]))
    if r < 0.9:
        return bytes(rng.choice([0, 0, 255, 0x7C, 0x32]) for _ in range(rng.choice([1, 4, 16])))
    return b""


def rts(rng):
    return rng.choice([0, 1, 9, 10, 1700000000, rng.randrange(10 ** 10), rng.randrange(10 ** 30), -5, -rng.randrange(10 ** 9)])


def near_secret(rng, sec):
    """a different secret that shares most of `sec`: one byte changed, truncated, extended, rotated"""
    if not sec:
        return b"\x00"
    r = rng.random()
    i = rng.choice([0, len(sec) - 1, rng.randrange(len(sec))])
    if r < 0.5:
        return sec[:i] + bytes([sec[i] ^ rng.choice([1, 0x80, 0xFF, 0x20])]) + sec[i + 1:]
    if r < 0.65:
        return sec[:-1]
    if r < 0.8:
        return sec + rng.choice([b"\x00", sec[:1], b"\xff"])
    if r < 0.9:
        return sec[1:]
    return sec[1:] + sec[:1] if sec[1:] + sec[:1] != sec else sec + b"\x01"


def rtoken(rng, secret, ver=None):
    ver = ver or rng.choice([1, 2, 2])
    return ref_issue(ver, rbytes(rng, 4), secret, rts(rng))


ALPH = "0123456789abcdefABCDEF||||2222 \t\n\r\x0b\x0c\x00\x01\x1c\x1f_+-gG:;=\"\\%\x7f\x85\xa0\xff\xe9"
UALPH = ["\u0663", "\u0660", "\u0669", "\uff12", "\uff10", "\u2028", "\u3000", "\u1680", "\u200b", "\u00b2", "\u2460",
         "\U0001d7ce", "\U0001fbf9", "\U0001fbfa", "\u0e50", "\u20ac", "\U0010ffff", "\u065f", "\u066a"]


def rchar(rng):
    return rng.choice(UALPH) if rng.random() < 0.15 else rng.choice(ALPH)


def mutate(rng, s):
    if not s:
        return rchar(rng)
    i = rng.randrange(len(s))
    r = rng.random()
    if r < 0.4:
        c = rchar(rng)
        return s[:i] + c + s[i + 1:]
    if r < 0.6:
        return s[:i] + s[i + 1:]
    if r < 0.8:
        return s[:i] + rchar(rng) + s[i:]
    if r < 0.9:
        return s[:i] + s[i:].swapcase()
    j = rng.randrange(len(s))
    l = list(s)
    l[i], l[j] = l[j], l[i]
    return "".join(l)


def garbage(rng):
    n = rng.choice([0, 1, 1, 2, 3, 5, 8, 13, 40])
    return "".join(rchar(rng) for _ in range(n))


TS_FORMS = ["5", " 5", "5 ", "\t5\n", "+5", "-5", "+ 5", "5_0", "_5", "5_", "5__0", "+_5", "007", "", " ", "+", "-", "5\x00",
            "\x1c5", "5\x1f", "\x855", "\xa05\xa0", "5 5", "--5", "0x10", "1e3", "1.0", "\u0663\u0664", "-\u0663", "\u0663_\uff14",
            "\u30005\u2028", "\u00b2", "\u2460", "5\u200b", "-0", "+0", "00", "0_0", "5\u0663", "\u1680\u20005\u200a\u205f\u202f"]


def ts_cases():
    out = []
    sec = bytes(range(1, 17))
    ck = ref_issue(2, b"\x01\x02\x03\x04", sec, 77)
    for f in TS_FORMS:
        tok = "2|00000000|%s|%s" % (sec.hex(), f)
        out.append(carry(tok, 1, cookie=ck))             # odd timestamp in the token
        out.append(carry(ck, 2, cookie=tok))              # odd timestamp in the cookie (then re-issued by the handler)
    return out


def nd_cases():
    """every run of Unicode decimal digits, its edges and neighbours, as the timestamp of the cookie and of the token"""
    import unicodedata
    out = []
    sec = bytes(range(1, 17))
    ck = ref_issue(1, b"", sec, 0)
    starts = [c for c in range(0x110000) if chr(c).isdecimal() and unicodedata.decimal(chr(c)) == 0]
    for s in starts:
        for c in (s - 1, s, s + 4, s + 9, s + 10):
            if 0xD800 <= c <= 0xDFFF:
                continue
            tok = "2|00000000|%s|%s" % (sec.hex(), chr(c))
            out.append(carry(tok, 1, cookie=ck))
        out.append(carry(ck, 1, cookie="2|00000000|%s|%s%s" % (sec.hex(), chr(s + 1), chr(s + 7)), m="GET"))
    for c in [9, 10, 11, 12, 13, 14, 0x1b, 0x1c, 0x1d, 0x1e, 0x1f, 0x20, 0x21, 0x84, 0x85, 0x86, 0x9f, 0xa0, 0xa1, 0x167f, 0x1680, 0x1681,
              0x180e, 0x1fff, 0x2000, 0x200a, 0x200b, 0x2027, 0x2028, 0x2029, 0x202a, 0x202e, 0x202f, 0x2030, 0x205e, 0x205f, 0x2060,
              0x2fff, 0x3000, 0x3001, 0xfeff]:
        for form in ("%s5", "5%s", "%s"):
            tok = "2|00000000|%s|%s" % (sec.hex(), form % chr(c))
            out.append(carry(tok, 1, cookie=ck))
        out.append(carry(chr(c) + ck + chr(c), 0, cookie=ck))      # str.strip() on the form field
        out.append(carry(chr(c), 0, cookie=ck, hx=ck))             # falls through to the header iff the field strips to ""
    return out


def digit_limit_cases():
    out = []
    sec = bytes(range(1, 17))
    ck = ref_issue(1, b"", sec, 0)
    for ts in ["1" * 4300, "1" * 4301, "0" * 4301, "-" + "9" * 4300, "1_" * 4299 + "1", " " + "7" * 4300 + " ", "0" * 4290 + "5"]:
        tok = "2|00000000|%s|%s" % (sec.hex(), ts)
        out.append(carry(tok, 1, cookie=ck))
        out.append(carry(ck, 1, cookie=tok))
    out.append(carry("5" * 4301 + "|x", 1, cookie=ck))          # version number beyond the int() digit limit
    out.append(carry(ck, 1, cookie="5" * 4301 + "|x"))
    return out


def corpus_cases():
    sec = bytes(range(0x10, 0x20))
    v1 = ref_issue(1, b"", sec, 0)
    v2 = ref_issue(2, b"\xde\xad\xbe\xef", sec, 1400000000)
    out = [
        carry(v2, 1, cookie=v2), carry(v1, 1, cookie=v2), carry(v2, 2, cookie=v1), carry(v1, 3, cookie=v1),
        mk(cookie=v2),                                              # no token at all
        carry(v2, 1, cookie=None),                                  # no cookie
        carry(DEF_RND.hex(), 1, cookie=None),                       # token equal to the fresh secret
        carry("2|00000000||5", 1, cookie="2|00000000||5"),          # empty secret on both sides
        carry("2|00000000||5", 1, cookie="2|00000000||5", m="GET"),  # was: token issued that can never be accepted (fix 44e6de9)
        mk(cookie="2|aabbccdd||1400000000", m="GET"), mk(cookie="2|aabbccdd||1400000000", m="HEAD", ov=1),
        carry(DEF_RND.hex(), 2, cookie="2|00000000||5"),            # ... the fresh secret replaces the empty one
        carry(v2 + "\n", 1, cookie=v2), carry(v2, 1, cookie="2|a\nb|c|d"),   # DOTALL in the version regex (fix 6426f2d)
        carry("2|\n", 1, cookie=v2), carry(v1, 2, cookie="3|\n"),
        carry("2|a\nb|c|d", 1, cookie="2|a\nb|c|d"), carry("3|\nx", 2, cookie="3|\nx"),
        carry("abc", 1, cookie="abc"), carry("616263", 1, cookie="abc"), carry("\u00e9", 1, cookie="c3a9"),
        carry("12|x", 1, cookie="12|x"), carry("02|x", 1, cookie="02|x"),
        carry(v2, 1, cookie=v2, on=False), carry("", 1, cookie=v2, on=False), mk(cookie=v2, m="GET"), mk(cookie=None, m="HEAD"),
        mk(cookie=None, m="OPTIONS", ov=1), carry(v1, 1, cookie=v1, ov=3), mk(cookie=None, m="GET", ov=3),
        mk(cookie=v2, fields=[("q", v2), ("b", "junk")]), mk(cookie=v2, fields=[("q", "junk"), ("b", v2)]),
        mk(cookie=v2, fields=[("b", " \x01 ")], hx=v2), mk(cookie=v2, fields=[("b", "")], hx="", hc=v2),
        mk(cookie=v2, fields=[("b", "junk")], hx=v2), mk(cookie=v2, hx="junk", hc=v2),
        mk(cookie=v2, fields=[("b", "\x00" + v2 + "\x1f")]), mk(cookie=v2, fields=[("b", v2[:5] + "\x01" + v2[5:])]),
        carry(v2, 1, cookie='"' + v2 + '"'), carry(v2, 1, cookie=" " + v2), carry(v2, 1, cookie=v2 + ";"),
    ]
    return out + ts_cases()


def structured(rng, n):
    out = []
    for _ in range(n):
        sec = rsecret(rng)
        cookie = rtoken(rng, sec)
        r = rng.random()
        if r < 0.30:
            tok = rtoken(rng, sec)                                   # another token of the same session (re-masked / other version)
        elif r < 0.40:
            tok = cookie                                             # the cookie value itself
        elif r < 0.47:
            tok = rtoken(rng, rsecret(rng))                          # another session's token
        elif r < 0.55:
            tok = rtoken(rng, near_secret(rng, sec))                 # ... whose secret differs in one place only
        elif r < 0.80:
            tok = mutate(rng, rtoken(rng, sec))                      # one mutation of a good token
        elif r < 0.90:
            tok = garbage(rng)
        else:
            tok = rtoken(rng, sec)
            cookie = mutate(rng, cookie) if rng.random() < 0.7 else garbage(rng)
        kw = {}
        r = rng.random()
        if r < 0.12:
            cookie = rng.choice([None, "", garbage(rng)])
            if rng.random() < 0.5:
                kw["rnd"] = rbytes(rng, 16)
                tok = rtoken(rng, kw["rnd"])                         # the attacker "guessed" the fresh secret: ties the fresh-secret branch
        m, sup = rmethod(rng)
        kw.update(m=m, sup=sup, cookie=cookie, on=rng.random() < 0.93, ov=rng.choice([1, 2, 2, 2, 3 if rng.random() < 0.3 else 2]),
                  mask=rbytes(rng, 4), now=rng.choice([DEF_NOW, 0, 1, rng.randrange(2 ** 37)]))
        kw.setdefault("rnd", rbytes(rng, 16))
        r = rng.random()
        if r < 0.75:
            c = carry(tok, rng.randrange(4), **kw)
        elif r < 0.9:                                                # several carriers at once: precedence
            other = rng.choice(["", " ", "junk", rtoken(rng, rsecret(rng)), "\x01", tok])
            ks = rng.sample(range(4), 2)
            vals = {ks[0]: tok, ks[1]: other}
            c = mk(fields=[(("q", "b")[k], vals[k]) for k in (0, 1) if k in vals], hx=vals.get(2), hc=vals.get(3), **kw)
        else:                                                        # the same field several times: the last one counts
            vs = [tok, rng.choice(["", "x", rtoken(rng, sec)])]
            rng.shuffle(vs)
            c = mk(fields=[(rng.choice("qb"), v) for v in vs], **kw)
        out.append(c)
    return out


EXTRA_VERBS = ["PROPFIND", "MKCOL", "REPORT", "LOCK", "PURGE", "COPY", "M-SEARCH", "X", "get", "Get", "post", "Head", "options",
               "GETT", "GE", "OPTION", "HEADS", "TRACE", "CONNECT", "Z!#$%&'*+.^_`|~9"]


def method_cases(rng):
    """verbs declared through SUPPORTED_METHODS (the documented way to add e.g. WebDAV methods), near-misses of the
    exempt GET/HEAD/OPTIONS (comparisons are case-sensitive), and verbs the handler does not declare (405)"""
    out = []
    sec = rbytes(rng, 16)
    ck = ref_issue(2, rbytes(rng, 4), sec, 1500000000)
    other = ref_issue(2, rbytes(rng, 4), rbytes(rng, 16), 1500000000)
    for v in EXTRA_VERBS + ["GET", "HEAD", "OPTIONS", "POST", "DELETE", "GET ", "P\u00d6ST"]:
        sup = DEFAULT_SUP + ([v] if v not in DEFAULT_SUP else [])
        good = ref_issue(rng.choice([1, 2]), rbytes(rng, 4), sec, 7)
        out += [mk(m=v, sup=sup), mk(m=v, sup=sup, cookie=ck), carry(other, 2, m=v, sup=sup, cookie=ck),
                carry("2|zz|zz|zz", 2, m=v, sup=sup, cookie=ck), carry(good, rng.randrange(4), m=v, sup=sup, cookie=ck),
                carry(good, 2, m=v, sup=sup, cookie=ck, on=False), mk(m=v, sup=[v], cookie=ck),
                carry(good, 3, m=v, sup=["GET", v], cookie=ck)]
        if v not in DEFAULT_SUP:
            out += [mk(m=v, cookie=ck), carry(good, 2, m=v, cookie=ck), carry(good, 2, m=v, cookie=ck, on=False),
                    carry(good, 1, m=v, sup=[x for x in EXTRA_VERBS if x != v][:3], cookie=ck)]     # not declared: 405
    out += [carry(ref_issue(2, rbytes(rng, 4), sec, 7), 2, m="POST", sup=[], cookie=ck), mk(m="GET", sup=[], cookie=ck),
            mk(m="GET", sup=["POST"], cookie=ck), carry(ref_issue(1, b"", sec, 7), 1, m="PUT", sup=["GET", "HEAD", "POST"], cookie=ck)]
    return out


def rmethod(rng):
    r = rng.random()
    if r < 0.62:
        return rng.choice(["POST", "POST", "POST", "PUT", "DELETE", "PATCH", "GET", "HEAD", "OPTIONS"]), None
    v = rng.choice(EXTRA_VERBS)
    if r < 0.90:
        return v, DEFAULT_SUP + [v]
    if r < 0.95:
        return v, rng.sample(EXTRA_VERBS, 3) + [v]
    return v, rng.choice([None, ["GET", "POST"], rng.sample(EXTRA_VERBS, 2)])      # mostly undeclared: 405


def cq(v):
    """v as a quoted cookie value: random mix of plain characters, \\c and \\ooo escapes"""
    import random as _r
    rr = _r.Random(v)
    out = []
    for ch in v:
        k = rr.random()
        if ord(ch) < 256 and (k < 0.3 or ch in '";\\' or not header_ok(ch)):
            out.append("\\%03o" % ord(ch))
        elif k < 0.5:
            out.append("\\" + ch)
        else:
            out.append(ch)
    return '"' + "".join(out) + '"'


def cookie_header_cases(rng, n_random):
    """the cookie arrives inside a real Cookie header (parse_cookie / _unquote_cookie / get_cookie are exercised):
    GET reveals the secret the server took from the header through the token it issues, POST carries a matching token"""
    out = []
    sec = rbytes(rng, 16)
    v2 = ref_issue(2, rbytes(rng, 4), sec, 1500000000)
    v1 = ref_issue(1, b"", sec, 0)
    w = ref_issue(2, rbytes(rng, 4), rbytes(rng, 16), 1500000001)
    tok = ref_issue(2, rbytes(rng, 4), sec, 3)
    forms = []
    for V in (v2, v1, "xoxo"):
        forms += ["_xsrf=" + V, "a=b; _xsrf=" + V, "_xsrf=" + V + "; c=d", "_xsrf=" + w + "; _xsrf=" + V, "_xsrf=" + V + "; _xsrf=" + w,
                  "x=1;  _xsrf \t=  " + V + "  ;y", '_xsrf="' + V + '"', "_xsrf=" + cq(V), "a=1;_xsrf=" + cq(V) + ";b", '_xsrf="' + V, "_xsrf=" + V + '"',
                  "_xsrf;" + V, "=" + V, "_XSRF=" + V, "_xsrf=" + V + ";_xsrf", "_xsrf=" + V + "; =", "_xsrf=" + V + ";;", "_xsrf\xa0=\x85" + V + "\xa0",
                  "xsrf=" + V, "_xsrf=" + V + ",_xsrf=" + w, 'a="x;_xsrf=' + V + '"', "_xsrf=" + V + "; _xsrf=", "_xsrf =" + V + "; _xsrf", "__xsrf=" + V,
                  "_xsrf=" + V + "; a b=1; \xe9=2; path=/", "_xsrf==" + V, "_xsrf=" + V + "=", V, "a;b;_xsrf=" + V + ";c"]
    forms += ["_xsrf", "_xsrf=", '_xsrf="', '_xsrf=""', '_xsrf="\\"', '_xsrf="a\\"', '_xsrf="\\400"', '_xsrf="\\3777"', '_xsrf="\\061\\62\\0633"',
              '_xsrf="\\\\\\""', '_xsrf="""', '_xsrf="\\477"', '_xsrf="\\777"', '_xsrf="\\378"', 'x=1; _xsrf=""', '_xsrf=""; y', '_xsrf="a"b"', "", ";", "=", ";=;", "_xsrf=1", '_xsrf="1"', '_xsrf="\\061"', "_xsrf=\"1", "_xsrf=1\""]
    for f in forms:
        if not header_ok(f):
            continue
        out.append(mk(m="GET", chdr=f, rnd=rbytes(rng, 16), mask=rbytes(rng, 4)))
        out.append(carry(tok, rng.choice([1, 2]), chdr=f, rnd=rbytes(rng, 16)))
    alpha = ["_xsrf", "=", ";", '"', "\\", "1", " ", "a", "\\061", "x"]
    for _ in range(n_random):
        f = "".join(rng.choice(alpha) for _ in range(rng.randrange(1, 9)))
        if header_ok(f):
            out.append(mk(m="GET", chdr=f, rnd=rbytes(rng, 16)))
            out.append(carry("31", 1, chdr=f))                      # matches a cookie whose value is "1"
    return out


def cookie_header_scope(alpha, maxlen, post_maxlen):
    """every Cookie header made of up to `maxlen` of the pieces in `alpha`: GET (the issued token reveals the secret the
    server read from it), and up to `post_maxlen` also a POST whose token matches the cookie value "1"""
    out = []
    for n in range(maxlen + 1):
        for t in itertools.product(alpha, repeat=n):
            f = "".join(t)
            if header_ok(f):
                out.append(mk(m="GET", chdr=f))
                if n <= post_maxlen:
                    out.append(carry("31", 1, chdr=f))
    return out


def pct(rng, s, p_enc=0.4):
    """a legal urlencoded spelling of the text s (utf-8): each byte literal (if unreserved), %XX in either case, space as +"""
    out = []
    for b in s.encode("utf-8"):
        ch = chr(b)
        r = rng.random()
        if b == 32 and r < 0.5:
            out.append("+")
        elif (ch.isalnum() and b < 128 or ch in "-._~|") and r >= p_enc:
            out.append(ch)
        else:
            out.append(("%%%02X" if rng.random() < 0.5 else "%%%02x") % b)
    return "".join(out)


def args_cases(rng, n_random):
    """the token travels in a raw query string / urlencoded body: percent and plus decoding, repeated fields, query-then-body
    order, blank values, odd escapes, names spelled with escapes, invalid utf-8 (400), then the header fallbacks"""
    out = []
    sec = rbytes(rng, 16)
    ck = ref_issue(2, rbytes(rng, 4), sec, 1500000000)
    bad = ref_issue(2, rbytes(rng, 4), rbytes(rng, 16), 1500000000)

    def good():
        return ref_issue(rng.choice([1, 2]), rbytes(rng, 4), sec, 9)

    def f(name="_xsrf", v=None):
        return pct(rng, name, rng.choice([0, 0, 0.5])) + "=" + pct(rng, good() if v is None else v, rng.choice([0, 0.3, 1]))

    forms = []
    for _ in range(3):
        forms += [(f(), ""), ("", f()), (f(v=bad), f()), (f(), f(v=bad)), (f(v=bad) + "&" + f(), ""), (f() + "&" + f(v=bad), ""),
                  ("", f(v=bad) + "&" + f()), ("a=1&" + f() + "&b=2", ""), ("", "a=1&&" + f() + "&"), (f() + "&_xsrf", ""), (f() + "&_xsrf=", ""),
                  ("_xsrf&" + f(), ""), (f(), "_xsrf="), (f(), "_xsrf=+%20+"), ("_xsrf=%01" + pct(rng, good()) + "%1f+", ""), ("_XSRF=" + good(), ""),
                  ("_xsrf%3D" + good(), ""), ("_xsrf=" + good() + "%", ""), ("_xsrf=" + good() + "%4", ""), ("_xsrf=" + good() + "%zz", ""),
                  ("_xsrf=%ff", f()), (f(), "_xsrf=%c3"), ("_xsrf=%C3%A9" + good(), ""), ("_xsrf=" + good() + ";x=1", ""), ("_xsrf==" + good(), ""),
                  ("+_xsrf=" + good(), ""), ("_xsrf=" + good().replace("|", "%7c"), ""), ("_xsrf=" + good().replace("|", "%7C"), ""),
                  ("x=%26_xsrf=" + bad + "&" + f(), ""), ("_xsrf=%2B" + good(), ""), ("_xsrf=+" + good() + "+", ""), ("?" + f(), ""), (f() + "#frag", "")]
    for q, b in forms:
        m = rng.choice(["POST", "PUT", "PATCH", "DELETE"])
        out.append(mk(m=m, cookie=ck, args=[q, b]))
        out.append(mk(m=m, cookie=ck, args=[q, b], hx=rng.choice([good(), bad]), hc=rng.choice([None, good()])))
    out += [mk(m="GET", cookie=ck, args=["_xsrf=%ff", ""]), mk(cookie=ck, args=["_xsrf=%ff", ""], on=False),
            mk(m="PROPFIND", cookie=ck, args=["_xsrf=%ff", ""]), mk(cookie=ck, args=["", ""], hx=good()), mk(cookie=ck, args=["", ""], hc=good()),
            mk(cookie=ck, args=["_xsrf=", "_xsrf=+"], hx="", hc=good())]
    alpha = ["_xsrf", "=", "&", "%", "+", "3", "1", "%33", "%c3", "%a9", "x", ";"]
    for _ in range(n_random):
        q = "".join(rng.choice(alpha) for _ in range(rng.randrange(0, 8)))
        b = "".join(rng.choice(alpha) for _ in range(rng.randrange(0, 8))) if rng.random() < 0.5 else ""
        out.append(mk(cookie="31", args=[q, b], hx=rng.choice([None, None, "31", "x"])))        # cookie secret b"1"; "31"/"1"/"%31" match
    return out


def args_scope(alpha, maxlen):
    out = []
    for n in range(maxlen + 1):
        for t in itertools.product(alpha, repeat=n):
            out.append(mk(cookie="31", args=["".join(t), ""]))
    return out


def near_miss_cases(rng):
    """token secrets that differ from the cookie's secret in one place only, every (cookie version, token version)"""
    out = []
    for sec in (bytes(range(0x41, 0x51)), rbytes(rng, 16), b"\x00" * 16, rbytes(rng, 3)):
        n = len(sec)
        variants = [sec[:i] + bytes([sec[i] ^ x]) + sec[i + 1:] for i in (0, n // 2, n - 1) for x in (1, 0x80)]
        variants += [sec[1:], sec[:-1], sec + b"\x00", b"\x00" + sec, sec + sec[-1:], sec[:1] + sec, sec[1:] + sec[:1], sec[:n // 2], sec[n // 2:]]
        for other in variants:
            for cv in (1, 2):
                for tv in (1, 2):
                    if other != sec:
                        out.append(carry(ref_issue(tv, rbytes(rng, 4), other, 5), rng.randrange(4),
                                         cookie=ref_issue(cv, rbytes(rng, 4), sec, 7), m=rng.choice(["POST", "PUT", "DELETE", "PATCH"])))
        for cv in (1, 2):
            for tv in (1, 2):
                out.append(carry(ref_issue(tv, rbytes(rng, 4), sec, 5), rng.randrange(4), cookie=ref_issue(cv, rbytes(rng, 4), sec, 7)))
    return out


def small_scope(alpha, maxlen, cookie_maxlen=None):
    """every string over `alpha` up to `maxlen` as the token (fixed cookie), and up to `cookie_maxlen` as the cookie (fixed token)"""
    out = []
    ck = "ab0c"                                   # v1 cookie, secret ab 0c
    tk = "2|00000000|ab0c|0"
    cookie_maxlen = maxlen if cookie_maxlen is None else cookie_maxlen
    for n in range(maxlen + 1):
        for t in itertools.product(alpha, repeat=n):
            s = "".join(t)
            out.append(carry(s, 1, cookie=ck))
            if n <= cookie_maxlen:
                out.append(carry(tk, 1, cookie=s))
    return out


def gen_cases(rng, tier):
    out = []
    out += near_miss_cases(rng)
    out += method_cases(rng)
    out += cookie_header_cases(rng, 60 if tier == "quick" else 300)
    out += args_cases(rng, 80 if tier == "quick" else 500)
    if tier != "quick":
        out += args_scope(["_xsrf", "=", "&", "%", "+", "3", "1"], 4)
    if tier != "quick":
        out += cookie_header_scope(["_xsrf", "=", ";", '"', "\\", "1", "\\061"], 4, 3)
    if tier == "quick":
        out += structured(rng, 300)
        out += small_scope(["2", "|", "a"], 4)
        out += rng.sample(nd_cases(), 100)
        out += digit_limit_cases()[:4]
    else:
        out += structured(rng, 2000)
        out += small_scope(["2", "|", "a", "0", " "], 5, 4)
        out += small_scope(["1", "|", "g", "A", "_", "\u0663", "\n"], 3)
        out += nd_cases()
        out += digit_limit_cases()
    return out


# ---------------------------------------------------------------- evidence helpers

def nontrivial(case, o):
    gate = case["on"] and case["m"] not in SAFE
    if not gate and not case["cookie"] and not case.get("chdr"):
        return None
    return (case["m"], repr(case.get("sup")), case["on"], case["ov"], repr(case.get("args")), case.get("chdr"), case["cookie"], repr(case["fields"]), case["hx"], case["hc"])


def classify(case, o):
    gate = case["on"] and case["m"] not in SAFE
    yield "gate=" + ("on" if gate else "off")
    yield "method=" + ("exempt" if case["m"] in SAFE else "standard" if case["m"] in DEFAULT_SUP else "custom")
    yield "declared=%s" % (case["m"] in sup_of(case))
    if isinstance(o, list) and len(o) == 4:
        yield "status=%s" % (o[0],)
        yield "ran=%s" % (o[1],)
        yield "set_cookie=%s" % (o[3] is not None,)
    else:
        yield "odd-observable"
    yield "cookie_header=%s" % (case.get("chdr") is not None)
    yield "raw_args=%s" % (case.get("args") is not None)
    c = cookie_of(case)
    yield "cookie=" + ("absent" if c is None else "empty" if c == "" else "v2" if c.startswith("2|") else "other")
    yield "cookie_decodes=%s" % (bool(c) and ref_secret(c) is not None)
    t = ref_input_token(case)
    yield "token=" + ("absent" if not t else "v2" if t.startswith("2|") else "other")
    yield "carriers=%d" % (len(case["fields"]) + (case["hx"] is not None) + (case["hc"] is not None))
    yield "wire=%s" % wire_safe(case)


def signature(case, o):
    expected, fresh = ref_expected_secret(case)
    if isinstance(o, list) and len(o) == 4 and o[0] not in (200, 403):
        return "status-%s" % (o[0],)
    if not expected and isinstance(o, list) and len(o) == 4 and o[1] and o[0] == 200:
        return "token-issued-for-empty-secret"
    return "accept-mismatch"


def shrink(case):
    if case.get("sup") is not None and case["m"] in case["sup"] and len(case["sup"]) > 1:
        yield dict(case, sup=[case["m"]])
    for key in ("hx", "hc"):
        if case[key] is not None:
            yield dict(case, **{key: None})
    if len(case["fields"]) > 1:
        for i in range(len(case["fields"])):
            yield dict(case, fields=case["fields"][:i] + case["fields"][i + 1:])
    for i, (c, v) in enumerate(case["fields"]):
        for w in (v[: len(v) // 2], v[1:], v[:-1]):
            if w != v:
                yield dict(case, fields=case["fields"][:i] + [[c, w]] + case["fields"][i + 1:])
    c = case["cookie"]
    if c:
        for w in (c[: len(c) // 2], c[1:], c[:-1]):
            yield dict(case, cookie=w)
    a = case.get("args")
    if a is not None:
        for i in (0, 1):
            v = a[i]
            for w in (v[: len(v) // 2], v[1:], v[:-1]):
                if w != v:
                    yield dict(case, args=[w, a[1]] if i == 0 else [a[0], w])
    c = case.get("chdr")
    if c:
        for w in (c[: len(c) // 2], c[1:], c[:-1], c[len(c) // 2:]):
            if header_ok(w):
                yield dict(case, chdr=w)
    for key in ("hx", "hc"):
        v = case[key]
        if v:
            for w in (v[: len(v) // 2], v[1:], v[:-1]):
                if header_ok(w):
                    yield dict(case, **{key: w})


TRUSTED_BASE = [
    "HTTP transport of the values is outside the model: the model receives get_cookie('_xsrf'), request.arguments['_xsrf'] (utf-8 decoded) and "
    "headers.get(...) as inputs; the harness checks that the direct run and the run through HTTPServer/HTTP1Connection agree whenever the values are transport-safe",
    "os.urandom and time.time as seen by tornado.web are replaced by case inputs (whole seconds)",
    "tables of Unicode 15.0 decimal digits / white space and the 4300-digit int limit of CPython 3.12 are written into the model; every run of digits, "
    "every white-space character and their neighbours are correspondence cases",
    "masking: C18's reference definition (the compiled speedups routine is proved equal to it in C18)",
    "the handler used for the tie returns self.xsrf_token from every method; current_user is None",
]
ASSUMPTIONS = ["os.urandom returns bytes (< 256) of the requested length (in particular os.urandom(16) is not empty)", "strings contain no lone surrogates (utf-8 decoding of arguments and latin-1 decoding of headers cannot produce them)"]
RULE = ("one request per case: cookie/token pairs from issued tokens (both versions, random masks), re-masked and cross-version tokens, other sessions' tokens, "
        "single mutations, garbage, odd timestamps, Unicode digits/spaces, 4300-digit boundary, every carrier and carrier precedence, all methods, gate on/off; "
        "every string over {2,|,a} up to length 4 (quick) / over {2,|,a,0,space} up to length 5 (token) / 4 (cookie) and a 7-symbol alphabet up to 3 (thorough); distinct by (method, settings, cookie, carriers); non-trivial = gate on or cookie present")
LEVEL_TEXT = ("Machine-checked (Coq) model of xsrf_token/_get_raw_xsrf_token/_decode_xsrf_token/check_xsrf_cookie and the _execute method gate, with theorems: the handler is reached "
              "iff the gate is off or a carried token decodes to the non-empty secret of the cookie; every issued token (any version, any mask, any carrier) decodes to the cookie's secret "
              "and is accepted with it; tokens of another secret are refused; any cookie/token strings give 200 or 403, never 500. The model is compared with a real Application on every case.")
LEVEL_NOTE = "Trusted: Coq kernel/vm_compute; the hand-written model (tied by correspondence on this run); transport of cookie/arguments/headers; CPython int()/str() tables."
TECHNIQUE = "Coq proof (round-trip lemmas for hex, decimal, masking, split; case analysis of the decoder) + differential correspondence via vm_compute + independent Python oracle"
