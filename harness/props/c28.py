"""C28 — framework-generated redirects never point to another site."""
import os
import shutil
import tempfile
import urllib.parse

from harness import gallina as G
from harness.framework import SCRATCH

ID = "C28"
COQ_DIRS = ["C28"]
PROPERTY_FILE = "C28/Property.v"
RUN_IMPORTS = "From TV Require Import C28.Model C28.Run."
RUN_FN = "run_case"
CHECK_FN = "check_case"
INPUT_TYPE = "input"
TRUSTED_BASE = [
    "request parsing/routing (request line -> request.path/query/uri, catch-all route) is exercised, not modelled; the model starts from (method, path, query)",
    "urllib.parse.urlsplit(login_url).scheme (configuration) is computed by the stdlib and passed in; urllib.parse.urlencode is modelled as quote_plus over UTF-8 and tied by the correspondence",
    "for the static handler the filesystem fact 'the path resolves to a directory inside the root' is arranged by the harness fixture",
]
ASSUMPTIONS = ["same-host theorems assume an origin-form request target (path starts with '/'); the absolute-form case is the open known finding 'absolute-form-target'"]
RULE = ("request targets built from slash runs, host-like segments, backslashes, encoded slashes, schemes and queries x {GET, HEAD, POST} x "
        "{removeslash, addslash, static directory, authenticated with 4 login URLs}; distinct by input; non-trivial = a redirect or an error status was produced")
KINDS = ["KRemove", "KAdd", "KStatic", "KAuth"]
LOGINS = ["/login", "/login?x=1", "http://sso.example/login", "https://sso.example/l?"]

_state = {}


def apps():
    if _state:
        return _state
    from tornado import web
    root = tempfile.mkdtemp(prefix="c28_", dir=SCRATCH)
    os.makedirs(os.path.join(root, "dir"))
    open(os.path.join(root, "dir", "index.html"), "w").write("idx")

    class Rm(web.RequestHandler):
        @web.removeslash
        def get(self):
            self.write("ok")
        head = post = get

    class Add(web.RequestHandler):
        @web.addslash
        def get(self):
            self.write("ok")
        head = post = get

    def mk_auth(login):
        class Au(web.RequestHandler):
            def get_current_user(self):
                return None

            @web.authenticated
            def get(self):
                self.write("ok")
            head = post = get
        return web.Application([(r".*", Au)], login_url=login)

    _state["KRemove"] = web.Application([(r".*", Rm)])
    _state["KAdd"] = web.Application([(r".*", Add)])
    _state["KStatic"] = web.Application([(r"(?:http://[^/]*)?/*(.*)", web.StaticFileHandler, {"path": root, "default_filename": "index.html"})])
    for lg in LOGINS:
        _state["KAuth" + lg] = mk_auth(lg)
    _state["root"] = root
    import atexit
    atexit.register(lambda: shutil.rmtree(root, ignore_errors=True))
    return _state


def run_impl(case):
    from tornado.httpserver import HTTPServer
    from harness.fake_iostream import FakeIOStream, EOF
    from harness.vclock import run_virtual, settle
    app = apps()[case["kind"] + (case["login"] if case["kind"] == "KAuth" else "")]
    raw = ("%s %s HTTP/1.1\r\nHost: h.example\r\n\r\n" % (case["method"], case["target"])).encode("latin-1")

    async def scenario(loop):
        srv = HTTPServer(app)
        s = FakeIOStream()
        srv.handle_stream(s, ("1.2.3.4", 5))
        s.feed(raw)
        await settle(6)
        s.feed(EOF)
        await settle(4)
        return bytes(s.sent)
    import logging
    logging.disable(logging.CRITICAL)
    try:
        wire = run_virtual(scenario)
    finally:
        logging.disable(logging.NOTSET)
    head = wire.split(b"\r\n\r\n", 1)[0].decode("latin-1")
    lines = head.split("\r\n")
    if not lines or not lines[0].startswith("HTTP/1.1 "):
        return [G.Tag("NoResponse")]
    status = int(lines[0].split(" ")[1])
    loc = None
    for ln in lines[1:]:
        if ln.lower().startswith("location:"):
            loc = ln.split(":", 1)[1].strip()
    return [status, loc]


def parts(case):
    path, _, query = case["target"].partition("?")
    return path, query


def coq_input(case):
    path, query = parts(case)
    login = case["login"]
    absl = bool(urllib.parse.urlsplit(login).scheme)
    full = "http://h.example" + case["target"]
    return "(%s, %s, %s, %s, %s, %s, %s, %s)" % (case["kind"], G.gbytes(case["method"]), G.gbytes(path), G.gbytes(query),
                                               G.gbytes(login), G.gbool(absl), G.gbytes(full), G.gbytes(case["target"]))


def py_check(case, o):
    if not (isinstance(o, list) and len(o) == 2 and isinstance(o[0], int)):
        return False
    loc = o[1]
    if loc is None:
        return True
    if case["kind"] == "KAuth":
        return loc.startswith(case["login"])
    sp = urllib.parse.urlsplit(loc)
    return not loc.startswith("//") and not sp.scheme and not sp.netloc


SEGS = ["/", "//", "///", "a", "b.c", "evil.com", "dir", "\\", "/\\", "%2f", "%2F%2F", "..", ".", "x:y", "@", ";", "caf\xe9", "+", "%20", "~"]
PREFIXES = ["", "", "", "/", "//", "///", "/\\", "http://e.c", "http:", "HTTPS://E.C/", "x:"]
QUERIES = ["", "", "q=1", "next=//evil.com", "a=b&c=/", "?", "x:y", "%0d%0a", "caf\xe9=+"]


def mk(kind, method, target, login=LOGINS[0]):
    return {"kind": kind, "method": method, "target": target, "login": login}


def corpus_cases():
    return [mk("KRemove", "GET", "//evil.com/"), mk("KAdd", "GET", "//evil.com"), mk("KRemove", "GET", "/a//?x=1"),
            mk("KStatic", "GET", "//dir"), mk("KStatic", "GET", "/dir"), mk("KRemove", "GET", "http://e.c/a/"),
            mk("KAuth", "GET", "/p?x=//evil.com", LOGINS[2]), mk("KAuth", "POST", "/p"), mk("KRemove", "POST", "/a/")]


def gen_target(rng, kind):
    if kind == "KStatic":
        t = rng.choice(["/", "//", "///", "", "http://e.c/", "http://e.c//"]) + "dir" + rng.choice(["", "", "/", "//"])
        if not t.startswith(("/", "h")):
            t = "/" + t
        return t
    t = rng.choice(PREFIXES) + "".join(rng.choice(SEGS) for _ in range(rng.randrange(4))) + rng.choice(["", "/", "//", "/"])
    if not t:
        t = "/"
    q = rng.choice(QUERIES)
    if q:
        t += "?" + q
    return t


def gen_cases(rng, tier):
    out = []
    n = 500 if tier == "quick" else 5000
    for _ in range(n):
        kind = rng.choice(KINDS)
        meths = ["GET", "HEAD"] if kind == "KStatic" else ["GET", "GET", "HEAD", "POST"]
        out.append(mk(kind, rng.choice(meths), gen_target(rng, kind), rng.choice(LOGINS)))
    if tier == "thorough":   # exhaustive small scope: every target of <= 4 symbols over {/, a, \, :}
        import itertools
        for k in range(1, 5):
            for tup in itertools.product("/a\\:", repeat=k):
                t = "".join(tup)
                for kind in ("KRemove", "KAdd"):
                    out.append(mk(kind, "GET", t))
    return out


def nontrivial(case, o):
    if isinstance(o, list) and len(o) == 2 and (o[1] is not None or o[0] != 200):
        return (case["kind"], case["method"], case["target"], case["login"] if case["kind"] == "KAuth" else "")
    return None


def classify(case, o):
    yield "kind=" + case["kind"]
    yield "method=" + case["method"]
    path, query = parts(case)
    yield "lead=" + ("//" if path.startswith("//") else "/" if path.startswith("/") else "scheme" if ":" in path.split("/")[0] else "other")
    yield "query=" + ("yes" if query else "no")
    if isinstance(o, list) and o and isinstance(o[0], int):
        yield "status=%d" % o[0]


def signature(case, o):
    path, _ = parts(case)
    if case["kind"] != "KAuth" and not path.startswith("/") and urllib.parse.urlsplit(path).scheme:
        return "absolute-form-target"
    return "other"


def shrink(case):
    t = case["target"]
    if "?" in t:
        yield dict(case, target=t.split("?")[0])
    for i in range(len(t)):
        c = t[:i] + t[i + 1:]
        if c and (case["kind"] != "KStatic" or "dir" in c):
            yield dict(case, target=c)


LEVEL_TEXT = ("Machine-checked proof, for every method/path/query, that the Location computed by @removeslash, @addslash and the static directory "
              "redirect starts with exactly one '/' whenever the request path does (origin-form), is never protocol-relative for ANY path, and that "
              "@authenticated redirects only to the configured login URL plus an inert percent-encoded next value; the decision functions are tied to "
              "web.py by running real handlers behind HTTPServer over a fake stream on generated request targets.")
LEVEL_NOTE = ("Trusted: Coq kernel/vm_compute, harness, urlsplit for the login-URL scheme test. Open known finding: an absolute-form request target "
              "('GET http://e.c/a/') is echoed into a scheme-qualified Location (not inducible from a browser). Backslash forms that some browsers "
              "normalise to '/' are generated and compared but are outside the property text.")
TECHNIQUE = "Coq proofs over list-of-code-point decision functions (prefix/suffix lemmas) + differential correspondence through real handlers"
