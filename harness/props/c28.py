"""C28 — framework-generated redirects never point to another site."""
import itertools
import os
import re
import shutil
import tempfile
import urllib.parse

from harness import gallina as G
from harness.framework import SCRATCH

ID = "C28"
COQ_DIRS = ["C28", "Gen"]
PROPERTY_FILE = "C28/Property.v"
RUN_IMPORTS = "From TV Require Import C28.Model C28.Run."
RUN_FN = "run_case"
CHECK_FN = "check_case"
INPUT_TYPE = "input"
TRUSTED_BASE = [
    "translators/c28_src.py (ast reader of RequestHandler.redirect, the removeslash/addslash/authenticated wrappers, get_login_url and the directory "
    "block of validate_absolute_path; fails closed; Gen/C28_equiv.v proves the emitted functions equal to the model's)",
    "URL routing (catch-all patterns) and the HTTP/1.1 framing around the request line are exercised, not modelled; the model starts from "
    "(method, request target, Host) and itself does the request-line/Host validation, uri.partition('?'), method dispatch, the decorators, "
    "RequestHandler.redirect, urlsplit(login_url).scheme, full_url() and urlencode(next=...)",
    "for the static handler the filesystem facts (resolved path outside the root / directory / file / missing, index file present) are computed by the "
    "harness with os.path on the url-unescaped captured path and handed to the model as the environment's answer",
]
ASSUMPTIONS = ["same-host theorems assume an origin-form request target (path starts with '/'); safe_location is proved for every target that does not start "
               "with 'scheme:'; the absolute-form case is the open known finding 'absolute-form-target'"]
RULE = ("request targets built from slash runs, host-like segments, backslashes, encoded slashes, schemes and queries x methods {GET, HEAD, POST, PUT, "
        "OPTIONS, lower-case, unknown, malformed} x Host values (valid and invalid) x {removeslash, addslash, static handler with/without default file "
        "over a fixture tree mounted behind a catch-all pattern and at the site root ('/(.*)', incl. targets with a percent-encoded slash after the leading "
        "slash that climb back to the absolute static root), authenticated with 20 login URLs / no login URL / logged-in user, self.redirect with URL/permanent/status/after-flush}; "
        "distinct by input; non-trivial = a redirect or an error status was produced")
LOGINS = ["/login", "/login?x=1", "http://sso.example/login", "https://sso.example/l?", "login", "//sso.example/l", " http://x/l", "ht\ttp://x/l",
          "1http://x", "http:/l", "/l:x", "/l#f", "HTTP://X", "x+y-z.1:rest", "/登录", "a:?", ":x", "http", "/caf\xe9", "\nhttps://x/l", None]
HOSTS = ["h.example", "h.example", "h.example", "h.example:8080", "[::1]:80", "", "h%41", "H.EXAMPLE", "evil.com"]
BAD_HOSTS = ["a,b", "a b", "h/evil", "h%4", "h%zz", "user:pw@h", "h?x", "caf\xe9", "h#x", "h\\x", "%", "h%4%41"]
METHODS = ["GET", "GET", "GET", "HEAD", "HEAD", "POST"]
ODD_METHODS = ["PUT", "DELETE", "PATCH", "OPTIONS", "get", "Head", "FOO", "TRACE", "CONNECT", "G-T", "GE T", "", "GET\t", "M!#$%&'*+-.^_`|~9", "G(T", "G\xe9T", "G:T"]

_state = {}


def pre_build():
    """regenerate Gen/C28_src.v (redirect, the slash/authenticated wrappers, the static directory block) from the
    working tree; fails closed"""
    import importlib
    import sys
    from harness.framework import REPO, COQ
    sys.path.insert(0, os.path.join(os.path.dirname(COQ), "translators"))
    import c28_src
    importlib.reload(c28_src)
    c28_src.emit(REPO, os.path.join(COQ, "Gen", "C28_src.v"))


def fixture_root():
    if "root" not in _state:
        root = os.path.abspath(tempfile.mkdtemp(prefix="c28_", dir=SCRATCH))
        os.makedirs(os.path.join(root, "dir", "sub"))
        with open(os.path.join(root, "dir", "index.html"), "w") as f:
            f.write("idx")
        with open(os.path.join(root, "file.txt"), "w") as f:
            f.write("file")
        _state["root"] = root
        import atexit
        atexit.register(lambda: shutil.rmtree(root, ignore_errors=True))
    return _state["root"]


STATIC_PATTERN = r"(?:http://[^/]*)?/*(.*)"        # mount "catchall"
ROOT_PATTERN = r"/(.*)"                              # mount "root": StaticFileHandler at the site root (static_url_prefix="/")


def static_pattern(case):
    return ROOT_PATTERN if case.get("mount") == "root" else STATIC_PATTERN


def tgt(case):
    """the request target as sent: "{ROOT}" stands for the absolute path of the fixture's static root (differs per run)"""
    t = case["target"]
    return t.replace("{ROOT}", fixture_root()) if "{ROOT}" in t else t


def app_for(case):
    from tornado import web
    kind = case["kind"]
    key = kind
    if kind == "KAuth":
        key = ("KAuth", case["login"])
    elif kind == "KStatic":
        key = ("KStatic", bool(case["default"]), case.get("mount") == "root")
    if key in _state:
        return _state[key]
    if kind in ("KRemove", "KAdd"):
        deco = web.removeslash if kind == "KRemove" else web.addslash

        class Sl(web.RequestHandler):
            @deco
            def get(self):
                self.write("ok")
            head = post = get
        app = web.Application([(r".*", Sl)])
    elif kind == "KStatic":
        opts = {"path": fixture_root()}
        if case["default"]:
            opts["default_filename"] = "index.html"
        app = web.Application([(static_pattern(case), web.StaticFileHandler, opts)])
    elif kind == "KAuth":
        class Au(web.RequestHandler):
            def get_current_user(self):
                return self.request.headers.get("X-User")

            @web.authenticated
            def get(self):
                self.write("ok")
            head = post = get
        settings = {} if case["login"] is None else {"login_url": case["login"]}
        app = web.Application([(r".*", Au)], **settings)
    elif kind == "KRedirect":
        class Rd(web.RequestHandler):
            cfg = None

            def get(self):
                c = Rd.cfg
                if c["flush"]:
                    self.flush()
                kw = {}
                if c["permanent"]:
                    kw["permanent"] = True
                if c["status"] is not None:
                    kw["status"] = c["status"]
                self.redirect(c["url"], **kw)
            head = post = get
        app = web.Application([(r".*", Rd)])
        app._c28_handler = Rd
    else:
        raise ValueError(kind)
    _state[key] = app
    return app


def run_impl(case):
    from tornado.httpserver import HTTPServer
    from harness.fake_iostream import FakeIOStream, EOF
    from harness.vclock import run_virtual, settle
    app = app_for(case)
    if case["kind"] == "KRedirect":
        app._c28_handler.cfg = case
    extra = "X-User: u\r\n" if case.get("user") else ""
    raw = ("%s %s HTTP/1.1\r\nHost: %s\r\n%s\r\n" % (case["method"], tgt(case), case["host"], extra)).encode("latin-1")

    async def scenario(loop):
        srv = HTTPServer(app)
        s = FakeIOStream()
        srv.handle_stream(s, ("1.2.3.4", 5))
        s.feed(raw)
        await settle(6)
        s.feed(EOF)
        await settle(4)
        return bytes(s.sent)
    import logging
    logging.disable(logging.CRITICAL)
    try:
        wire = run_virtual(scenario)
    finally:
        logging.disable(logging.NOTSET)
    head = wire.split(b"\r\n\r\n", 1)[0]
    lines = head.split(b"\r\n")
    if not lines or not lines[0].startswith(b"HTTP/1.1 "):
        return [G.Tag("NoResponse")]
    status = int(lines[0].split(b" ")[1])
    loc = None
    for ln in lines[1:]:
        if ln.lower().startswith(b"location:"):
            v = ln[len(b"location:"):]
            loc = v[1:] if v.startswith(b" ") else v     # exactly the value bytes (no strip)
    return [status, loc]


def fs_facts(case):
    """The environment's answer for the static handler, computed independently of web.py."""
    path = tgt(case).partition("?")[0]
    m = re.match(static_pattern(case) + "$", path)
    captured = m.group(1)
    arg = urllib.parse.unquote_to_bytes(captured).decode("utf-8")     # generator keeps these valid
    root = os.path.abspath(fixture_root())
    p = os.path.abspath(os.path.join(root, arg))
    if not (p + os.path.sep).startswith(root + os.path.sep):
        return "FsOutside", False
    if os.path.isdir(p):
        return "FsDir", os.path.isfile(os.path.join(p, "index.html"))
    if not os.path.exists(p):
        return "FsMissing", False
    return "FsFile", False


def gtext(s):
    return G.gbytes(s)


def coq_kind(case):
    k = case["kind"]
    if k in ("KRemove", "KAdd"):
        return k
    if k == "KStatic":
        fs, ix = fs_facts(case)
        return "(KStatic %s %s %s)" % (G.gbool(bool(case["default"])), fs, G.gbool(ix))
    if k == "KAuth":
        return "(KAuth %s %s)" % (G.goption(case["login"], gtext, "text"), G.gbool(bool(case.get("user"))))
    if k == "KRedirect":
        return "(KRedirect %s %s %s %s)" % (G.gbool(bool(case["flush"])), gtext(case["url"]), G.gbool(bool(case["permanent"])),
                                           G.goption(case["status"], G.gn, "N"))
    raise ValueError(k)


def coq_input(case):
    return "(%s, %s, %s, %s)" % (coq_kind(case), gtext(case["method"]), gtext(tgt(case)), gtext(case["host"]))


def py_check(case, o):
    if not (isinstance(o, list) and len(o) == 2 and isinstance(o[0], int)):
        return False
    loc = o[1]
    if loc is None:
        return True
    loc = bytes(loc).decode("latin-1")
    k = case["kind"]
    if k == "KRedirect":
        return True
    if k == "KAuth":
        if case["login"] is None:
            return False
        lg = case["login"].encode("utf-8").decode("latin-1")
        if loc == lg:
            return True
        return loc.startswith(lg + "?next=") and re.fullmatch(r"[A-Za-z0-9_.~%+-]*", loc[len(lg) + 6:]) is not None
    sp = urllib.parse.urlsplit(loc)
    ok = not loc.startswith("//") and not sp.scheme and not sp.netloc
    if tgt(case).startswith("/"):
        ok = ok and loc.startswith("/")
    return ok


SEGS = ["/", "//", "///", "a", "b.c", "evil.com", "dir", "\\", "/\\", "%2f", "%2F%2F", "..", ".", "x:y", "@", ";", "caf\xe9", "+", "%20", "~", "#f", "%5C", "\xff"]
PREFIXES = ["", "", "", "/", "/", "//", "///", "/\\", "\\", "\\\\", "/\\/", "http://e.c", "http:", "HTTPS://E.C/", "x:", "a+b-c.1:", "1x:", "*"]
QUERIES = ["", "", "q=1", "next=//evil.com", "a=b&c=/", "?", "x:y", "%0d%0a", "caf\xe9=+", "a=\\\\e.c"]
STATIC_SEGS = ["dir", "dir", "sub", "file.txt", "nope", "..", ".", "%2e%2e", "%2E", "index.html", "d%69r", ""]
REDIRECT_URLS = ["/x", "/x", "//evil.com/", "http://e.c/a?b#c", "", "rel/path", "/caf\xe9", "/登录", "/\U0001F600", "/\ud800", "/x\r\nSet-Cookie: a=b",
                 "/\x7f", "/\t", "/\x85", "/a b", "/\x00", "/\x1f", "\\\\e.c", "/\udfff", "/", "/߿ࠀ￿\U00010000\U0010ffff"]
STATUSES = [None, None, None, 301, 302, 303, 304, 307, 308, 300, 399, 299, 400, 0, 200, 1000]


def mk(kind, method, target, host="h.example", **kw):
    c = {"kind": kind, "method": method, "target": target, "host": host}
    if kind == "KAuth":
        c["login"] = kw.get("login", LOGINS[0])
        c["user"] = bool(kw.get("user", False))
    elif kind == "KStatic":
        c["default"] = bool(kw.get("default", True))
        c["mount"] = kw.get("mount", "catchall")
    elif kind == "KRedirect":
        c["url"] = kw.get("url", "/x")
        c["permanent"] = bool(kw.get("permanent", False))
        c["status"] = kw.get("status")
        c["flush"] = bool(kw.get("flush", False))
    return c


def corpus_cases():
    return [mk("KRemove", "GET", "//evil.com/"), mk("KAdd", "GET", "//evil.com"), mk("KRemove", "GET", "/a//?x=1"),
            mk("KRemove", "GET", "///evil.com/"), mk("KAdd", "HEAD", "///evil.com"),
            mk("KStatic", "GET", "//dir"), mk("KStatic", "GET", "/dir"), mk("KStatic", "GET", "/dir", default=False),
            mk("KStatic", "GET", "/dir/sub"), mk("KStatic", "GET", "/dir/sub/"), mk("KStatic", "GET", "/../.."), mk("KStatic", "POST", "/dir"),
            mk("KStatic", "HEAD", "/dir/../dir?x=//e.c"), mk("KRemove", "GET", "http://e.c/a/"),
            mk("KStatic", "GET", "/%2Fevil.com/..{ROOT}/dir", mount="root"), mk("KStatic", "HEAD", "/%2fevil.com/..{ROOT}/dir", mount="root"),
            mk("KStatic", "GET", "/%2F%2Fevil.com/..{ROOT}/dir", mount="root"), mk("KStatic", "GET", "/%2Fevil.com%2F..{ROOT}/dir/sub", mount="root"),
            mk("KStatic", "GET", "/%2Fevil.com/..{ROOT}/dir"), mk("KStatic", "GET", "/dir", mount="root"), mk("KStatic", "GET", "//dir", mount="root"),
            mk("KStatic", "GET", "/%5Cevil.com/..{ROOT}/dir", mount="root"),
            mk("KRemove", "GET", "/\\evil.com/"), mk("KAdd", "GET", "/\\evil.com"),
            mk("KAuth", "GET", "/p?x=//evil.com", login=LOGINS[2]), mk("KAuth", "POST", "/p"), mk("KRemove", "POST", "/a/"),
            mk("KAuth", "GET", "//evil.com/private"), mk("KAuth", "GET", "//user@evil.com:8080/x", login="login"),
            mk("KAuth", "GET", "/p", login=None), mk("KAuth", "GET", "/p", user=True), mk("KAuth", "HEAD", "/p?a=b%20c+d", "h.example:8080", login=LOGINS[2]),
            mk("KRemove", "PUT", "/a/"), mk("KRemove", "get", "/a/"), mk("KRemove", "GET", "/a b/"), mk("KRemove", "GET", "/a/", "a,b"),
            mk("KRedirect", "GET", "/q", url="/x", status=307), mk("KRedirect", "POST", "/q", url="/x", permanent=True),
            mk("KRedirect", "GET", "/q", url="/x", status=200), mk("KRedirect", "GET", "/q", url="/x", flush=True),
            mk("KRedirect", "GET", "/q", url="/x\r\nSet-Cookie: a=b"), mk("KRedirect", "GET", "/q", url="/\ud800")]


ENC_LEADS = ["/%2F", "/%2f", "/%2F%2F", "/%2f%2F", "/%5C", "/%5c", "/%2e%2e/", "/%252F", "/", "/."]
ENC_HOSTS = ["evil.com", "evil.com:80", "user@evil.com", "e"]
ENC_UPS = ["/..", "%2F..", "/%2e%2e", "/../.."]
ENC_TAILS = ["/dir", "/dir", "/dir/sub", "/dir/", "/file.txt", "/nope", "", "/dir/../dir", "/dir%2Fsub"]


def gen_encoded_static(rng):
    """a percent-encoded slash (or backslash) right after the leading slash, a host-like segment, then a climb back to the
    absolute path of the static root and into the fixture tree"""
    return rng.choice(ENC_LEADS) + rng.choice(ENC_HOSTS) + rng.choice(ENC_UPS) + "{ROOT}" + rng.choice(ENC_TAILS)


def gen_target(rng, kind, mount="catchall"):
    if kind == "KStatic" and (mount == "root" or rng.random() < 0.15):
        if rng.random() < 0.6:
            t = gen_encoded_static(rng)
        else:
            t = rng.choice(["/", "/", "//", "///"]) + "/".join(rng.choice(STATIC_SEGS) for _ in range(rng.randrange(1, 4))) + rng.choice(["", "", "/"])
    elif kind == "KStatic":
        lead = rng.choice(["/", "/", "/", "//", "///", "", "http://e.c/", "http://e.c//", "http://e.c"])
        t = lead + "/".join(rng.choice(STATIC_SEGS) for _ in range(rng.randrange(1, 4))) + rng.choice(["", "", "/", "//"])
        if not t.startswith(("/", "h")):
            t = "/" + t
    else:
        t = rng.choice(PREFIXES) + "".join(rng.choice(SEGS) for _ in range(rng.randrange(4))) + rng.choice(["", "/", "//", "/"])
        if not t:
            t = "/"
    q = rng.choice(QUERIES)
    if q:
        t += "?" + q
    return t


def gen_one(rng):
    kind = rng.choice(["KRemove", "KAdd", "KRemove", "KAdd", "KStatic", "KStatic", "KAuth", "KAuth", "KRedirect"])
    method = rng.choice(METHODS) if rng.random() < 0.85 else rng.choice(ODD_METHODS)
    host = rng.choice(HOSTS) if rng.random() < 0.93 else rng.choice(BAD_HOSTS)
    mount = "root" if (kind == "KStatic" and rng.random() < 0.35) else "catchall"
    target = gen_target(rng, kind, mount)
    if rng.random() < 0.03:     # malformed request target
        target = rng.choice(["", "/a b/", "/a\x01/", "/a\x7f", " /a/", "/a/ "]) if kind != "KStatic" else "/dir x"
    kw = {}
    if kind == "KAuth":
        kw = {"login": rng.choice(LOGINS), "user": rng.random() < 0.08}
    elif kind == "KStatic":
        kw = {"default": rng.random() < 0.8, "mount": mount}
    elif kind == "KRedirect":
        kw = {"url": rng.choice(REDIRECT_URLS), "permanent": rng.random() < 0.4, "status": rng.choice(STATUSES), "flush": rng.random() < 0.1}
    return mk(kind, method, target, host, **kw)


def gen_cases(rng, tier):
    out = []
    n = 520 if tier == "quick" else 4000
    for _ in range(n):
        out.append(gen_one(rng))
    # every login URL x {ordinary, //host} request path; every status x permanent; every odd method
    for lg in LOGINS:
        for t in ("/p?a=1", "//evil.com/p"):
            out.append(mk("KAuth", "GET", t, login=lg))
    for st in STATUSES[2:]:
        out.append(mk("KRedirect", rng.choice(["GET", "HEAD", "POST"]), "/q", url="/x", status=st, permanent=rng.random() < 0.5))
    for m in ODD_METHODS:
        out.append(mk(rng.choice(["KRemove", "KAdd", "KAuth"]), m, rng.choice(["/a", "/a/"])))
    if tier == "thorough":
        # exhaustive small scopes
        for k in range(1, 5):           # every target of <= 4 symbols over {/, a, \, :, ?}
            for tup in itertools.product("/a\\:?", repeat=k):
                t = "".join(tup)
                for kind in ("KRemove", "KAdd"):
                    out.append(mk(kind, "GET", t))
                if k <= 3:
                    out.append(mk("KRemove", "HEAD", t))
                    out.append(mk("KAdd", "POST", t))
                    out.append(mk("KAuth", "GET", t, login="/login"))
                    out.append(mk("KAuth", "GET", t, login="login"))
        segs = ["dir", "sub", "..", "file.txt", "nope", "%2e%2e", ""]
        for k in range(0, 4):           # every static path of <= 3 segments over the fixture vocabulary
            for tup in itertools.product(segs, repeat=k):
                for lead in ("/", "//"):
                    for tail in ("", "/"):
                        t = lead + "/".join(tup) + tail
                        out.append(mk("KStatic", "GET", t, default=True))
                        if k <= 2:
                            out.append(mk("KStatic", "GET", t, default=True, mount="root"))
                        if lead == "/":
                            out.append(mk("KStatic", "HEAD", t, default=False))
        for lead, hostp, up, tail in itertools.product(ENC_LEADS, ENC_HOSTS[:2], ENC_UPS, ENC_TAILS):   # every encoded-lead static target
            t = lead + hostp + up + "{ROOT}" + tail
            out.append(mk("KStatic", "GET", t, mount="root"))
            out.append(mk("KStatic", "HEAD", t, mount="catchall"))
        for url in REDIRECT_URLS:       # every redirect URL x status x permanent
            for st in STATUSES[2:]:
                for perm in (False, True):
                    out.append(mk("KRedirect", "GET", "/q", url=url, status=st, permanent=perm))
        for h in HOSTS + BAD_HOSTS:
            for lg in ("/login", "http://sso.example/login"):
                out.append(mk("KAuth", "GET", "/p?q=1", h, login=lg))
    return out


EXHAUSTIVE = {"quick": False, "thorough": False}


def nontrivial(case, o):
    if isinstance(o, list) and len(o) == 2 and (o[1] is not None or o[0] != 200):
        return repr(sorted(case.items()))
    return None


def classify(case, o):
    yield "kind=" + case["kind"]
    m = case["method"]
    yield "method=" + (m if m in ("GET", "HEAD", "POST") else "other")
    path = case["target"].partition("?")[0]
    query = case["target"].partition("?")[2]
    if case["kind"] == "KStatic":
        yield "mount=" + case.get("mount", "catchall")
        yield "encoded-lead=" + ("yes" if re.match(r"/%(2[Ff]|5[Cc])", path) else "no")
    yield "lead=" + ("//" if path.startswith("//") else "/\\" if path.startswith("/\\") else "/" if path.startswith("/")
                     else "scheme" if ":" in path.split("/")[0] else "other")
    yield "query=" + ("yes" if query else "no")
    if case["kind"] == "KAuth":
        lg = case["login"]
        yield "login=" + ("none" if lg is None else "query" if "?" in lg else "absolute" if urllib.parse.urlsplit(lg).scheme else "relative")
    if isinstance(o, list) and o and isinstance(o[0], int):
        yield "status=%d" % o[0]
        if len(o) == 2:
            yield "location=" + ("yes" if o[1] is not None else "no")


def signature(case, o):
    path = case["target"].partition("?")[0]
    if case["kind"] in ("KRemove", "KAdd", "KStatic") and not path.startswith("/") and urllib.parse.urlsplit(path).scheme:
        return "absolute-form-target"
    return "other"


def shrink(case):
    t = case["target"]
    if "?" in t:
        yield dict(case, target=t.split("?")[0])
    for i in range(len(t)):
        c = t[:i] + t[i + 1:]
        if c and (case["kind"] != "KStatic" or "%" not in t) and not (case.get("mount") == "root" and not c.startswith("/")):
            yield dict(case, target=c)
    if case["host"] != "h.example":
        yield dict(case, host="h.example")
    if case["method"] not in ("GET",):
        yield dict(case, method="GET")


LEVEL_TEXT = ("Machine-checked proof, for every method/request target/Host, that the response computed by the modelled request path (request-line and Host "
              "validation, partition at '?', method dispatch, @removeslash / @addslash / static directory redirect, RequestHandler.redirect) carries a "
              "Location that starts with exactly one '/' whenever the target does (origin-form), is never protocol-relative for ANY target, is scheme-"
              "qualified exactly when the target itself starts with 'scheme:', and is produced only for GET/HEAD with status 301; that @authenticated "
              "redirects (302) only to the configured login URL, whose part before '?' does not depend on the request, plus a percent-encoded next value "
              "that decodes back to the request URI (or full URL for an absolute login URL); and that redirect() emits status 3xx and a Location free of "
              "control bytes. The decision functions are tied to web.py/httputil.py by running real handlers behind HTTPServer over a fake stream on "
              "generated requests.")
LEVEL_NOTE = ("Trusted: Coq kernel/vm_compute, harness, os.path facts for the static fixture, routing. Open known finding: an absolute-form request target "
              "('GET http://e.c/a/') is echoed into a scheme-qualified Location (not inducible from a browser). Under the stricter reading that treats '\\' "
              "as '/' (browser URL parsing) the statement is refuted for raw-backslash targets ('GET /\\evil.com/' -> 'Location: /\\evil.com'); browsers "
              "normalise the backslash before sending, so this too needs a non-browser client; it is proved to be the only such case.")
TECHNIQUE = "Coq proofs over list-of-code-point decision functions (prefix/suffix/scan lemmas, encode/decode round trip) + differential correspondence through real handlers"
