"""C42 — Subprocess exit is reported once with the right status.

Two kinds of case, both rendered as the same Gallina input (a list of events):

* scripted: the REAL tornado.process.Subprocess class (set_exit_callback, wait_for_exit, initialize, _cleanup,
  _try_cleanup_process, _set_returncode, the class-level _waiting dict) runs on a real asyncio loop, with
  `subprocess.Popen` replaced by a stub that only hands out a pid and `os.waitpid` replaced by a scripted child table
  (Running / Zombie st / Reaped); SIGCHLD delivery is "run the handler that initialize() registered with the loop";
  the real os.WIF*/WTERMSIG/WEXITSTATUS macros decode the scripted statuses.
* real: real short-lived `sh` children (exit N / kill -S $$), the real os.waitpid and a real SIGCHLD delivered by the
  kernel through asyncio's signal handling; the exit is held back by a pipe so that "exit before/after registration"
  and "several children, one coalesced SIGCHLD" are forced deterministically (SIGCHLD blocked while the children die).
"""
import asyncio
import functools
import itertools
import logging
import os as _os
import signal
import subprocess as _subprocess
import time

from harness import gallina as G

ID = "C42"
COQ_DIRS = ["C42"]
PROPERTY_FILE = "C42/Property.v"
RUN_IMPORTS = "From TV Require Import C42.Model C42.Spec C42.Run."
RUN_FN = "run_case"
CHECK_FN = "check_case"
INPUT_TYPE = "(list event)"
EXHAUSTIVE = {"quick": True, "thorough": True}

TRUSTED_BASE = [
    "scripted cases: subprocess.Popen is a stub handing out a pid; os.waitpid(pid, WNOHANG) is a scripted child table with the POSIX semantics "
    "(running -> (0,0); zombie -> (pid,status) once; reaped / not a child -> ChildProcessError); the real kernel is compared with this table only on the 'real' cases",
    "SIGCHLD delivery in scripted cases = invoking the handler that Subprocess.initialize() registered through loop.add_signal_handler (read from the loop); "
    "'real' cases use genuine signals through asyncio's wakeup fd. Kernel signal delivery itself (that SIGCHLD is eventually delivered after a child dies) is assumed",
    "one IOLoop turn (ELoop) = the callbacks queued with IOLoop.add_callback so far run in FIFO order (asyncio call_soon order)",
    "future-callback invocations are observed by wrapping tornado.process.future_set_result_unless_cancelled / future_set_exception_unless_cancelled (they log, then delegate)",
    "os.WIFSIGNALED / WTERMSIG / WIFEXITED / WEXITSTATUS are the real CPython/glibc macros of this Linux host; the model's bit arithmetic is compared with them on every case",
    "hand-written Gallina model (no translator); Subprocess.STREAM pipes, the win32 branch and future cancellation are not modelled",
]
ASSUMPTIONS = [
    "rely condition of the theorems: the pids handed out to Subprocess objects are pairwise distinct over the trace (sufficient form of 'the kernel never reuses the pid of an unreaped child'); "
    "traces breaking it are still compared with the model but nothing is required of them",
    "wait statuses are C ints (|st| < 2^31)",
]
RULE = ("EVERY trace over {exit, SIGCHLD, set_exit_callback, wait_for_exit, loop turn (+ uninitialize / initialize)} up to a length bound for one, two and three children (quick: 4 / 3 / 2; thorough: 6 (4 with initialize+uninitialize) / 5 / 4), "
        "structured random interleavings of 1..4 children (all orders of exit vs registration, coalesced / missing SIGCHLD, re-registration, "
        "boundary wait statuses: every exit code and signal, core-dump flag, stopped/continued-shaped, negative), a malformed stream (unknown objects and pids, duplicate pids, duplicate exits), "
        "and real `sh` children for sampled exit codes and signals. distinct by canonical event list; non-trivial = at least one callback ran or an assertion fired")

SIGNALS = [1, 2, 3, 4, 5, 6, 7, 8, 9, 10, 11, 12, 13, 14, 15, 16, 24, 25, 26, 27, 29, 30, 31, 34, 35, 50, 63, 64]

# ----------------------------------------------------------------------------------------------------------------------
# events: ["spawn", pid] ["exit", pid, st] ["chld"] ["reg", sid, label] ["wait", sid, label, re] ["loop"]



def _default_signals():
    """Children must die from the signal the case sends even when this process inherited ignored
    signals (e.g. it was started under nohup, which ignores SIGHUP)."""
    import signal as _sg
    for n in range(1, 32):
        if n in (_sg.SIGKILL, _sg.SIGSTOP):
            continue
        try:
            _sg.signal(n, _sg.SIG_DFL)
        except (OSError, ValueError, RuntimeError):
            pass

def real_events(case):
    """The event list that the 'real' script realises (pids are symbolic: 100+i)."""
    ch = case["real"]
    ev = [["spawn", 100 + i] for i in range(len(ch))]
    lab = 0
    labels = {}

    def reg(i):
        nonlocal lab
        c = ch[i]
        labels[i] = lab
        if c["kind"] == "plain":
            ev.append(["reg", i, lab])
        else:
            ev.append(["wait", i, lab, c["kind"] == "wait_raise"])
        lab += 1
    for i, c in enumerate(ch):
        if c["when"] == "before":
            reg(i)
    for i, c in enumerate(ch):
        ev.append(["exit", 100 + i, status_of(c)])
    ev.append(["chld"])
    ev.append(["loop"])
    for i, c in enumerate(ch):
        if c["when"] == "after":
            reg(i)
    ev.append(["loop"])
    return ev


def status_of(c):
    return c["code"] * 256 if c["how"] == "exit" else c["code"]


def events_of(case):
    return real_events(case) if "real" in case else case["ev"]


def coq_input(case):
    out = []
    for e in events_of(case):
        k = e[0]
        if k == "spawn":
            out.append("ESpawn %s" % G.gz(e[1]))
        elif k == "exit":
            out.append("EExit %s %s" % (G.gz(e[1]), G.gz(e[2])))
        elif k == "chld":
            out.append("ESigchld")
        elif k == "reg":
            out.append("EReg %s %s" % (G.gnat(e[1]), G.gnat(e[2])))
        elif k == "wait":
            out.append("EWait %s %s %s" % (G.gnat(e[1]), G.gnat(e[2]), G.gbool(e[3])))
        elif k == "loop":
            out.append("ELoop")
        elif k == "init":
            out.append("EInit")
        elif k == "uninit":
            out.append("EUninit")
        else:
            raise ValueError(k)
    return G.glist(out, "event")


# ----------------------------------------------------------------------------------------------------------------------
class _Recorder:
    def __init__(self):
        self.log = []
        self.objs = []          # Subprocess objects, index = sid
        self.futs = {}          # id(future) -> (sid, label)
        self.sub_futs = []      # per sid: list of (label, future)

    def sid_of(self, obj):
        for i, o in enumerate(self.objs):
            if o is obj:
                return i
        return -1

    def plain(self, sid, label):
        def cb(ret):
            self.log.append([sid, G.Tag("call"), label, ret])
        return cb

    def exc(self, e, sid=-1):
        if isinstance(e, AssertionError):
            self.log.append([sid, G.Tag("assert")])
        elif isinstance(e, KeyError):
            self.log.append([-1, G.Tag("KeyError")])
        elif isinstance(e, asyncio.InvalidStateError):
            self.log.append([sid, G.Tag("invalid")])
        else:
            self.log.append([sid, G.Tag(type(e).__name__)])


class _AppLog(logging.Handler):
    """IOLoop._run_callback logs exceptions escaping add_callback callbacks on tornado.application."""

    def __init__(self, rec):
        logging.Handler.__init__(self, level=logging.DEBUG)
        self.rec = rec

    def emit(self, record):
        if not record.exc_info:
            return
        sid = -1
        args = record.args if isinstance(record.args, tuple) else (record.args,)
        for a in args:
            f = a
            while isinstance(f, functools.partial):
                f = f.func
            s = getattr(f, "__self__", None)
            if s is not None and self.rec.sid_of(s) >= 0:
                sid = self.rec.sid_of(s)
        self.rec.exc(record.exc_info[1], sid)


def _observe(rec, tp):
    subs = []
    for sid, o in enumerate(rec.objs):
        rc = o.returncode
        if o.proc.returncode != rc:
            rc = G.Tag("proc.returncode-differs")
        futs = []
        for label, f in rec.sub_futs[sid]:
            if not f.done():
                futs.append([label, G.Tag("pending")])
            elif f.cancelled():
                futs.append([label, G.Tag("cancelled")])
            elif f.exception() is not None:
                e = f.exception()
                if isinstance(e, _subprocess.CalledProcessError):
                    futs.append([label, G.Tag("CalledProcessError"), e.returncode])
                else:
                    futs.append([label, G.Tag(type(e).__name__)])
            else:
                futs.append([label, G.Tag("result"), f.result()])
        subs.append([rc, o._exit_callback is not None, futs])
    waiting = [rec.sid_of(o) for o in tp.Subprocess._waiting.values()]
    return [[list(x) for x in rec.log], subs, waiting, bool(tp.Subprocess._initialized)]


class _Patched:
    """Patches the module-level names of tornado.process that the harness needs to observe / script."""

    def __init__(self, tp, rec, shim_os=None, shim_subprocess=None):
        self.tp, self.rec, self.shim_os, self.shim_subprocess = tp, rec, shim_os, shim_subprocess

    def __enter__(self):
        tp, rec = self.tp, self.rec
        self.saved = (tp.os, tp.subprocess, tp.future_set_result_unless_cancelled, tp.future_set_exception_unless_cancelled)
        real_res, real_exc = self.saved[2], self.saved[3]

        def set_res(fut, value):
            sid, label = rec.futs.get(id(fut), (-1, -1))
            rec.log.append([sid, G.Tag("call"), label, value])
            return real_res(fut, value)

        def set_exc(fut, e):
            sid, label = rec.futs.get(id(fut), (-1, -1))
            rec.log.append([sid, G.Tag("call"), label, getattr(e, "returncode", G.Tag(type(e).__name__))])
            return real_exc(fut, e)
        tp.future_set_result_unless_cancelled = set_res
        tp.future_set_exception_unless_cancelled = set_exc
        if self.shim_os is not None:
            tp.os = self.shim_os
        if self.shim_subprocess is not None:
            tp.subprocess = self.shim_subprocess
        tp.Subprocess._waiting.clear()
        tp.Subprocess._initialized = False
        self.h = _AppLog(rec)
        self.lg = logging.getLogger("tornado.application")
        self.old_prop = self.lg.propagate
        self.lg.propagate = False
        self.lg.addHandler(self.h)
        return self

    def __exit__(self, *a):
        tp = self.tp
        tp.os, tp.subprocess, tp.future_set_result_unless_cancelled, tp.future_set_exception_unless_cancelled = self.saved
        tp.Subprocess._waiting.clear()
        tp.Subprocess._initialized = False
        self.lg.removeHandler(self.h)
        self.lg.propagate = self.old_prop


def _register(rec, e):
    """Performs a reg / wait event on the real object; returns nothing."""
    sid = e[1]
    if sid >= len(rec.objs):
        return                        # no such object: not executable (the model ignores it too)
    o = rec.objs[sid]
    try:
        if e[0] == "reg":
            o.set_exit_callback(rec.plain(sid, e[2]))
        else:
            f = o.wait_for_exit(raise_error=e[3])
            rec.futs[id(f)] = (sid, e[2])
            rec.sub_futs[sid].append((e[2], f))
            # the future is registered after wait_for_exit returns; the callback can only run from the loop
    except Exception as ex:           # noqa: BLE001 - mapped to a log entry
        rec.exc(ex, sid)


# ---------------------------------------------------------------------------------------------------------------------
def run_scripted(events):
    import tornado.process as tp
    rec = _Recorder()
    kernel = {}       # pid -> ["run"] | ["zombie", st] | ["reaped", st]

    class ShimOS:
        def __getattr__(self, name):
            return getattr(_os, name)

        @staticmethod
        def waitpid(pid, options):
            assert options == _os.WNOHANG
            k = kernel.get(pid)
            if k is None or k[0] == "reaped":
                raise ChildProcessError(10, "No child processes")
            if k[0] == "run":
                return (0, 0)
            kernel[pid] = ["reaped", k[1]]
            return (pid, k[1])

    class FakePopen:
        next_pid = [None]

        def __init__(self, *a, **kw):
            self.pid = FakePopen.next_pid[0]
            self.returncode = None
            self.stdin = self.stdout = self.stderr = None

    class ShimSubprocess:
        Popen = FakePopen
        CalledProcessError = _subprocess.CalledProcessError

    async def main():
        loop = asyncio.get_running_loop()
        loop.set_exception_handler(lambda lp, ctx: rec.exc(ctx.get("exception") or RuntimeError()))
        for e in events:
            k = e[0]
            if k == "spawn":
                FakePopen.next_pid[0] = e[1]
                rec.objs.append(tp.Subprocess(["fake"]))
                rec.sub_futs.append([])
                kernel[e[1]] = ["run"]
            elif k == "exit":
                if kernel.get(e[1]) == ["run"]:
                    kernel[e[1]] = ["zombie", e[2]]
            elif k == "chld":
                h = getattr(loop, "_signal_handlers", {}).get(signal.SIGCHLD)
                if h is not None:
                    h._run()
            elif k in ("reg", "wait"):
                _register(rec, e)
            elif k == "loop":
                for _ in range(3):
                    await asyncio.sleep(0)
            elif k == "init":
                tp.Subprocess.initialize()
            elif k == "uninit":
                tp.Subprocess.uninitialize()
        obs = _observe(rec, tp)
        tp.Subprocess.uninitialize()
        return obs

    with _Patched(tp, rec, ShimOS(), ShimSubprocess):
        return asyncio.run(main())


# ---------------------------------------------------------------------------------------------------------------------
def _is_zombie(pid):
    try:
        r = _os.waitid(_os.P_PID, pid, _os.WEXITED | _os.WNOHANG | _os.WNOWAIT)
    except ChildProcessError:
        return True
    return r is not None and r.si_pid == pid


def run_real(case):
    import tornado.process as tp
    rec = _Recorder()
    ch = case["real"]

    async def spin(cond, limit=30.0):
        t0 = time.time()
        for _ in range(3):
            await asyncio.sleep(0)
        while not cond() and time.time() - t0 < limit:
            await asyncio.sleep(0.002)
        for _ in range(3):
            await asyncio.sleep(0)

    async def main():
        loop = asyncio.get_running_loop()
        loop.set_exception_handler(lambda lp, ctx: rec.exc(ctx.get("exception") or RuntimeError()))
        lab = 0
        try:
            for c in ch:
                if c["how"] == "exit":
                    script = "read x; exit %d" % c["code"]
                else:
                    script = "ulimit -c 0; read x; kill -%d $$; sleep 5" % c["code"]
                rec.objs.append(tp.Subprocess(["/bin/sh", "-c", script], stdin=_subprocess.PIPE, preexec_fn=_default_signals))
                rec.sub_futs.append([])

            def reg(i):
                nonlocal lab
                c = ch[i]
                if c["kind"] == "plain":
                    _register(rec, ["reg", i, lab])
                else:
                    _register(rec, ["wait", i, lab, c["kind"] == "wait_raise"])
                lab += 1
            for i, c in enumerate(ch):
                if c["when"] == "before":
                    reg(i)
            signal.pthread_sigmask(signal.SIG_BLOCK, {signal.SIGCHLD})
            try:
                for o in rec.objs:
                    o.proc.stdin.close()
                t0 = time.time()
                while not all(_is_zombie(o.pid) for o in rec.objs) and time.time() - t0 < 60:
                    time.sleep(0.001)
            finally:
                signal.pthread_sigmask(signal.SIG_UNBLOCK, {signal.SIGCHLD})
            early = [i for i, c in enumerate(ch) if c["when"] == "before"]
            await spin(lambda: all(rec.objs[i].returncode is not None for i in early))
            for i, c in enumerate(ch):
                if c["when"] == "after":
                    reg(i)
            await spin(lambda: all(o.returncode is not None for o in rec.objs))
            obs = _observe(rec, tp)
        finally:
            for o in rec.objs:
                try:
                    o.proc.kill()
                except Exception:   # noqa: BLE001
                    pass
                try:
                    _os.waitpid(o.pid, 0)
                except Exception:   # noqa: BLE001
                    pass
                if o.proc.returncode is None:
                    o.proc.returncode = 0
            tp.Subprocess.uninitialize()
        return obs

    with _Patched(tp, rec):
        return asyncio.run(main())


def run_impl(case):
    if "real" in case:
        return run_real(case)
    return run_scripted(case["ev"])


# ---------------------------------------------------------------------------------------------------------------------
# independent oracle: positions in the trace instead of a state machine
def py_decode(st):
    low = st % 128
    if low == 0:
        return (st // 256) % 256
    if low == 127:
        return None
    return -low


def expected_all(ev):
    """Independent forward account of every object: list of (calls, rc, has_cb, futs), for traces with distinct pids."""
    objs = []
    handler = False
    for e in ev:
        k = e[0]
        if k == "spawn":
            objs.append({"pid": e[1], "dead": None, "reaped": False, "todo": False, "rc": None, "slot": None,
                         "inw": False, "futs": [], "late": [], "calls": []})
        elif k == "exit":
            for o in objs:
                if o["pid"] == e[1] and o["dead"] is None:
                    o["dead"] = e[2]
        elif k == "init":
            handler = True
        elif k == "uninit":
            handler = False
        elif k in ("reg", "wait"):
            if e[1] >= len(objs):
                continue
            o = objs[e[1]]
            fut = None
            if k == "wait":
                fut = len(o["futs"])
                o["futs"].append([e[2], G.Tag("pending")])
            cb = (e[2], fut, e[3] if k == "wait" else None)
            if o["rc"] is not None:
                o["late"].append(cb)
                continue
            o["slot"] = cb
            handler = True
            o["inw"] = True
            if o["dead"] is not None and not o["reaped"]:
                o["reaped"], o["todo"], o["inw"] = True, True, False
        elif k == "chld":
            if handler:
                for o in objs:
                    if o["inw"] and o["dead"] is not None and not o["reaped"]:
                        o["reaped"], o["todo"], o["inw"] = True, True, False
        elif k == "loop":
            for sid, o in enumerate(objs):
                def fire(cb, rc, o=o, sid=sid):
                    o["calls"].append([sid, G.Tag("call"), cb[0], rc])
                    if cb[1] is not None:
                        o["futs"][cb[1]] = ([cb[0], G.Tag("CalledProcessError"), rc] if (rc != 0 and cb[2])
                                            else [cb[0], G.Tag("result"), rc])
                if o["todo"]:
                    o["todo"] = False
                    rc = py_decode(o["dead"])
                    if rc is None:
                        o["calls"].append([sid, G.Tag("assert")])
                    else:
                        o["rc"] = rc
                        cb, o["slot"] = o["slot"], None
                        if cb is not None:
                            fire(cb, rc)
                for cb in o["late"]:
                    fire(cb, o["rc"])
                o["late"] = []
    return [(o["calls"], o["rc"], o["slot"] is not None, o["futs"]) for o in objs]


def expected_child(ev, sid):
    a = expected_all(ev)
    return a[sid] if sid < len(a) else None


def _same(a, b):
    """Structural equality that distinguishes Tags from plain values."""
    if isinstance(a, (list, tuple)) and isinstance(b, (list, tuple)):
        return len(a) == len(b) and all(_same(x, y) for x, y in zip(a, b))
    return type(a) is type(b) and a == b


def wf_case(ev):
    pids = [e[1] for e in ev if e[0] == "spawn"]
    return len(pids) == len(set(pids))


def py_check(case, o):
    ev = events_of(case)
    if not wf_case(ev):
        return True
    if not (isinstance(o, list) and len(o) == 4 and isinstance(o[0], list) and isinstance(o[1], list)):
        return False
    log, subs = o[0], o[1]
    n = sum(1 for e in ev if e[0] == "spawn")
    if len(subs) != n:
        return False
    for ent in log:
        if not (isinstance(ent, list) and ent and isinstance(ent[0], int) and 0 <= ent[0] < n):
            return False
    exp = expected_all(ev)
    for sid in range(n):
        calls, rc, has_cb, futs = exp[sid]
        mine = [ent for ent in log if ent[0] == sid]
        if not _same(mine, calls):
            return False
        if not _same(subs[sid], [rc, has_cb, futs]):
            return False
    return True


# ---------------------------------------------------------------------------------------------------------------------
STATUSES = ([c * 256 for c in (0, 1, 2, 3, 7, 42, 127, 128, 129, 254, 255)] +
            [1, 2, 9, 11, 15, 64, 126, 9 + 128, 11 + 128, 6 + 128] +
            [0x7F, 0x137F, 0xFFFF, 0x0B7F, 0x100 + 9, 0xFF00 + 15, 0x10000, 0x10000 + 256, 0x12345678, -1, -256, -9, -(1 << 31), (1 << 31) - 1])


def mk(ev):
    return {"ev": [list(e) for e in ev]}


def corpus_cases():
    c = []
    # the classic orders, one child
    c.append(mk([["spawn", 5], ["reg", 0, 0], ["exit", 5, 256], ["chld"], ["loop"]]))
    c.append(mk([["spawn", 5], ["exit", 5, 256], ["chld"], ["reg", 0, 0], ["loop"]]))
    c.append(mk([["spawn", 5], ["exit", 5, 9], ["wait", 0, 0, True], ["loop"]]))
    c.append(mk([["spawn", 5], ["wait", 0, 0, True], ["exit", 5, 0], ["chld"], ["loop"]]))
    c.append(mk([["spawn", 5], ["wait", 0, 0, False], ["exit", 5, 3 * 256], ["chld"], ["loop"]]))
    # two children, one coalesced SIGCHLD
    c.append(mk([["spawn", 5], ["spawn", 6], ["reg", 0, 0], ["wait", 1, 1, True], ["exit", 6, 15], ["exit", 5, 256], ["chld"], ["loop"]]))
    # registration after the exit was reported (used to hang for ever before fix 830934b): fires at the next loop turn
    c.append(mk([["spawn", 5], ["wait", 0, 0, False], ["exit", 5, 0], ["chld"], ["loop"], ["wait", 0, 1, True], ["chld"], ["loop"]]))
    # re-registration between reaping and the loop turn: only the later callback runs
    c.append(mk([["spawn", 5], ["reg", 0, 0], ["exit", 5, 512], ["chld"], ["reg", 0, 1], ["loop"]]))
    # stopped-shaped status: assertion inside the IOLoop callback
    c.append(mk([["spawn", 5], ["reg", 0, 0], ["exit", 5, 0x137F], ["chld"], ["loop"]]))
    # the old reproduction of the pid-reuse hazard (late registration used to leave a stale _waiting entry; no longer)
    c.append(mk([["spawn", 5], ["reg", 0, 0], ["exit", 5, 0], ["chld"], ["loop"], ["reg", 0, 1], ["spawn", 5], ["exit", 5, 256], ["chld"], ["loop"], ["reg", 1, 2], ["loop"]]))
    # a stale _waiting entry still arises from re-registration between reaping and the loop turn; with pid reuse
    # (outside the rely condition) the old object swallows the new child's status
    c.append(mk([["spawn", 5], ["reg", 0, 0], ["exit", 5, 0], ["chld"], ["reg", 0, 1], ["loop"], ["spawn", 5], ["exit", 5, 256], ["chld"], ["loop"], ["reg", 1, 2], ["loop"], ["chld"], ["loop"]]))
    # late wait_for_exit with raise_error on a failed child, late plain callback, two late registrations in one turn
    c.append(mk([["spawn", 5], ["reg", 0, 0], ["exit", 5, 9], ["chld"], ["loop"], ["wait", 0, 1, True], ["reg", 0, 2], ["wait", 0, 3, False], ["loop"], ["wait", 0, 4, True]]))
    # uninitialize(): SIGCHLD is ignored until the handler is installed again (by initialize() or by a registration)
    c.append(mk([["spawn", 5], ["reg", 0, 0], ["uninit"], ["exit", 5, 256], ["chld"], ["loop"], ["init"], ["chld"], ["loop"]]))
    c.append(mk([["spawn", 5], ["spawn", 6], ["reg", 0, 0], ["uninit"], ["exit", 5, 256], ["chld"], ["loop"], ["wait", 1, 1, True], ["chld"], ["loop"]]))
    # five children registered, all die, ONE SIGCHLD (seeded change C42_2)
    c.append(mk([["spawn", 10 + i] for i in range(5)] + [["reg", i, i] for i in range(5)] + [["exit", 10 + i, 256 * i] for i in (3, 1, 4, 0, 2)] + [["chld"], ["loop"]]))
    # handler already installed, child dies and its SIGCHLD goes by before registration (seeded change C42_1)
    c.append(mk([["init"], ["spawn", 5], ["exit", 5, 0], ["chld"], ["loop"], ["reg", 0, 0], ["loop"]]))
    c.append({"real": [{"how": "exit", "code": 3, "when": "before", "kind": "plain"}, {"how": "sig", "code": 9, "when": "after", "kind": "wait_raise"}]})
    return c


def enum_traces(nchild, maxlen, st, extra=()):
    pids = [10 + i for i in range(nchild)]
    alpha = [["chld"], ["loop"]] + [[x] for x in extra]
    for i, p in enumerate(pids):
        alpha.append(["exit", p, st[i % len(st)]])
        alpha.append(["reg", i, None])
        if nchild == 1:
            alpha.append(["wait", i, None, True])
    pre = [["spawn", p] for p in pids]
    for n in range(maxlen + 1):
        for t in itertools.product(alpha, repeat=n):
            ev, lab = list(pre), 0
            for e in t:
                e = list(e)
                if e[0] in ("reg", "wait"):
                    e[2] = lab
                    lab += 1
                ev.append(e)
            yield mk(ev)


def random_structured(rng):
    k = rng.choice([1, 1, 2, 2, 3, 4])
    pids = rng.sample(range(2, 40), k)
    seqs = []
    for i, p in enumerate(pids):
        st = rng.choice(STATUSES) if rng.random() < 0.7 else rng.choice([rng.randrange(256) * 256, rng.choice(SIGNALS), rng.choice(SIGNALS) + 128, rng.randrange(65536)])
        s = []
        kind = rng.choice(["reg", "wait_t", "wait_f"])
        regev = ["reg", i, None] if kind == "reg" else ["wait", i, None, kind == "wait_t"]
        order = rng.random()
        if order < 0.4:
            s = [regev, ["exit", p, st]]
        elif order < 0.8:
            s = [["exit", p, st], regev]
        elif order < 0.9:
            s = [regev]                      # never exits
        else:
            s = [["exit", p, st]]            # never registered
        if rng.random() < 0.15:
            s.insert(rng.randrange(len(s) + 1), ["reg", i, None] if rng.random() < 0.5 else ["wait", i, None, rng.random() < 0.5])
        if rng.random() < 0.1:
            s.append(["exit", p, rng.choice(STATUSES)])      # a second exit of the same pid is a no-op
        seqs.append(s)
    # spawn events first or interleaved
    uninit_ok = rng.random() < 0.3
    ev = []
    pos = [0] * k
    spawned = [False] * k
    while True:
        choices = [i for i in range(k) if not spawned[i] or pos[i] < len(seqs[i])]
        r = rng.random()
        if not choices and r > 0.3:
            break
        if r < 0.18:
            ev.append(["chld"])
        elif r < 0.36:
            ev.append(["loop"])
        elif r < 0.40 and uninit_ok:
            ev.append(["uninit"] if rng.random() < 0.6 else ["init"])
        elif choices:
            i = rng.choice(choices)
            if not spawned[i]:
                ev.append(["spawn", pids[i]])
                spawned[i] = True
            else:
                ev.append(list(seqs[i][pos[i]]))
                pos[i] += 1
        if len(ev) > 40:
            break
    if rng.random() < 0.7:
        ev += [["chld"], ["loop"]]
    if rng.random() < 0.2:
        i = rng.randrange(k)
        ev += [["wait", i, None, rng.random() < 0.5], ["chld"], ["loop"]]
    # objects are numbered in spawn order: renumber sids
    order = [e[1] for e in ev if e[0] == "spawn"]
    sid_of = {pids.index(p): n for n, p in enumerate(order)}
    lab = 0
    for e in ev:
        if e[0] in ("reg", "wait"):
            e[1] = sid_of.get(e[1], e[1])
            e[2] = lab
            lab += 1
    return mk(ev)


def random_malformed(rng):
    ev, lab = [], 0
    n = rng.randrange(1, 25)
    pool = [3, 4, 5, 6]
    for _ in range(n):
        r = rng.random()
        if r < 0.2:
            ev.append(["spawn", rng.choice(pool)])            # duplicate pids happen
        elif r < 0.4:
            ev.append(["exit", rng.choice(pool + [99]), rng.choice(STATUSES)])
        elif r < 0.55:
            ev.append(["chld"])
        elif r < 0.7:
            ev.append(["loop"])
        elif r < 0.76:
            ev.append(rng.choice([["init"], ["uninit"]]))
        elif r < 0.88:
            ev.append(["reg", rng.randrange(0, 5), lab])
            lab += 1
        else:
            ev.append(["wait", rng.randrange(0, 5), lab, rng.random() < 0.5])
            lab += 1
    return mk(ev)


def real_cases(rng, tier):
    out = []
    kinds = ["plain", "wait_raise", "wait_noraise"]
    if tier == "quick":
        codes = [0, 1, 2, 3, 42, 127, 128, 255]
        sigs = [1, 2, 6, 9, 11, 13, 15]
    else:
        codes = list(range(256))
        sigs = SIGNALS
    for j, c in enumerate(codes):
        for when in ("before", "after"):
            out.append({"real": [{"how": "exit", "code": c, "when": when, "kind": kinds[(j + (when == "after")) % 3]}]})
    for j, s in enumerate(sigs):
        for when in ("before", "after"):
            out.append({"real": [{"how": "sig", "code": s, "when": when, "kind": kinds[(j + (when == "after")) % 3]}]})
    for _ in range(8 if tier == "quick" else 60):
        k = rng.choice([2, 3, 4])
        ch = []
        for _ in range(k):
            if rng.random() < 0.6:
                ch.append({"how": "exit", "code": rng.choice(codes), "when": rng.choice(["before", "after"]), "kind": rng.choice(kinds)})
            else:
                ch.append({"how": "sig", "code": rng.choice(sigs), "when": rng.choice(["before", "after"]), "kind": rng.choice(kinds)})
        out.append({"real": ch})
    return out


def gen_cases(rng, tier):
    out = []
    if tier == "search":
        for _ in range(1500):
            out.append(random_structured(rng))
        return out
    if tier == "quick":
        out += list(enum_traces(1, 4, [256], ("uninit",)))
        out += list(enum_traces(1, 3, [9], ("init", "uninit")))
        out += list(enum_traces(2, 3, [0, 15], ("uninit",)))
        out += list(enum_traces(3, 2, [0, 15, 512]))
    else:
        out += list(enum_traces(1, 6, [256]))
        out += list(enum_traces(1, 4, [9 + 128], ("init", "uninit")))
        out += list(enum_traces(1, 4, [0], ("uninit",)))
        out += list(enum_traces(2, 5, [0, 15], ("uninit",)))
        out += list(enum_traces(3, 4, [0, 15, 512]))
    # every exit code / signal through the decoding, both orders
    for c in range(256):
        if tier == "thorough" or c % 5 == 0 or c in (1, 2, 127, 128, 254, 255):
            out.append(mk([["spawn", 7], ["reg", 0, 0], ["exit", 7, c * 256], ["chld"], ["loop"]]))
            out.append(mk([["spawn", 7], ["exit", 7, c * 256], ["wait", 0, 0, c % 2 == 0], ["loop"]]))
    for s in range(1, 128):
        if tier == "thorough" or s in SIGNALS or s in (126, 127):
            out.append(mk([["spawn", 7], ["wait", 0, 0, True], ["exit", 7, s], ["chld"], ["loop"]]))
            out.append(mk([["spawn", 7], ["exit", 7, s + 128], ["reg", 0, 0], ["loop"]]))
    for st in STATUSES:
        out.append(mk([["spawn", 7], ["wait", 0, 0, False], ["exit", 7, st], ["chld"], ["loop"]]))
    for _ in range(500 if tier == "quick" else 4000):
        out.append(random_structured(rng))
    for _ in range(150 if tier == "quick" else 1000):
        out.append(random_malformed(rng))
    out += real_cases(rng, tier)
    return out


HAS_SEARCH_TIER = True


def nontrivial(case, o):
    try:
        if o[0]:
            return repr(events_of(case))
    except Exception:   # noqa: BLE001
        pass
    return None


def classify(case, o):
    ev = events_of(case)
    yield "mode=" + ("real" if "real" in case else "scripted")
    n = sum(1 for e in ev if e[0] == "spawn")
    yield "children=%s" % (n if n < 4 else "4+")
    yield "wf=%s" % wf_case(ev)
    if not wf_case(ev):
        return
    for sid in range(n):
        x = expected_child(ev, sid)
        calls = x[0]
        born = [i for i, e in enumerate(ev) if e[0] == "spawn"][sid]
        pid = ev[born][1]
        ex = [i for i, e in enumerate(ev) if i > born and e[0] == "exit" and e[1] == pid]
        rg = [i for i, e in enumerate(ev) if i > born and e[0] in ("reg", "wait") and e[1] == sid]
        if ex and rg:
            yield "order=" + ("exit-first" if ex[0] < rg[0] else "registration-first")
        if len(rg) > 1:
            yield "re-registration"
        if calls:
            if calls[0][1] == "assert":
                yield "outcome=assert"
            else:
                rc = calls[0][3]
                yield "outcome=" + ("rc0" if rc == 0 else "rc>0" if rc > 0 else "signal")
        elif ex and rg:
            yield "outcome=not-yet-reported"
    try:
        for s in o[1]:
            for f in s[2]:
                yield "future=" + str(f[1])
    except Exception:   # noqa: BLE001
        pass


def signature(case, o):
    ev = events_of(case)
    try:
        n = sum(1 for e in ev if e[0] == "spawn")
        for sid in range(n):
            calls = expected_child(ev, sid)[0]
            mine = [e for e in o[0] if e[0] == sid]
            if len(mine) > len(calls):
                return "callback-ran-too-often"
            if len(mine) < len(calls):
                return "callback-missing"
            if not _same(mine, calls):
                return "wrong-status"
        if any(e[0] == -1 for e in o[0]):
            return "internal-error"
    except Exception:   # noqa: BLE001
        pass
    return "other"


def shrink(case):
    if "real" in case:
        ch = case["real"]
        for i in range(len(ch)):
            if len(ch) > 1:
                yield {"real": ch[:i] + ch[i + 1:]}
        return
    ev = case["ev"]
    for i in range(len(ev)):
        e = ev[i]
        rest = [list(x) for x in ev[:i] + ev[i + 1:]]
        if e[0] == "spawn":
            # removing an object renumbers the later ones
            sid = sum(1 for x in ev[:i] if x[0] == "spawn")
            ok = True
            for x in rest:
                if x[0] in ("reg", "wait"):
                    if x[1] == sid:
                        ok = False
                    elif x[1] > sid:
                        x[1] -= 1
            if not ok:
                continue
        yield {"ev": rest}
    for i, e in enumerate(ev):
        if e[0] == "exit" and e[2] not in (0, 256, 9):
            for st in (0, 256, 9):
                yield {"ev": [list(x) for x in ev[:i]] + [["exit", e[1], st]] + [list(x) for x in ev[i + 1:]]}


LEVEL_TEXT = ("Machine-checked (Coq) proof, for every event trace (child exits with any wait status, SIGCHLD deliveries, set_exit_callback / wait_for_exit calls, "
              "IOLoop turns, any number of children, any interleaving) in which the pids are distinct, that each Subprocess object of the model of "
              "tornado/process.py behaves exactly like a one-child specification automaton (non-interference through the shared _waiting dict, kernel table, "
              "IOLoop queue); consequently a callback runs at most once per object, only with decode(status of the child's first exit) (exit code, or minus the "
              "signal number), no registration fires twice, the callback in place fires as soon as registration and exit (in either order) are followed by a SIGCHLD and a loop turn, "
              "and a registration made after the report fires at the next loop turn; "
              "wait_for_exit's future gets the status or CalledProcessError(status) iff raise_error and status != 0; no KeyError / InvalidStateError path is reachable. "
              "The model is compared with the real class on scripted traces (exhaustive up to a length bound) and on real child processes.")
LEVEL_NOTE = ("Trusted: Coq kernel/vm_compute; the hand-written model; the scripted child table standing for os.waitpid (validated against real children on sampled statuses/signals); "
              "eventual SIGCHLD delivery by the kernel is an assumption (liveness is stated relative to a SIGCHLD and a loop turn occurring). "
              "Re-registering after the exit was already reported never fires (documented upstream behaviour; characterised by a theorem, see NOTES).")
TECHNIQUE = "Coq proof (per-child projection invariant over the shared state, induction over the trace) + differential correspondence via vm_compute + real subprocesses"
