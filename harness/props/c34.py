"""C34 — Condition.wait/notify/notify_all and Event.wait/set/clear (with gen.with_timeout).

A case is {"obj": "cond"|"event", "ops": [...]}.
  cond ops : ["W", timed] ["N", n] ["NA"] ["F", w] ["C", w] ["D"]
  event ops: ["W", timed] ["S"] ["CL"] ["F", w] ["C", w] ["D"]
w = index of the wait() call; ["F", w] = the timeout handle of wait w runs, ["C", w] =
the awaitable returned by wait w is cancelled, ["D"] = loop-iteration boundary (the
callbacks queued so far run; callbacks they schedule run at the next ["D"]).  The ops are
run on the real asyncio loop by the scheduling engine of harness/props/c33.py.
"""
import asyncio

from harness import gallina as G
from harness.gallina import Tag
from harness.props import c33 as E

ID = "C34"
COQ_DIRS = ["C34", "C33"]
PROPERTY_FILE = "C34/Property.v"
RUN_IMPORTS = "From TV Require Import C33.Model C34.Model C34.Run."
RUN_FN = "run_case"
CHECK_FN = "check_case"
INPUT_TYPE = "case"


def _creates(o):
    return o[0] == "W"


class _Order:
    """tornado.locks.Future replaced (module attribute only, restored afterwards) by a
    subclass that records the order in which futures are resolved."""

    def __init__(self):
        order = self.order = []

        class RecFuture(asyncio.Future):
            def set_result(self, r):
                super().set_result(r)
                order.append(self)

            def set_exception(self, e):
                super().set_exception(e)
                order.append(self)

            def cancel(self, *a, **k):
                r = super().cancel(*a, **k)
                if r:
                    order.append(self)
                return r
        self.cls = RecFuture

    def __enter__(self):
        from tornado import locks
        self.saved = locks.Future
        locks.Future = self.cls
        return self

    def __exit__(self, *a):
        from tornado import locks
        locks.Future = self.saved


def cstate(f):
    if not f.done():
        return "pending"
    if f.cancelled():
        return "cancelled"
    if f.exception() is not None:
        return "timeout" if isinstance(f.exception(), asyncio.TimeoutError) else "error"
    r = f.result()
    return {True: "true", False: "false", None: "done"}.get(r, "other")


def run_cond(ops):
    from tornado import locks
    dl = E.deadlines(ops, _creates)
    with _Order() as rec:
        cond = locks.Condition()
        futs = []
        results = [None] * len(ops)
        snaps = [None] * len(ops)
        log = []
        mark = [0]

        def do_op(i, o):
            try:
                do_op1(i, o)
            except Exception as e:          # no Condition operation may raise
                results[i] = Tag("raised-" + type(e).__name__)

        def do_op1(i, o):
            if o[0] == "W":
                tv, restore = E.make_timeout(i, o, dl)
                try:
                    f = cond.wait(tv)
                finally:
                    restore()
                futs.append(f)
                results[i] = Tag("waiting")
            elif o[0] == "N":
                cond.notify(o[1])
            elif o[0] == "NA":
                cond.notify_all()
            elif o[0] == "C":
                if o[1] < len(futs):
                    results[i] = bool(futs[o[1]].cancel())

        def scan(i):
            ids = {id(f): w for w, f in enumerate(futs)}
            new = [ids[id(f)] for f in rec.order[mark[0]:]]
            mark[0] = len(rec.order)
            for w in new:
                log.append([w, Tag(cstate(futs[w]))])
            o = ops[i]
            if o[0] in ("N", "NA") and results[i] is None:
                assert all(cstate(futs[w]) == "true" for w in new)
                results[i] = [Tag("woke"), new]
            elif o[0] == "F":
                assert len(new) <= 1
                results[i] = Tag("timedout") if new else None
                if new:
                    assert new[0] == o[1] and cstate(futs[o[1]]) == "false"
            else:
                assert len(new) == (1 if o[0] == "C" and results[i] is True else 0)
            snaps[i] = [results[i], len(cond._waiters), cond._timeouts]

        def final():
            ids = {id(f): w for w, f in enumerate(futs)}
            return [snaps, log, [Tag(cstate(f)) for f in futs], [ids[id(f)] for f in cond._waiters]]

        return E.drive(ops, do_op, scan, final)


def run_event(ops):
    from tornado import locks
    dl = E.deadlines(ops, _creates)
    with _Order():
        ev = locks.Event()
        rets, inners = [], []
        results = [None] * len(ops)
        snaps = [None] * len(ops)

        def do_op(i, o):
            try:
                do_op1(i, o)
            except Exception as e:          # no Event operation may raise
                results[i] = Tag("raised-" + type(e).__name__)

        def do_op1(i, o):
            if o[0] == "W":
                before = set(ev._waiters)
                tv, restore = E.make_timeout(i, o, dl)
                try:
                    f = ev.wait(tv)
                finally:
                    restore()
                new = set(ev._waiters) - before
                assert len(new) <= 1
                rets.append(f)
                inners.append(new.pop() if new else f)
                results[i] = Tag("done") if f.done() else Tag("waiting")
            elif o[0] == "S":
                ev.set()
            elif o[0] == "CL":
                ev.clear()
            elif o[0] == "C":
                if o[1] < len(rets):
                    results[i] = bool(rets[o[1]].cancel())

        def scan(i):
            o = ops[i]
            if o[0] == "F":
                w = o[1]
                results[i] = None
                if w < len(rets) and cstate(rets[w]) == "timeout":
                    prev = snaps[i - 1][3] if i > 0 else []
                    if w < len(prev) and prev[w] == "pending":
                        results[i] = Tag("timedout")
            ids = {id(f): w for w, f in enumerate(inners)}
            snaps[i] = [results[i], bool(ev.is_set()), sorted(ids[id(f)] for f in ev._waiters),
                        [Tag(cstate(f)) for f in rets], [Tag(cstate(f)) for f in inners]]

        def final():
            return snaps

        return E.drive(ops, do_op, scan, final)


def run_impl(case):
    assert E.well_formed(case["ops"], _creates), "case not realisable"
    return run_cond(case["ops"]) if case["obj"] == "cond" else run_event(case["ops"])


# ----------------------------------------------------------------------------
# Gallina rendering
# ----------------------------------------------------------------------------
def gop_c(o):
    return {"W": lambda: "CWait %s" % E.TMO[o[1]], "N": lambda: "CNotify %s" % G.gz(o[1]), "NA": lambda: "CNotifyAll",
            "F": lambda: "CFire %d" % o[1], "C": lambda: "CCancel %d" % o[1], "D": lambda: "CDrain"}[o[0]]()


def gop_e(o):
    return {"W": lambda: "EWait %s" % E.TMO[o[1]], "S": lambda: "ESet", "CL": lambda: "EClear",
            "F": lambda: "EFire %d" % o[1], "C": lambda: "ECancel %d" % o[1], "D": lambda: "EDrain"}[o[0]]()


def coq_input(case):
    if case["obj"] == "cond":
        return "(CondCase %s)" % G.glist([gop_c(o) for o in case["ops"]], "cop")
    return "(EventCase %s)" % G.glist([gop_e(o) for o in case["ops"]], "eop")


# ----------------------------------------------------------------------------
# independent Python oracles
# ----------------------------------------------------------------------------
def _plain(v):
    if isinstance(v, list):
        return [_plain(x) for x in v]
    if isinstance(v, Tag):
        return str(v)
    return v


def check_cond(ops, o):
    """Reference: FIFO of live waiters; notify(n) wakes min(n, live) oldest with True."""
    snaps, log, finals, _ = _plain(o)
    queue, state, rlog = [], [], []
    for op, snap in zip(ops, snaps):
        r = None
        if op[0] == "W":
            queue.append((len(state), bool(op[1])))
            state.append("pending")
            r = "waiting"
        elif op[0] in ("N", "NA"):
            n = len(queue) if op[0] == "NA" or op[1] < 0 else min(op[1], len(queue))
            woke, queue = [w for w, _ in queue[:n]], queue[n:]
            for w in woke:
                state[w] = "true"
                rlog.append([w, "true"])
            r = ["woke", woke]
        elif op[0] == "F":
            if (op[1], True) in queue:
                queue.remove((op[1], True))
                state[op[1]] = "false"
                rlog.append([op[1], "false"])
                r = "timedout"
        elif op[0] == "C":
            if op[1] < len(state):
                hit = [q for q in queue if q[0] == op[1]]
                if hit:
                    queue.remove(hit[0])
                    state[op[1]] = "cancelled"
                    rlog.append([op[1], "cancelled"])
                r = bool(hit)
        if snap[0] != r:
            return False
    return log == rlog and finals == state


def check_event(ops, o):
    """Reference at the level of the awaitable each wait() returned.  A timed wait whose
    event was set completes at the next iteration boundary unless its timer fires (or it
    is cancelled) first in that same iteration; residue: once the loop has run two
    boundaries after an awaitable finished, its future is out of _waiters."""
    snaps = _plain(o)
    value = False
    waits = []     # dict(st=pending|setseen|done|timeout|cancelled, timed, armed, age=boundaries since finished)
    for op, snap in zip(ops, snaps):
        r = None
        if op[0] == "W":
            if value:
                waits.append(dict(st="done", timed=False, armed=False, age=0, imm=True))
                r = "done"
            else:
                waits.append(dict(st="pending", timed=bool(op[1]), armed=bool(op[1]), age=0, imm=False))
                r = "waiting"
        elif op[0] == "S":
            if not value:
                value = True
                for x in waits:
                    if x["st"] == "pending":
                        x["st"] = "setseen" if x["timed"] else "done"
        elif op[0] == "CL":
            value = False
        elif op[0] == "F":
            w = op[1]
            if w < len(waits) and waits[w]["armed"]:
                x = waits[w]
                x["armed"] = False
                if x["st"] in ("pending", "setseen"):
                    x["st"] = "timeout"
                    r = "timedout"
        elif op[0] == "C":
            w = op[1]
            if w < len(waits):
                x = waits[w]
                r = x["st"] in ("pending", "setseen")
                if r:
                    x["st"] = "cancelled"
        elif op[0] == "D":
            for x in waits:
                if x["st"] == "setseen":
                    x["st"] = "done"
                if x["st"] not in ("pending", "setseen"):
                    x["age"] += 1
        want = [{"setseen": "pending"}.get(x["st"], x["st"]) for x in waits]
        if snap[0] != r or snap[1] != value or snap[3] != want:
            return False
        # residue: a wait finished two boundaries ago is not in _waiters; anything in
        # _waiters is a wait that has not been cleaned up yet; pending waits are in it
        for w, x in enumerate(waits):
            if x["st"] == "pending" and w not in snap[2]:
                return False
            if x["age"] >= 2 and w in snap[2]:
                return False
            if x["imm"] and w in snap[2]:
                return False
        if value and any(s == "pending" for s in snap[4]):
            return False
    return True


def py_check(case, o):
    if not isinstance(o, list):
        return False
    return check_cond(case["ops"], o) if case["obj"] == "cond" else check_event(case["ops"], o)


# ----------------------------------------------------------------------------
# generator
# ----------------------------------------------------------------------------
def mk(obj, ops):
    return {"obj": obj, "ops": E.normalize(ops, _creates)}


def corpus_cases():
    gc = [["W", 1]] * 104 + [["C", 3], ["D"]] + [["F", w] for w in range(0, 100)] + [["N", 1], ["F", 100], ["F", 101], ["D"], ["F", 102], ["N", 2], ["NA"]]
    return [
        mk("cond", [["W", 0], ["W", 1], ["W", 0], ["D"], ["F", 1], ["N", 1], ["N", 5]]),
        mk("cond", [["W", 1], ["W", 1], ["D"], ["N", 1], ["F", 0], ["F", 1], ["N", 1]]),      # timer fires after notify, same iteration
        mk("cond", [["W", 0], ["W", 0], ["W", 0], ["C", 1], ["N", 2], ["W", 0], ["NA"]]),
        mk("cond", [["W", 0], ["W", 0], ["N", -1], ["W", 0], ["N", 0]]),
        # zero timeouts are deadlines (seeded change C34_2): B must resolve False, notify(2) wakes A and C
        mk("cond", [["W", 0], ["W", 5], ["W", 0], ["D"], ["N", 2]]),
        mk("cond", [["W", 0], ["W", 3], ["W", 4], ["W", 0], ["W", 0], ["D"], ["N", 2], ["N", 1]]),
        mk("event", [["W", 3], ["W", 5], ["W", 4], ["W", 0], ["D"], ["S"], ["D"], ["D"]]),
        mk("event", [["W", 5], ["S"], ["D"], ["D"]]),
        # set / clear / set inside one iteration: the second set() meets futures that are done but still in _waiters
        mk("event", [["W", 0], ["W", 1], ["S"], ["CL"], ["S"], ["D"], ["D"]]),
        mk("event", [["W", 1], ["D"], ["F", 0], ["S"], ["CL"], ["W", 0], ["S"], ["D"], ["D"]]),
        mk("cond", gc),
        mk("event", [["W", 0], ["W", 1], ["S"], ["D"], ["D"], ["W", 0], ["CL"], ["W", 1], ["D"], ["F", 3], ["D"], ["D"]]),
        mk("event", [["W", 1], ["D"], ["S"], ["F", 0], ["D"], ["D"]]),                     # set, then the timer in the same iteration: TimeoutError
        mk("event", [["W", 1], ["D"], ["F", 0], ["S"], ["D"], ["D"]]),
        mk("event", [["W", 1], ["S"], ["D"], ["F", 0], ["D"]]),
        mk("event", [["W", 1], ["W", 0], ["C", 0], ["C", 1], ["D"], ["S"], ["D"], ["D"]]),
        mk("event", [["W", 1], ["D"], ["F", 0], ["D"], ["S"], ["D"], ["CL"], ["W", 1]]),
    ]


def random_cond(rng, n):
    ops, nw = [], 0
    for _ in range(n):
        x = rng.random()
        if x < 0.34 or nw == 0 and x < 0.6:
            ops.append(["W", rng.choice(E.TMO_MIX)])
            nw += 1
        elif x < 0.50:
            ops.append(["N", rng.choice([1, 1, 1, 2, 3, 0, -1, 5])])
        elif x < 0.55:
            ops.append(["NA"])
        elif x < 0.72:
            ops.append(["F", rng.randrange(max(nw, 1)) if rng.random() < 0.93 else nw + rng.randrange(2)])
        elif x < 0.84:
            ops.append(["C", rng.randrange(max(nw, 1)) if rng.random() < 0.93 else nw + rng.randrange(2)])
        else:
            ops.append(["D"])
    return ops


def random_event(rng, n):
    ops, nw = [], 0
    for _ in range(n):
        x = rng.random()
        if x < 0.28 or nw == 0 and x < 0.5:
            ops.append(["W", rng.choice(E.TMO_MIX)])
            nw += 1
        elif x < 0.37:
            ops.append(["S"])
        elif x < 0.41:
            ops += [["S"], ["CL"], ["S"]][: rng.randrange(2, 4)]      # set/clear(/set) without an iteration boundary
        elif x < 0.48:
            ops.append(["CL"])
        elif x < 0.64:
            ops.append(["F", rng.randrange(max(nw, 1)) if rng.random() < 0.93 else nw + rng.randrange(2)])
        elif x < 0.74:
            ops.append(["C", rng.randrange(max(nw, 1)) if rng.random() < 0.93 else nw + rng.randrange(2)])
        else:
            ops.append(["D"])
    return ops


def enum(n, max_w, base):
    return E.enum_norm(n, max_w, base, "W", _creates)


COND_BASE = [["N", 1], ["N", 2], ["NA"]]
EVENT_BASE = [["S"], ["CL"]]


def gen_cases(rng, tier):
    out = []
    if tier == "quick":
        for n in range(0, 4):
            out += [mk("cond", ops) for ops in enum(n, 2, COND_BASE)]
            out += [mk("event", ops) for ops in enum(n, 2, EVENT_BASE)]
        for _ in range(350):
            out.append(mk("cond", random_cond(rng, rng.randrange(4, 13))))
        for _ in range(450):
            out.append(mk("event", random_event(rng, rng.randrange(4, 14))))
        for _ in range(40):
            out.append(mk("cond", random_cond(rng, rng.randrange(13, 30))))
            out.append(mk("event", random_event(rng, rng.randrange(14, 24))))
    else:
        for n in range(0, 5):
            out += [mk("cond", ops) for ops in enum(n, 3 if n < 4 else 2, COND_BASE)]
            out += [mk("event", ops) for ops in enum(n, 3, EVENT_BASE)]
        for _ in range(1500):
            out.append(mk("cond", random_cond(rng, rng.randrange(5, 13))))
        for _ in range(2500):
            out.append(mk("event", random_event(rng, rng.randrange(5, 14))))
        for _ in range(150):
            out.append(mk("cond", random_cond(rng, rng.randrange(13, 40))))
            out.append(mk("event", random_event(rng, rng.randrange(14, 24))))
    # _garbage_collect with several LIVE waiters in the deque (seeded change C34_3): live waiters in front of,
    # between and behind > 100 timed waits that all expire; then the live ones are notified one at a time
    for k in range(8 if tier == "quick" else 16):
        n = 101 + rng.randrange(0, 4)
        nfront, nmid, nback = rng.randrange(1, 4), rng.randrange(0, 3), rng.randrange(0, 3)
        slots = ["T"] * n
        for _ in range(nmid):
            slots.insert(rng.randrange(1, len(slots)), "L")
        slots = ["L"] * nfront + slots + ["L"] * nback
        ops, timed, live = [], [], []
        for w, kind in enumerate(slots):
            if kind == "T":
                ops.append(["W", rng.choice([1, 2, 5])])
                timed.append(w)
            else:
                ops.append(["W", rng.choice([0, 0, 1])])
                live.append(w)
        ops.append(["D"])
        rng.shuffle(timed)
        ops += [["F", w] for w in timed]
        if rng.random() < 0.5:
            ops.append(["D"])
        for _ in range(len(live) + 1):
            ops.append(["N", rng.choice([1, 1, 1, 2])])
        out.append(mk("cond", ops))
    for k in range(2 if tier == "quick" else 6):      # _garbage_collect
        n = 101 + rng.randrange(0, 6)
        ops = [["W", 0]] * rng.randrange(0, 3)
        first = len(ops)
        ops += [["W", 1]] * n
        for _ in range(rng.randrange(0, 5)):
            ops.append(["C", rng.randrange(n + first)])
        ops.append(["D"])
        fire = list(range(first, first + n))
        rng.shuffle(fire)
        cut = rng.randrange(95, n + 1)
        for idx, w in enumerate(fire):
            if idx == cut:
                ops += [["N", 2], ["D"]] if rng.random() < 0.5 else [["N", 1]]
            ops.append(["F", w])
        ops += random_cond(rng, 6)
        out.append(mk("cond", ops))
    return out


def nontrivial(case, o):
    if not case["ops"]:
        return None
    return (case["obj"], tuple(tuple(x) for x in case["ops"]))


def classify(case, o):
    yield "obj=" + case["obj"]
    n = len(case["ops"])
    yield "len=" + ("0-3" if n < 4 else "4-7" if n < 8 else "8-13" if n < 14 else "14-40" if n <= 40 else "long(gc)")
    if not isinstance(o, list):
        return
    if case["obj"] == "cond":
        for s in sorted(set(str(s) for s in o[2])):
            yield "cond-has-" + s
        if any(isinstance(s[0], list) and len(s[0][1]) >= 2 for s in o[0]):
            yield "notify-woke>=2"
        if any(isinstance(s[0], list) and op[0] == "N" and 0 <= len(s[0][1]) < op[1] for s, op in zip(o[0], case["ops"])):
            yield "notify-fewer-than-n"
        if any(s[0] is None and op[0] == "F" for s, op in zip(o[0], case["ops"])):
            yield "fire-noop"
    else:
        if o:
            for s in sorted(set(str(s) for s in o[-1][3])):
                yield "event-ret-" + s
            if any(str(a) == "done" and str(b) == "timeout" for a, b in zip(o[-1][4], o[-1][3])):
                yield "event-set-then-timeout-same-iteration"
            if o[-1][2]:
                yield "event-waiters-nonempty-at-end"


def signature(case, o):
    return case["obj"]


def shrink(case):
    ops = case["ops"]
    for i in range(len(ops)):
        if ops[i][0] == "W":
            continue
        yield mk(case["obj"], ops[:i] + ops[i + 1:])
    if ops:
        yield mk(case["obj"], ops[:-1])


TRUSTED_BASE = [
    "harness/props/c33.py scheduling engine (ops are timer callbacks of the real asyncio loop under a virtual clock; Drain = one loop-iteration boundary)",
    "tornado.locks.Future is replaced, for the duration of a case, by a recording subclass of asyncio.Future (module attribute only; /repo is not modified) to observe the order of resolutions",
    "Event.set iterates a Python set: the model resolves waiters in creation order; only the set of futures resolved by one set() call is observed, not their order",
    "asyncio.Future / gen.with_timeout / chain_future are modelled by the inner/outer future pair, the 'armed' timer flag and the ready queue of done-callbacks (error_callback of with_timeout has no observable effect here and is omitted)",
]
ASSUMPTIONS = [
    "a timer never fires in the loop iteration that created it (asyncio collects due timers before running callbacks); the generator only emits such schedules, the theorems hold for all op lists",
    "'before its deadline' is read at loop-iteration granularity: the deadline passes when the loop collects the timer, i.e. at the iteration boundary preceding the timer callback (a set() later in that same iteration comes after the deadline by the clock)",
    "notify(n) theorems about min(n, live) are for n >= 0; the code treats a negative n as notify_all (modelled and checked)",
    "timeouts are exercised as None, absolute float, timedelta, 0, 0.0 and timedelta(0); a zero timeout is due at once and its timer runs in the next loop iteration",
]
RULE = ("op lists over {wait timed/untimed, notify n, notify_all | set, clear, fire timer w, cancel w, drain}: exhaustive for tiny lengths, random lengths 4-40, "
        "long Condition cases that trigger _garbage_collect; distinct by (object, ops)")
LEVEL_TEXT = ("Machine-checked (Coq) theorems over all operation lists: Condition — the model (deque with dead entries, GC, armed timers; shares Semaphore's definitions) "
              "refines the FIFO reference: notify(n) resolves exactly the min(n, live) oldest live waiters with True in arrival order, notify_all all of them, a timed-out "
              "wait resolves False, is removed from the live queue and is never woken later; Event — inductive invariants of the model with gen.with_timeout's inner/outer "
              "futures and the loop's callback queue: a set event has no pending waiter, a wait completes only if the event was set at or after the call, completes after set + "
              "one iteration unless its timer fires first, a fired timer gives TimeoutError, and at quiescence _waiters holds only genuinely pending waits.  The model is compared "
              "with the real classes on the real asyncio loop under a virtual clock on every generated schedule.")
LEVEL_NOTE = ("Trusted: Coq kernel/vm_compute; the schedule-driving harness; the abstraction of asyncio futures and callbacks. "
              "Deadlines are read at loop-iteration granularity (coq/C34/NOTES.md).")
TECHNIQUE = "Coq proof (refinement for Condition, inductive invariants + step lemmas for Event) + differential correspondence of traces via vm_compute"
