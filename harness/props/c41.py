"""C41 — fork_processes: the multi-process supervisor restarts exactly the failed workers.

The real `tornado.process.fork_processes` is run with `os.fork` / `os.wait`
replaced by scripted oracles (nothing is forked), `cpu_count` patched, logging
captured; the observable is the sequence of fork / wait / log events plus the
way the call ended (returned in a "child", sys.exit, RuntimeError, oracle
exhausted) and `task_id()` afterwards.
"""
import errno
import logging
import os as _real_os
import random as _random
import sys

from harness import gallina as G
from harness.framework import REPO, COQ

ID = "C41"
COQ_DIRS = ["C41"]
PROPERTY_FILE = "C41/Property.v"
RUN_IMPORTS = "From TV Require Import C41.Model C41.Spec C41.Run."
RUN_FN = "run_case"
CHECK_FN = "check_case"
INPUT_TYPE = "input"
HAS_SEARCH_TIER = False
EXHAUSTIVE = {"quick": False, "thorough": True}

TRUSTED_BASE = [
    "os.fork/os.wait are scripted oracles (lists of pids / (pid,status) pairs); once exhausted the fake raises the exception selected by the case (OutOfForks/BlockingIOError EAGAIN/OSError ENOMEM; OutOfWaits/ChildProcessError ECHILD/InterruptedError EINTR/OSError EIO) and the harness checks the SAME exception object comes out; no process is really forked",
    "the task id given to start_child is read from the caller's frame inside the fake os.fork (local `i` of start_child); exit attribution and decoded status are read from gen_log records (format string + args)",
    "os.WIFSIGNALED/WTERMSIG/WEXITSTATUS are the REAL CPython/glibc macros on this Linux host; the model's bit arithmetic is compared with them through the logged values (and proved equal to the mod/div reading used by the specification)",
    "translators/c41_src.py (fail-closed ast reader of fork_processes: extracts the default budget, the `<= k` bound, the status-classification chain, the budget comparison, the sys.exit argument into Gen/C41_src.v; the remaining text is compared verbatim with C41/SrcExpected.v); the interpretation of that description (supervise_d) and the `children` dict as an association list (the code never iterates it) are hand-written",
    "_reseed_random, sys.platform == 'win32' branch, gen_log text other than the four supervisor messages: not modelled",
]
ASSUMPTIONS = [
    "rely condition of the specification: os.fork never returns the pid of a worker that is still running; traces breaking it are classified EnvBroken and nothing further is required (the generator produces a small share of such traces to exercise the dict-overwrite semantics of the model)",
    "statuses and pids are C ints (|x| < 2^31), as os.W* require",
]
RULE = ("simulated supervisor histories (fresh pids, pid reuse after reaping, unknown pids, normal / non-zero / signal / core-dump / stopped-shaped statuses, "
        "fork returning 0 or failing at every position, budgets around the number of abnormal exits) + malformed streams (colliding pids, random ints, "
        "num_processes None/<=0, max_restarts None/negative, _task_id already set) + boundary statuses; thorough: EVERY history of wait results "
        "(each live worker x {normal, exit 1, signal 9} or an unknown pid) of length <= 7 / 5 / 4 for 1 / 2 / 3 workers, budgets 0..3 (3 workers with budget 3: length <= 3); quick: length <= 4 / 3 for 1 / 2 workers, budgets 0..2. "
        "distinct by canonical input; non-trivial = at least one worker exit was handled or a child returned")


def pre_build():
    """regenerate coq/Gen/C41_src.v (decisions + text of fork_processes) from the working tree; fails closed"""
    import importlib
    sys.path.insert(0, _real_os.path.join(_real_os.path.dirname(COQ), "translators"))
    import c41_src
    importlib.reload(c41_src)
    c41_src.emit(REPO, _real_os.path.join(COQ, "Gen", "C41_src.v"))


class OutOfForks(Exception):
    pass


class OutOfWaits(Exception):
    pass


# what the system call raises once its scripted results are used up (index = kind in the model)
FORK_ERRORS = [lambda: OutOfForks(), lambda: BlockingIOError(errno.EAGAIN, "Resource temporarily unavailable"),
               lambda: OSError(errno.ENOMEM, "Cannot allocate memory")]
WAIT_ERRORS = [lambda: OutOfWaits(), lambda: ChildProcessError(errno.ECHILD, "No child processes"),
               lambda: InterruptedError(errno.EINTR, "Interrupted system call"), lambda: OSError(errno.EIO, "I/O error")]


class _Capture(logging.Handler):
    def __init__(self, events):
        logging.Handler.__init__(self, level=logging.DEBUG)
        self.events = events

    def emit(self, record):
        msg, args = record.msg, record.args
        if not isinstance(args, tuple):
            args = (args,)
        if msg == "Starting %d processes":
            self.events.append([G.Tag("start"), args[0]])
        elif msg == "child %d (pid %d) killed by signal %d, restarting":
            self.events.append([G.Tag("log"), args[0], args[1], G.Tag("signal"), args[2]])
        elif msg == "child %d (pid %d) exited with status %d, restarting":
            self.events.append([G.Tag("log"), args[0], args[1], G.Tag("status"), args[2]])
        elif msg == "child %d (pid %d) exited normally":
            self.events.append([G.Tag("log"), args[0], args[1], G.Tag("normal")])
        else:
            self.events.append([G.Tag("otherlog"), str(msg)[:40]])


class _FakeOS:
    """Stands in for the `os` module inside tornado.process for one call."""

    def __init__(self, events, forks, waits, ek):
        self._events, self._forks, self._waits, self._ek = events, list(forks), list(waits), ek
        self.raised = None

    def fork(self):
        if not self._forks:
            self.raised = ("forkerr", self._ek[0], FORK_ERRORS[self._ek[0]]())
            raise self.raised[2]
        pid = self._forks.pop(0)
        fr = sys._getframe(1)
        tid = fr.f_locals.get("i") if fr.f_code.co_name == "start_child" else None
        self._events.append([G.Tag("fork"), tid, pid])
        return pid

    def wait(self):
        if not self._waits:
            self.raised = ("waiterr", self._ek[1], WAIT_ERRORS[self._ek[1]]())
            raise self.raised[2]
        pid, st = self._waits.pop(0)
        self._events.append([G.Tag("wait"), pid, st])
        return pid, st

    def __getattr__(self, name):
        return getattr(_real_os, name)


def run_impl(case):
    import tornado.process as P
    from tornado.log import gen_log

    events = []
    fake = _FakeOS(events, case["forks"], [tuple(w) for w in case["waits"]], case.get("ek", [0, 0]))
    handler = _Capture(events)
    saved = (P.os, P.cpu_count, P._task_id, gen_log.level, gen_log.propagate, list(gen_log.handlers), gen_log.disabled)
    rstate = _random.getstate()
    P.os = fake
    P.cpu_count = lambda: case["cpu"]
    P._task_id = case["pre"]
    gen_log.handlers[:] = [handler]
    gen_log.setLevel(logging.DEBUG)
    gen_log.propagate = False
    gen_log.disabled = False
    try:
        try:
            if case["mr"] is None and case.get("mr_omitted", True):
                ret = P.fork_processes(case["np"])
            else:
                ret = P.fork_processes(case["np"], case["mr"])
            out = [G.Tag("child"), ret, P.task_id()]
        except SystemExit as e:
            out = [G.Tag("exit"), e.code if isinstance(e.code, int) and not isinstance(e.code, bool) else G.Tag(repr(e.code)[:20])]
        except RuntimeError as e:
            out = G.Tag("RuntimeError")
        except AssertionError:
            out = G.Tag("AssertionError")
        except (OutOfForks, OutOfWaits, OSError) as e:
            if fake.raised is None or fake.raised[2] is not e:
                raise                       # not the scripted exception object: unexpected
            out = [G.Tag(fake.raised[0]), fake.raised[1]]
        task = P.task_id()
    finally:
        P.os, P.cpu_count, P._task_id = saved[0], saved[1], saved[2]
        gen_log.setLevel(saved[3])
        gen_log.propagate = saved[4]
        gen_log.handlers[:] = saved[5]
        gen_log.disabled = saved[6]
        _random.setstate(rstate)
    return [events, out, task]


# ---------------------------------------------------------------- rendering
def _gz(z):
    return "(%d)" % z if z < 0 else "%d" % z


def coq_input(case):
    pre = "None" if case["pre"] is None else "(Some %d%%nat)" % case["pre"]
    np_ = "None" if case["np"] is None else "(Some %s)" % _gz(case["np"])
    mr = "None" if case["mr"] is None else "(Some %s)" % _gz(case["mr"])
    forks = "(@nil Z)" if not case["forks"] else "[" + ";".join(_gz(p) for p in case["forks"]) + "]"
    waits = "(@nil (Z*Z))" if not case["waits"] else "[" + ";".join("(%s,%s)" % (_gz(p), _gz(s)) for p, s in case["waits"]) + "]"
    ek = case.get("ek", [0, 0])
    return "(((%d%%nat, %d%%nat), %s, %s, %d%%nat, %s, %s, %s)%%Z : input)" % (ek[0], ek[1], pre, np_, case["cpu"], mr, forks, waits)


def mk(np_, mr, forks, waits, cpu=2, pre=None, ek=(0, 0)):
    return {"ek": list(ek), "pre": pre, "np": np_, "cpu": cpu, "mr": mr, "forks": list(forks), "waits": [list(w) for w in waits]}


# ---------------------------------------------------------------- independent Python oracle of the property
def _abnormal(st):
    sig = st % 128
    return (sig not in (0, 127)) or ((st // 256) % 256 != 0)


def _explog(i, pid, st):
    sig = st % 128
    if sig not in (0, 127):
        return [G.Tag("log"), i, pid, G.Tag("signal"), sig]
    code = (st // 256) % 256
    if code != 0:
        return [G.Tag("log"), i, pid, G.Tag("status"), code]
    return [G.Tag("log"), i, pid, G.Tag("normal")]


def verdict(case, o):
    """'accept' / 'reject' / 'envbroken' — the ideal supervisor keyed by worker id (same statement as coq/C41/Spec.v,
    written separately in Python)."""
    try:
        events, out, task = o
    except Exception:
        return "reject"
    if not isinstance(events, list):
        return "reject"
    if case["pre"] is not None:
        return "accept" if (events == [] and out == "AssertionError" and isinstance(out, G.Tag) and task == case["pre"]) else "reject"
    n = case["np"] if (case["np"] is not None and case["np"] > 0) else case["cpu"]
    budget = 100 if case["mr"] is None else case["mr"]
    ek = case.get("ek", [0, 0])
    fork_failed, wait_failed = [G.Tag("forkerr"), ek[0]], [G.Tag("waiterr"), ek[1]]
    if not events or events[0] != [G.Tag("start"), n]:
        return "reject"
    is_child = isinstance(out, list) and len(out) == 3 and out[0] == "child"
    if is_child:
        if task != out[2] or task is None:
            return "reject"
    elif task is not None:
        return "reject"
    ev = events[1:]
    pos = 0
    state = {}          # id -> pid (running) ; finished ids in `done`
    done = set()

    def child_ok(i):
        return is_child and out[1] == i and out[2] == i and type(out[1]) is int

    for i in range(n):
        if pos == len(ev):
            return "accept" if out == fork_failed else "reject"
        e = ev[pos]
        pos += 1
        if len(e) != 3 or e[0] != "fork" or e[1] != i:
            return "reject"
        if e[2] == 0:
            return "accept" if (pos == len(ev) and child_ok(i)) else "reject"
        if e[2] in state.values():
            return "envbroken"
        state[i] = e[2]
    restarts = 0
    while True:
        if len(done) == n:
            return "accept" if (pos == len(ev) and out == [G.Tag("exit"), 0]) else "reject"
        if pos == len(ev):
            return "accept" if out == wait_failed else "reject"
        e = ev[pos]
        pos += 1
        if len(e) != 3 or e[0] != "wait":
            return "reject"
        pid, st = e[1], e[2]
        owners = [i for i, p in state.items() if p == pid]
        if not owners:
            continue
        i = owners[0]
        if pos == len(ev) or ev[pos] != _explog(i, pid, st):
            return "reject"
        pos += 1
        del state[i]
        if not _abnormal(st):
            done.add(i)
            continue
        if restarts + 1 > budget:
            return "accept" if (pos == len(ev) and out == "RuntimeError") else "reject"
        if pos == len(ev):
            return "accept" if out == fork_failed else "reject"
        e = ev[pos]
        pos += 1
        if len(e) != 3 or e[0] != "fork" or e[1] != i:
            return "reject"
        if e[2] == 0:
            return "accept" if (pos == len(ev) and child_ok(i)) else "reject"
        if e[2] in state.values():
            return "envbroken"
        state[i] = e[2]
        restarts += 1


def py_check(case, o):
    return verdict(case, o) != "reject"


# ---------------------------------------------------------------- generator
NORMAL, EXIT1, SIG9 = 0, 256, 9


def _status(rng, kind):
    if kind == "normal":
        return 0
    if kind == "exit":
        return rng.choice([1, 2, 3, 127, 128, 255, rng.randrange(1, 256)]) << 8
    if kind == "signal":
        return rng.choice([1, 2, 9, 11, 15, 64, 126, rng.randrange(1, 127)]) | rng.choice([0, 0, 128])
    if kind == "odd":    # shapes os.wait() does not produce, or extra high bits
        return rng.choice([127, 0x137F, 0xFFFF, 128, 0x80 | 0x100, 0x10000, 0x10009, 0x7F00, 0x17F, -1, -256, -65536,
                           2 ** 31 - 1, -2 ** 31, 0x00FF, 0x1000000 | 9, rng.randrange(-70000, 70000)])
    raise ValueError(kind)


def simulated(rng, n=None, steps=None):
    """One plausible history: pids handed out by a simulated kernel, waits reported for live (or stale/unknown) pids."""
    n = rng.choice([1, 1, 2, 2, 3, 3, 4, 5]) if n is None else n
    next_pid = [rng.choice([2, 100, 30000])]
    free = []

    def new_pid():
        if free and rng.random() < 0.35:       # kernel reuses a reaped pid
            return free.pop(rng.randrange(len(free)))
        next_pid[0] += rng.choice([1, 1, 1, 2, 7])
        return next_pid[0]

    steps = rng.randrange(0, 11) if steps is None else steps
    pnorm = rng.choice([0.2, 0.5, 0.8])
    live = {}
    forks, waits = [], []
    for i in range(n):
        p = new_pid()
        forks.append(p)
        live[p] = i
    abn = 0
    for _ in range(steps):
        if not live:
            break
        r = rng.random()
        if r < 0.15:    # unknown pid: never forked, or already reaped
            pid = rng.choice(free) if (free and rng.random() < 0.5) else rng.choice([1, 99999, next_pid[0] + 50, -1])
            if pid in live:
                continue
            waits.append([pid, _status(rng, rng.choice(["normal", "exit", "signal", "odd"]))])
            continue
        pid = rng.choice(sorted(live))
        kind = "normal" if rng.random() < pnorm else rng.choice(["exit", "signal", "exit", "signal", "odd"])
        st = _status(rng, kind)
        waits.append([pid, st])
        i = live.pop(pid)
        free.append(pid)
        if _abnormal(st):
            abn += 1
            p = new_pid()
            forks.append(p)
            live[p] = i
    if not live and rng.random() < 0.3:
        waits.append([rng.choice([5, 6]), 0])      # never read
    budget = rng.choice([None, abn, abn, abn - 1, abn - 1, abn + 1, 0, 1, 2, 3, 100, -1])
    if budget is not None and budget < -1:
        budget = 0
    # fork-side faults
    r = rng.random()
    if r < 0.15 and forks:
        k = rng.randrange(len(forks))
        forks = forks[:k] + [0] + forks[k:]         # "we are the child" at position k
    elif r < 0.25 and forks:
        forks = forks[:rng.randrange(len(forks))]   # fork starts failing
    else:
        forks = forks + [next_pid[0] + 1000, next_pid[0] + 1001][:rng.randrange(3)]
    np_, cpu = n, rng.randrange(0, 4)
    r = rng.random()
    if r < 0.08:
        np_, cpu = rng.choice([None, 0, -1, -5]), n
    return mk(np_, budget, forks, waits, cpu=cpu, ek=(rng.randrange(3), rng.randrange(4)))


def malformed(rng):
    n = rng.randrange(0, 5)
    pids = [rng.choice([0, 1, 2, 3, 3, 4, 5, 7, -1, 2 ** 31 - 1, rng.randrange(1, 8)]) for _ in range(rng.randrange(0, 9))]
    if rng.random() < 0.6:
        pids = [p for p in pids if p != 0] + ([0] if rng.random() < 0.3 else [])
    waits = [[rng.choice([0, 1, 2, 3, 4, 5, 7, -1, 9]), _status(rng, rng.choice(["normal", "exit", "signal", "odd", "odd"]))]
             for _ in range(rng.randrange(0, 10))]
    return mk(rng.choice([n, n, n, None, 0, -3]), rng.choice([None, -2, -1, 0, 1, 2, 3, 5]), pids, waits,
              cpu=rng.randrange(0, 4), pre=rng.choice([None] * 9 + [0, 3]), ek=(rng.randrange(3), rng.randrange(4)))


def exhaustive(n, budget, depth):
    """EVERY history of wait results of length <= depth for n workers: each step reaps one live worker with
    {normal, exit 1, signal 9} or reports an unknown pid; pids are fresh; the fork oracle never fails."""
    out = []
    forks0 = [10 + i for i in range(n)]

    ek = (budget % 3, (n + budget) % 4)

    def rec(live, restarts, forks, waits, d):
        if not live or d == 0:
            out.append(mk(n, budget, forks + [90], waits, ek=ek))
            return
        # unknown pid (with an abnormal-looking status: must be ignored)
        rec(live, restarts, forks, waits + [[77, SIG9]], d - 1)
        for i in sorted(live):
            for st in (NORMAL, EXIT1, SIG9):
                w2 = waits + [[live[i], st]]
                l2 = dict(live)
                del l2[i]
                if st == NORMAL:
                    rec(l2, restarts, forks, w2, d - 1)
                elif restarts + 1 > budget:
                    out.append(mk(n, budget, forks + [90], w2 + [[live[i], 0]], ek=ek))   # RuntimeError; trailing wait never read
                else:
                    p = 10 + len(forks)
                    l2[i] = p
                    rec(l2, restarts + 1, forks + [p], w2, d - 1)

    rec({i: forks0[i] for i in range(n)}, 0, forks0, [], depth)
    return out


def boundary_cases():
    out = []
    # every status shape, one worker, plenty of budget: decoded log values + restart decision
    sts = [0, 1, 2, 9, 126, 127, 128, 129, 255, 256, 257, 0x7F00, 0xFF00, 0xFFFF, 0x137F, 0x8B, 0x10000, 0x10100, 0x10009,
           -1, -128, -256, -255, -32768, 2 ** 31 - 1, -2 ** 31, 0x7FFF00, 0x100007F, 383]
    for st in sts:
        out.append(mk(1, 5, [10, 11], [[10, st], [11, 0]]))
    # budgets around the number of abnormal exits
    for abn in range(0, 5):
        for b in (None, -1, 0, 1, 2, 3, 4, 5):
            forks = [10 + k for k in range(abn + 2)]
            waits = [[10 + k, EXIT1 if k % 2 else SIG9] for k in range(abn)] + [[10 + abn, 0], [11 + abn, 0]]
            out.append(mk(1, b, forks, waits))
    # fork returns 0 / fails at every position (start-up and restart)
    for n in (1, 2, 3):
        base_f = [10, 11, 12][:n] + [20, 21]
        waits = [[10, SIG9], [20, EXIT1], [21, 0]] + [[11, 0], [12, 0]][:n - 1]
        for k in range(len(base_f) + 1):
            out.append(mk(n, 3, base_f[:k], waits))
            out.append(mk(n, 3, base_f[:k] + [0], waits))
    # every exception kind of os.fork (start-up, restart) and os.wait (first wait, later wait, after unknown pid)
    for fk in range(len(FORK_ERRORS)):
        for wk in range(len(WAIT_ERRORS)):
            out.append(mk(2, 3, [10], [], ek=(fk, wk)))
            out.append(mk(2, 3, [10, 11], [], ek=(fk, wk)))
            out.append(mk(2, 3, [10, 11], [[10, SIG9]], ek=(fk, wk)))
            out.append(mk(2, 3, [10, 11, 12], [[10, SIG9], [77, 0]], ek=(fk, wk)))
            out.append(mk(2, 3, [10, 11, 12], [[10, SIG9], [11, 0]], ek=(fk, wk)))
            out.append(mk(1, 0, [10], [[10, EXIT1]], ek=(fk, wk)))
    # num_processes None / <= 0 -> cpu_count(); no workers at all
    for np_ in (None, 0, -1, 1, 2):
        for cpu in (0, 1, 3):
            out.append(mk(np_, None, [10, 11, 12, 13], [[10, 0], [12, 0], [11, 0], [13, 0]], cpu=cpu))
    # called again inside a worker
    out.append(mk(2, 1, [10, 11], [[10, 0]], pre=0))
    out.append(mk(2, 1, [10, 11], [[10, 0]], pre=4))
    # pid reuse right after reaping (legal) and live-pid collision (rely condition broken)
    out.append(mk(2, 3, [10, 11, 10, 10], [[10, SIG9], [10, EXIT1], [10, 0], [11, 0]]))
    out.append(mk(2, 3, [10, 10, 12], [[10, 0], [10, 0]]))
    out.append(mk(2, 3, [10, 11, 11, 12], [[10, SIG9], [11, 0], [11, 0]]))
    return out


def corpus_cases():
    # the scenario of tornado/test/process_test.py: 3 workers; one killed by a signal, restarted, exits 0 ...
    return [
        mk(3, None, [101, 102, 103, 104], [[102, 9], [101, 0], [103, 0], [104, 0]]),
        mk(2, 1, [10, 11, 12, 13], [[99, 0], [10, 256], [11, 0], [12, 9], [5, 5]]),
        mk(1, 0, [10], [[10, 0]]),
        mk(1, 0, [10, 11], [[10, 256]]),
        mk(2, 2, [10, 11, 0], [[11, 15]]),
        # max_restarts None = 100: 100 abnormal exits are restarted, the 101st fails the supervisor
        mk(1, None, list(range(10, 130)), [[10 + k, 9 if k % 2 else 256] for k in range(100)] + [[110, 0]]),
        mk(1, None, list(range(10, 130)), [[10 + k, 9 if k % 2 else 256] for k in range(101)] + [[111, 0]]),
        # the budget is global, not per worker (seeded change C41_1): budget 1, two different workers fail once each
        mk(2, 1, [10, 11, 12, 13], [[10, 256], [11, 256], [12, 0], [13, 0]]),
        # a signal death is abnormal even though WEXITSTATUS is 0 (seeded change C41_2): last worker killed, core dumped
        mk(1, 0, [10, 11], [[10, 139], [11, 0]]),
        mk(2, 3, [10, 11, 12], [[11, 0], [10, 9], [12, 0]]),
        # os.wait() raising ECHILD / EINTR while a worker is still registered
        mk(1, 3, [10, 11], [[10, 9]], ek=(1, 1)),
        mk(2, 3, [10, 11], [[5, 0]], ek=(2, 2)),
    ]


def gen_cases(rng, tier):
    out = list(boundary_cases())
    nsim, nmal = (1100, 250) if tier == "quick" else (3000, 800)
    for _ in range(nsim):
        out.append(simulated(rng))
    for _ in range(nmal):
        out.append(malformed(rng))
    if tier == "quick":
        for n, d in ((1, 4), (2, 3)):
            for b in (0, 1, 2):
                out += exhaustive(n, b, d)
    else:
        for n, d, budgets in ((1, 7, (0, 1, 2, 3)), (2, 5, (0, 1, 2, 3)), (3, 4, (0, 1, 2)), (3, 3, (3,))):
            for b in budgets:
                out += exhaustive(n, b, d)
    return out


# ---------------------------------------------------------------- evidence helpers
def nontrivial(case, o):
    try:
        events, out, task = o
        if any(e[0] == "log" for e in events) or (isinstance(out, list) and out[0] == "child"):
            return (case["pre"], case["np"], case["cpu"], case["mr"], tuple(case["forks"]), tuple(map(tuple, case["waits"])))
    except Exception:
        pass
    return None


def classify(case, o):
    try:
        events, out, task = o
    except Exception:
        yield "obs=malformed"
        return
    yield "verdict=" + verdict(case, o)
    yield "outcome=" + (str(out[0]) if isinstance(out, list) else str(out))
    n = case["np"] if (case["np"] is not None and case["np"] > 0) else case["cpu"]
    yield "workers=" + (str(n) if n < 4 else "4+")
    yield "budget=" + ("None" if case["mr"] is None else "<0" if case["mr"] < 0 else str(case["mr"]) if case["mr"] < 4 else "4+")
    logs = [e for e in events if e[0] == "log"]
    nab = sum(1 for e in logs if e[3] != "normal")
    yield "abnormal_exits=" + (str(nab) if nab < 4 else "4+")
    nw = sum(1 for e in events if e[0] == "wait")
    yield "unknown_waits=" + ("0" if nw == len(logs) else "1+")
    yield "history_len=" + (str(nw) if nw < 9 else "9+")


def signature(case, o):
    try:
        events, out, task = o
        return "outcome=%s" % (str(out[0]) if isinstance(out, list) else str(out))
    except Exception:
        return "obs=malformed"


def shrink(case):
    w, f = case["waits"], case["forks"]
    for k in range(len(w)):
        yield dict(case, waits=w[:k] + w[k + 1:])
    if len(f) > 0:
        yield dict(case, forks=f[:-1])
    if case["np"] is not None and case["np"] > 1:
        yield dict(case, np=case["np"] - 1)
    for k, (p, s) in enumerate(w):
        if s not in (0, 9, 256):
            yield dict(case, waits=w[:k] + [[p, 9 if s % 128 not in (0, 127) else 256 if _abnormal(s) else 0]] + w[k + 1:])


LEVEL_TEXT = ("Machine-checked (Coq) proof that the model of fork_processes' start-up loop and `while children` loop, for EVERY number of workers, "
              "restart budget, fork-result stream and wait-result stream, produces a trace accepted by an independently written ideal supervisor "
              "keyed by worker id (ids 0..n-1 started once in order; unknown pids ignored; restart with the same id exactly on signal / non-zero exit; "
              "RuntimeError exactly when the restart count would exceed the budget; sys.exit(0) exactly when every worker finished normally; a child "
              "returns and sees its own id), with consequences of acceptance proved as separate theorems; the real function is run against scripted "
              "fork/wait oracles and compared event-by-event with the model, and the acceptor is applied to the implementation's own traces.")
LEVEL_NOTE = ("Trusted: Coq kernel/vm_compute; fake os.fork/os.wait and frame/log based observation; real os.W* macros of this host; "
              "rely condition that fork never returns a still-running worker's pid (needed only for the Accept verdict; collisions are classified EnvBroken).")
TECHNIQUE = "Coq proof (simulation invariant between the pid-keyed dict and the worker-keyed specification, induction over the wait history) + differential correspondence via vm_compute + exhaustive small-scope enumeration of wait histories"
