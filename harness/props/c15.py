"""C15 — WebSocket peers that violate the protocol are cut off without bad data.

The receiver driver, frame builder and Gallina rendering are shared with c14.py."""
import itertools
import struct
import zlib

from harness import gallina as G
from harness.gallina import Tag
from harness.props import c14 as B

ID = "C15"
COQ_DIRS = ["C14", "C15"]
PROPERTY_FILE = "C15/Property.v"
RUN_IMPORTS = "From TV Require Import C14.Model C14.Run C15.Run."
RUN_FN = "C15.Run.run_case"
CHECK_FN = "C15.Run.check_case"
INPUT_TYPE = "vcase"

frame, b2s, s2b = B.frame, B.b2s, B.s2b


def run_impl(case):
    return B.drive_recv(case)


def coq_input(case):
    before = case["before"]
    items = ["(%s, %s)" % (G.gbool(t), B.gblob(d if t else s2b(d))) for t, d in before]
    return "(VCase %s %s %s)" % (B.coq_recv_fields(case),
                                 "[" + "; ".join(items) + "]" if items else "(@nil (bool * blob))",
                                 G.gbool(case["violated"]))


def py_check(case, obs):
    if not (isinstance(obs, list) and len(obs) == 6 and isinstance(obs[1], list)):
        return False
    want = [["text" if t else "binary", B.digest(d if t else s2b(d))] for t, d in case["before"]]
    if B.delivered(obs) != want:
        return False
    if case["violated"]:
        return str(obs[0]) == "Done" and obs[2] == [True, True, True]
    if case["eof"]:
        return str(obs[0]) == "Done"
    return str(obs[0]) == "Waiting" and obs[2][0] is False and obs[2][2] is False


# ----------------------------------------------------------------------------
# a conforming peer that records, per frame, which message (if any) it completes
# ----------------------------------------------------------------------------
class Script:
    def __init__(self, rng, comp, masked, maxsize=125):
        self.rng, self.comp, self.masked = rng, comp, masked
        self.maxctl = min(125, maxsize)
        self.peer = B.Peer(rng, comp, masked)
        self.frames = []       # (bytes, completed message or None, inside-a-fragmented-message-after-this-frame, text?)

    def add_message(self, m, nfrag, pings):
        payload, rsv = self.peer.payload(m)
        cuts = sorted(self.rng.randrange(0, len(payload) + 1) for _ in range(nfrag - 1))
        pts = [0] + cuts + [len(payload)]
        for i in range(nfrag):
            if i and pings:
                self.frames.append((self.peer.control(self.maxctl), None, True, m[0]))
            last = i == nfrag - 1
            fr = frame(last, (1 if m[0] else 2) if i == 0 else 0, payload[pts[i]:pts[i + 1]],
                       rsv=rsv if i == 0 else 0, mask=self.peer.key())
            self.frames.append((fr, m if last else None, not last, m[0]))

    def add_control(self):
        self.frames.append((self.peer.control(self.maxctl), None, False, None))


def bloated_deflate(data, min_size, wbits=15):
    """raw-deflate `data` as permessage-deflate would, prefixed with empty stored blocks so that the
    wire payload is longer than min_size although it inflates to `data`"""
    z = zlib.compressobj(6, zlib.DEFLATED, -wbits, 8)
    body = (z.compress(data) + z.flush(zlib.Z_SYNC_FLUSH))[:-4]
    empty = b"\x00\x00\x00\xff\xff"
    out = empty * (min_size // len(empty) + 1) + body
    assert zlib.decompressobj(-wbits).decompress(out + b"\x00\x00\xff\xff") == data and len(out) > min_size
    return out


def violations(rng, comp, in_frag, frag_text, peer, maxsize):
    """(name, bytes) of frames that violate the protocol at a position whose context is
    (in_frag: a fragmented message is open; frag_text: it is a text message)."""
    k = peer.key
    out = []
    out.append(("rsv2-data", frame(True, 0 if in_frag else 2, b"x", rsv=0x20, mask=k())))
    out.append(("rsv3-ping", frame(True, 9, b"", rsv=0x10, mask=k())))
    out.append(("rsv23-cont", frame(False, 0 if in_frag else 1, b"ab", rsv=0x30, mask=k())))
    if comp is None:
        out.append(("rsv1-no-ext", frame(True, 0 if in_frag else 1, b"hi", rsv=0x40, mask=k())))
    else:
        out.append(("rsv1-ctl", frame(True, 10, b"p", rsv=0x40, mask=k())))
        if in_frag:
            out.append(("rsv1-cont", frame(True, 0, b"zz", rsv=0x40, mask=k())))
    out.append(("ctl-fragmented", frame(False, rng.choice([8, 9, 10]), b"a", mask=k())))
    out.append(("ctl-oversized", frame(True, rng.choice([8, 9, 10]), b"q" * 126, mask=k())))
    out.append(("ctl-oversized-64", frame(True, 9, b"q" * 3, mask=k(), lenform=64)))
    if in_frag:
        op = rng.choice([1, 2])
        out.append(("data-inside-fragmented", frame(rng.random() < 0.5, op, b"new", mask=k())))
        out.append(("data3-inside-fragmented", frame(True, rng.randrange(3, 8), b"", mask=k())))
    else:
        out.append(("cont-without-start", frame(rng.random() < 0.5, 0, b"c", mask=k())))
        out.append(("unknown-data-opcode", frame(True, rng.randrange(3, 8), b"d", mask=k())))
    out.append(("unknown-ctl-opcode", frame(True, rng.randrange(0xB, 0x10), b"", mask=k())))
    bad_utf8 = rng.choice([b"\xff", b"ab\xc0\x80", b"\xed\xa0\x80", b"\xf4\x90\x80\x80", b"\xe2\x82", b"ok\x80"])
    if comp is None:
        if not in_frag:
            out.append(("bad-utf8", frame(True, 1, bad_utf8, mask=k())))
            out.append(("bad-utf8-fragmented", frame(False, 1, b"\xe2\x82", mask=k()) + frame(True, 0, b"\x28", mask=k())))
        elif frag_text:
            out.append(("bad-utf8-last-fragment", frame(True, 0, b"\xff", mask=k())))
    elif not in_frag and not comp[0]:
        # no context takeover: an independent deflate block does not disturb the peer's later messages
        z = zlib.compressobj(6, zlib.DEFLATED, -(comp[1] or 15), 8)
        d = (z.compress(bad_utf8) + z.flush(zlib.Z_SYNC_FLUSH))[:-4]
        out.append(("bad-utf8-deflated", frame(True, 1, d, rsv=0x40, mask=k())))
        out.append(("bad-deflate", frame(True, 2, b"\xff\xff\xff\xff\xff", rsv=0x40, mask=k())))
        big = b"A" * (maxsize + 1)
        z = zlib.compressobj(6, zlib.DEFLATED, -(comp[1] or 15), 8)
        d = (z.compress(big) + z.flush(zlib.Z_SYNC_FLUSH))[:-4]
        if len(d) <= maxsize:
            out.append(("too-big-after-inflate", frame(True, 2, d, rsv=0x40, mask=k())))
    if comp is not None and not in_frag:
        # compressed wire payload above the limit although it inflates to 2 bytes: too big BEFORE decompression
        d = bloated_deflate(b"ok", maxsize, comp[1] or 15)
        out.append(("too-big-wire-deflated", frame(True, 1, d, rsv=0x40, mask=k())))
        cut = len(d) // 2
        out.append(("too-big-wire-deflated-fragmented",
                    frame(False, 1, d[:cut], rsv=0x40, mask=k()) + frame(True, 9, b"", mask=k()) + frame(True, 0, d[cut:], mask=k())))
    # too big before decompression (only when no fragment is open: the open buffer length is then 0)
    if not in_frag:
        out.append(("too-big", frame(True, 2, b"B" * (maxsize + 1), rsv=0, mask=k())))
        out.append(("too-big-fragmented", frame(False, 2, b"B" * maxsize, mask=k()) + frame(True, 0, b"C", mask=k())))
        out.append(("too-big-declared-64", bytes([0x82, 127]) + struct.pack("!Q", 2 ** 63 + 5)))
    return out


def build(rng, comp, masked, shape, maxsize):
    """shape: list of ('m', nfrag, pings) | ('c',)"""
    sc = Script(rng, comp, masked, maxsize)
    for s in shape:
        if s[0] == "c":
            sc.add_control()
        else:
            n = rng.choice([0, 1, 3, 10, 40])
            n = min(n, maxsize // 4)
            m = [True, B.rand_text(rng, n // 2)] if rng.random() < 0.5 else [False, b2s(B.rand_bytes(rng, n))]
            sc.add_message(m, s[1], s[2])
    return sc


def mk_case(sc, comp, maxsize, pos, vname, vbytes, rng, eof=None, key=None):
    pre = sc.frames[:pos]
    post = sc.frames[pos:]
    before = [f[1] for f in pre if f[1] is not None]
    wire = b"".join(f[0] for f in pre) + vbytes + b"".join(f[0] for f in post)
    c = B.recv_case(None if comp is None else comp[0], wire, expect=None, max_=maxsize,
                    key=key, eof=rng.random() < 0.3 if eof is None else eof,
                    seg=B.rand_seg(rng, len(wire)) if len(wire) < 2000 else [1, 2, 3, 9, 14],
                    wbits=None if comp is None else comp[1], label=vname)
    c["before"] = before
    c["violated"] = vname != "none"
    c["pos"] = pos
    return c


def cases_for(rng, comp, masked, shape, maxsize, every_position=True, per_pos=None):
    out = []
    sc0 = build(rng, comp, masked, shape, maxsize)
    n = len(sc0.frames)
    out.append(mk_case(sc0, comp, maxsize, n, "none", b"", rng))
    positions = range(n + 1) if every_position else [rng.randrange(n + 1)]
    for pos in positions:
        in_frag = pos > 0 and sc0.frames[pos - 1][2]
        frag_text = bool(in_frag and sc0.frames[pos - 1][3])
        vs = violations(rng, comp, in_frag, frag_text, sc0.peer, maxsize)
        if per_pos is not None:
            vs = rng.sample(vs, min(per_pos, len(vs)))
        for name, vb in vs:
            # with context takeover the frames after the violation were compressed in sequence: they are
            # never inflated because the connection is gone, so reusing sc0 is sound
            out.append(mk_case(sc0, comp, maxsize, pos, name, vb, rng))
    return out


def limit_cases(rng):
    """messages of exactly max_message_size (delivered) and one byte more (cut off)"""
    out = []
    for L in (20, 125, 126, 300):
        for comp in (None, (False, None), (True, 10)):
            for size, viol in ((L, False), (L + 1, True)):
                for nfrag in (1, 2):
                    peer = B.Peer(rng, comp, True)
                    if comp is None:
                        m = [False, b2s(bytes(rng.randrange(256) for _ in range(size)))]
                    else:
                        m = [False, b2s(b"Z" * size)]      # compresses well below the limit
                    payload, rsv = peer.payload(m)
                    cut = len(payload) // 2
                    if nfrag == 1:
                        wire = frame(True, 2, payload, rsv=rsv, mask=peer.key())
                    else:
                        wire = (frame(False, 2, payload[:cut], rsv=rsv, mask=peer.key())
                                + frame(True, 9, b"pingpingping", mask=peer.key())
                                + frame(True, 0, payload[cut:], mask=peer.key()))
                    c = B.recv_case(None if comp is None else comp[0], wire, max_=L,
                                    wbits=None if comp is None else comp[1], label="limit+1" if viol else "limit")
                    c["before"] = [] if viol else [m]
                    c["violated"] = viol
                    c["pos"] = 0
                    out.append(c)
    # compressed WIRE length > limit >= inflated length: refused before decompression, nothing delivered,
    # a valid message before it is delivered, the valid message after it is not
    for L in (20, 125, 126, 300):
        for comp in ((False, None), (True, None), (False, 10)):
            for kind in ("padded", "incompressible"):
                for nfrag in (1, 2):
                    peer = B.Peer(rng, comp, True)
                    first = [True, "first"]
                    p1, r1 = peer.payload(first)
                    if kind == "padded":
                        d = bloated_deflate(b"ok", L, comp[1] or 15)
                    else:
                        raw = bytes(rng.randrange(256) for _ in range(L))      # exactly the limit once inflated
                        z = zlib.compressobj(6, zlib.DEFLATED, -(comp[1] or 15), 8)
                        d = (z.compress(raw) + z.flush(zlib.Z_SYNC_FLUSH))[:-4]
                        if len(d) <= L:
                            continue
                    cut = len(d) // 2
                    if nfrag == 1:
                        v = frame(True, 2, d, rsv=0x40, mask=peer.key())
                    else:
                        v = (frame(False, 2, d[:cut], rsv=0x40, mask=peer.key()) + frame(True, 9, b"pp", mask=peer.key())
                             + frame(True, 0, d[cut:], mask=peer.key()))
                    later = frame(True, 1, b"later", mask=peer.key())       # uncompressed (RSV1 clear): always decodable
                    wire = frame(True, 1, p1, rsv=r1, mask=peer.key()) + v + later
                    c = B.recv_case(comp[0], wire, max_=L, wbits=comp[1], seg=B.rand_seg(rng, len(wire)),
                                    label="wire-over-limit-" + kind)
                    c["before"] = [first]
                    c["violated"] = True
                    c["pos"] = 1
                    out.append(c)
    return out


SHAPES_QUICK = [
    [("m", 1, False)], [("m", 2, True)], [("m", 3, False), ("c",)], [("c",), ("m", 1, False), ("m", 2, True)],
    [("m", 1, False), ("m", 1, False), ("m", 2, False)],
]


def corpus_cases():
    # the witness of the defect fixed in 64e5f65: invalid DEFLATE data was not cut off
    k = b"\x01\x02\x03\x04"
    w = frame(True, 1, b"ok", mask=k) + frame(True, 1, b"\xff\xff\xff\xff\xff", rsv=0x40, mask=k) + frame(True, 1, b"later", mask=k)
    c = B.recv_case(False, w, label="corpus-bad-deflate")
    # "ok" is sent uncompressed (RSV1 clear) on a connection that negotiated deflate: allowed
    c["before"] = [[True, "ok"]]
    c["violated"] = True
    c["pos"] = 1
    return [c]


def gen_cases(rng, tier):
    out = []
    out += limit_cases(rng)
    comps = [None, (False, None), (True, None), (False, 9), (True, 12)]
    if tier == "quick":
        for shape in SHAPES_QUICK:
            for comp in comps:
                out += cases_for(rng, comp, rng.random() < 0.7, shape, rng.choice([64, 200]), every_position=True, per_pos=4)
    else:
        # every valid sequence of at most 5 frames over the alphabet {ctl, 1-frame msg, 2-frame msg, 3-frame msg}
        alphabet = [("c",), ("m", 1, False), ("m", 2, False), ("m", 2, True), ("m", 3, False)]
        cost = {("c",): 1, ("m", 1, False): 1, ("m", 2, False): 2, ("m", 2, True): 3, ("m", 3, False): 3}
        shapes = []
        for n in range(1, 4):
            for sh in itertools.product(alphabet, repeat=n):
                if sum(cost[s] for s in sh) <= 5:
                    shapes.append(list(sh))
        for shape in shapes:
            for comp in (None, (False, None)):
                out += cases_for(rng, comp, rng.random() < 0.7, shape, 64, every_position=True)
            out += cases_for(rng, (True, None), rng.random() < 0.7, shape, 64, every_position=True, per_pos=3)
        for _ in range(30):
            shape = [rng.choice(alphabet) for _ in range(rng.randrange(1, 6))]
            out += cases_for(rng, rng.choice(comps), rng.random() < 0.7, shape, rng.choice([32, 64, 500]), every_position=True, per_pos=5)
    # an unknown data opcode with FIN=0 is only refused when its message ends or another data frame arrives
    for comp in (None, (False, None)):
        sc = build(rng, comp, True, [("m", 1, False), ("m", 2, True)], 200)
        v = frame(False, rng.randrange(3, 8), b"junk", mask=sc.peer.key())
        for pos in (0, 1):
            out.append(mk_case(sc, comp, 200, pos, "unknown-data-opcode-unfinished", v, rng))
    return out


def nontrivial(case, obs):
    return (case["decomp"], case["max"], case["eof"], case["wire"])


def classify(case, obs):
    yield "violation=" + case.get("label", "?")
    yield "deflate=" + ("off" if case["decomp"] is None else "takeover" if case["decomp"] else "no_takeover")
    yield "position=%s" % ("start" if case.get("pos", 0) == 0 else "later")
    yield "delivered_before=%d" % len(case["before"])
    yield "outcome=" + (str(obs[0]) if isinstance(obs, list) and obs else "?")


def signature(case, obs):
    return "C15:" + case.get("label", "?")


def shrink(case):
    if case.get("seg"):
        yield dict(case, seg=[])
    if case.get("eof"):
        yield dict(case, eof=False)


TRUSTED_BASE = list(B.TRUSTED_BASE) + [
    "the violation catalogue of the generator (harness-side peer) is hand-written; the Coq catalogue `violation` is the one the theorems quantify over",
]
ASSUMPTIONS = ["zlib never returns the tape-only result ZOracle; inflate(deflate(m)) = m along the conforming prefix",
               "the receiver state before the violating frame is reachable by a conforming prefix (or satisfies the two stated invariants)"]
RULE = ("valid frame sequences (complete / fragmented messages with interleaved control frames, deflate off / with / without context takeover) "
        "x violation catalogue x every insertion position (thorough: every sequence of <= 5 frames over a 5-letter alphabet), "
        "plus messages of exactly max_message_size and one byte more, compressed and not; distinct by (config, wire)")
LEVEL_TEXT = ("Machine-checked (Coq) proofs on the receiver model shared with C14: every frame of the violation catalogue, in any live receiver state, "
              "aborts the connection and delivers nothing; after any conforming prefix (any fragmentation / interleaving, possibly ending inside a "
              "fragmented message) a violating frame followed by arbitrary frames ends with the connection aborted and exactly the messages completed "
              "before it delivered. The model is compared with the real WebSocketProtocol13 on every generated case and the property is "
              "checked on the implementation's own observable.")
LEVEL_NOTE = "Trusted: Coq kernel/vm_compute; zlib abstract; the correspondence harness."
TECHNIQUE = "Coq proofs (case analysis of _receive_frame/_handle_message per violation class, composition with the C14 reassembly invariant) + differential correspondence via vm_compute"
