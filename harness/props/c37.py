"""C37 — decorated generator coroutines behave like native coroutines.

Every case = (program from the bounded grammar, futures completed before the call, schedule of
future completions / single loop callbacks, drain budget).  The program is rendered to BOTH Python
forms (@gen.coroutine generator; async def run with asyncio.ensure_future), each is executed on its
own asyncio loop that is stepped ONE ready handle at a time by the harness, and the observable is,
for each form: final state of its future, its own side-effect trace, quiescence, and the
(trace length, ready-queue length) after every schedule event (hop-accurate tie to the model).
"""
import asyncio
import contextvars
import itertools
import logging
import sys
import warnings

from harness import gallina as G

ID = "C37"
COQ_DIRS = ["C37"]
PROPERTY_FILE = "C37/Property.v"
RUN_IMPORTS = "From TV Require Import C37.Model C37.Run."
RUN_FN = "run_case"
CHECK_FN = "check_case"
INPUT_TYPE = "input"

EXN = {"K": "EKey", "V": "EValue", "C": "ECancelled"}
EXN_PY = {"K": "KeyError", "V": "ValueError", "C": "asyncio.CancelledError"}
PAT = {"K": "(HClass EKey)", "V": "(HClass EValue)", "C": "(HClass ECancelled)", "E": "HException", "B": "HBase"}
PAT_PY = {"K": "KeyError", "V": "ValueError", "C": "asyncio.CancelledError", "E": "Exception", "B": "BaseException"}

CTX = contextvars.ContextVar("c37_ctx", default="unset")


# ----------------------------------------------------------------------------------------------
# rendering: program -> Python source (both forms) and -> Gallina
# ----------------------------------------------------------------------------------------------
def _yexp_py(y, form):
    k = y[0]
    if k == "fut":
        e = "F[%d]" % y[1]
    elif k == "list":
        e = "[" + ", ".join("F[%d]" % i for i in y[1]) + "]"
    elif k == "dict":
        e = "{" + ", ".join("%d: F[%d]" % (j, i) for j, i in enumerate(y[1])) + "}"
    elif k == "moment":
        e = "gen.moment"
    elif k == "none":
        e = "None"
    else:
        raise ValueError(y)
    if form == "dec":
        return "yield " + e
    if k in ("list", "dict"):
        return "await gen.multi(%s)" % e
    if k in ("moment", "none"):
        return "await asyncio.sleep(0)"
    return "await " + e


def _render(s, form, ind, inners):
    pad = "    " * ind
    k = s[0]
    if k == "skip":
        return [pad + "pass"]
    if k == "mark":
        return [pad + "T(%d)" % s[1]]
    if k == "yield":
        return [pad + "r = %s" % _yexp_py(s[1], form), pad + "G(r)"]
    if k == "call":
        name = "inner_%d" % len(inners)
        inners.append(None)
        idx = len(inners) - 1
        body = _render(s[1], "nat", 1, inners)      # a nested coroutine is always a native one
        inners[idx] = ["async def %s():" % name] + body
        return [pad + "r = %s %s()" % ("yield" if form == "dec" else "await", name), pad + "G(r)"]
    if k == "ret":
        return [pad + "return %d" % s[1]]
    if k == "raise":
        return [pad + "raise %s()" % EXN_PY[s[1]]]
    if k == "seq":
        return _render(s[1], form, ind, inners) + _render(s[2], form, ind, inners)
    if k == "tryx":
        return ([pad + "try:"] + _render(s[1], form, ind + 1, inners) +
                [pad + "except %s as e:" % PAT_PY[s[2]], pad + "    C(e)"] + _render(s[3], form, ind + 1, inners))
    if k == "tryf":
        return ([pad + "try:"] + _render(s[1], form, ind + 1, inners) +
                [pad + "finally:"] + _render(s[2], form, ind + 1, inners))
    if k == "vset":
        return [pad + "V.set(%d)" % s[1]]
    if k == "vget":
        return [pad + "R()"]
    if k == "withv":
        tok = "tok_%d" % ind           # unique along the nesting; siblings may reuse it (the old token is spent)
        return ([pad + "%s = V.set(%d)" % (tok, s[1]), pad + "try:"] + _render(s[2], form, ind + 1, inners) +
                [pad + "finally:", pad + "    V.reset(%s)" % tok])
    raise ValueError(s)


def source(prog, form, force_gen=False):
    inners = []
    body = _render(prog, form, 1, inners)
    out = []
    for d in inners:
        out += d
    if form == "dec":
        out += ["@gen.coroutine", "def main():"]
        if force_gen:
            out += ["    if 0: yield"]
    else:
        out += ["async def main():"]
    return "\n".join(out + body) + "\n"


def _yexp_coq(y):
    k = y[0]
    if k == "fut":
        return "(YFut %d)" % y[1]
    if k == "list":
        return "(YList %s)" % G.glist(["%d" % i for i in y[1]], "nat")
    if k == "dict":
        return "(YDict %s)" % G.glist(["%d" % i for i in y[1]], "nat")
    return {"moment": "YMoment", "none": "YNone"}[k]


def stmt_coq(s):
    k = s[0]
    if k == "skip":
        return "SSkip"
    if k == "mark":
        return "(SMark %d)" % s[1]
    if k == "yield":
        return "(SYield %s)" % _yexp_coq(s[1])
    if k == "call":
        return "(SCall %s)" % stmt_coq(s[1])
    if k == "ret":
        return "(SReturn %d)" % s[1]
    if k == "raise":
        return "(SRaise %s)" % EXN[s[1]]
    if k == "seq":
        return "(SSeq %s %s)" % (stmt_coq(s[1]), stmt_coq(s[2]))
    if k == "tryx":
        return "(STryExcept %s %s %s)" % (stmt_coq(s[1]), PAT[s[2]], stmt_coq(s[3]))
    if k == "tryf":
        return "(STryFinally %s %s)" % (stmt_coq(s[1]), stmt_coq(s[2]))
    if k == "vset":
        return "(SVarSet %d)" % s[1]
    if k == "vget":
        return "SVarGet"
    if k == "withv":
        return "(SWithVar %d %s)" % (s[1], stmt_coq(s[2]))
    raise ValueError(s)


def fout_coq(f):
    if f[0] == "res":
        return "(FRes %s)" % G.gz(f[1])
    if f[0] == "exc":
        return "(FExc %s)" % EXN[f[1]]
    return "FCancel"


def coq_input(case):
    pre = G.glist(["(%d, %s)" % (i, fout_coq(f)) for i, f in case["pre"]], "(nat * fout)")
    ev = G.glist(["EvTick" if e[0] == "tick" else "(EvDone %d %s)" % (e[1], fout_coq(e[2])) for e in case["sched"]], "event")
    return "(%s, %s, %s, %d)" % (stmt_coq(case["prog"]), pre, ev, case["fuel"])


# ----------------------------------------------------------------------------------------------
# running the real code
# ----------------------------------------------------------------------------------------------
def _futs_of(s, acc):
    k = s[0]
    if k == "yield":
        y = s[1]
        if y[0] == "fut":
            acc.add(y[1])
        elif y[0] in ("list", "dict"):
            acc.update(y[1])
    elif k == "call":
        _futs_of(s[1], acc)
    elif k == "seq":
        _futs_of(s[1], acc), _futs_of(s[2], acc)
    elif k == "tryx":
        _futs_of(s[1], acc), _futs_of(s[3], acc)
    elif k == "tryf":
        _futs_of(s[1], acc), _futs_of(s[2], acc)
    elif k == "withv":
        _futs_of(s[2], acc)
    return acc


def has_var_write(s):
    return s[0] in ("vset", "withv") or any(has_var_write(x) for x in s[1:] if isinstance(x, list) and x and x[0] in STMT_TAGS)


STMT_TAGS = ("skip", "mark", "yield", "call", "ret", "raise", "seq", "tryx", "tryf", "vset", "vget", "withv")


def _canon(v):
    if v is None or isinstance(v, bool):
        return v
    if isinstance(v, int):
        return v
    if isinstance(v, list):
        return [_canon(x) for x in v]
    if isinstance(v, dict):
        return [[_canon(k), _canon(x)] for k, x in v.items()]
    return G.Tag("unexpected-" + type(v).__name__)


def _exc_tag(e):
    return G.Tag(type(e).__name__)


def _complete(fut, f):
    if fut.done():
        return
    if f[0] == "res":
        fut.set_result(f[1])
    elif f[0] == "exc":
        fut.set_exception({"K": KeyError, "V": ValueError, "C": asyncio.CancelledError}[f[1]]())
    else:
        fut.cancel()


_code_cache = {}


def run_form(case, form):
    from tornado import gen
    prog = case["prog"]
    nf = max([-1] + list(_futs_of(prog, set())) + [i for i, _ in case["pre"]] +
             [e[1] for e in case["sched"] if e[0] == "done"]) + 1
    key = (form, case.get("force_gen", False), repr(prog))
    code = _code_cache.get(key)
    if code is None:
        code = compile(source(prog, form, case.get("force_gen", False)), "<c37-%s>" % form, "exec")
        if len(_code_cache) > 5000:
            _code_cache.clear()
        _code_cache[key] = code
    loop = asyncio.new_event_loop()
    loop.set_exception_handler(lambda *a: None)     # "never retrieved" / "destroyed but pending" reports
    keep = []
    trace = []
    ctx_ok = [True]
    token = object()
    check_ctx = not has_var_write(prog)     # bodies that do not write V must see the caller's value everywhere

    def R():
        v = CTX.get()
        trace.append([G.Tag("var"), G.Tag("caller") if v is token else v if isinstance(v, int) else G.Tag("unexpected-" + type(v).__name__)])

    def T(n):
        if check_ctx and CTX.get() is not token:
            ctx_ok[0] = False
        trace.append(n)

    def Gf(r):
        if check_ctx and CTX.get() is not token:
            ctx_ok[0] = False
        trace.append([G.Tag("got"), _canon(r)])

    def C(e):
        if check_ctx and CTX.get() is not token:
            ctx_ok[0] = False
        trace.append([G.Tag("caught"), _exc_tag(e)])

    def snap():
        return [len(trace), len(loop._ready)]

    def tick():
        if loop._ready:
            h = loop._ready.popleft()
            if not h._cancelled:
                h._run()

    asyncio._set_running_loop(loop)
    try:
        F = [loop.create_future() for _ in range(nf)]
        for i, f in case["pre"]:
            _complete(F[i], f)
        ns = {"F": F, "T": T, "G": Gf, "C": C, "R": R, "V": CTX, "gen": gen, "asyncio": asyncio}
        exec(code, ns)
        raised = None
        fut = None
        tok = CTX.set(token)            # the caller's context variable ...
        try:
            if form == "dec":
                try:
                    fut = ns["main"]()
                except asyncio.CancelledError as e:
                    raised = e
                    keep.append(e)      # keep the frames (and the suspended generator) alive
            else:
                fut = asyncio.ensure_future(ns["main"]())
        finally:
            CTX.reset(tok)              # ... is gone again when the loop later resumes the coroutine
        snaps = [snap()]
        for e in case["sched"]:
            if e[0] == "tick":
                tick()
            else:
                _complete(F[e[1]], e[2])
            snaps.append(snap())
        n = case["fuel"]
        while n > 0 and loop._ready:
            tick()
            n -= 1
        if raised is not None:
            status = G.Tag("call-raised-" + type(raised).__name__)
        elif not fut.done():
            status = G.Tag("pending")
        elif fut.cancelled():
            status = [G.Tag("exc"), G.Tag("CancelledError")]
        elif fut.exception() is not None:
            status = [G.Tag("exc"), _exc_tag(fut.exception())]
        else:
            status = [G.Tag("result"), _canon(fut.result())]
        obs = [status, list(trace), not loop._ready, snaps, ctx_ok[0]]
        keep.append(fut)
        return obs
    finally:
        asyncio._set_running_loop(None)
        try:
            loop.close()
        except Exception:
            pass


def _quiet_hook(*a):
    pass


def run_impl(case):
    old = (logging.root.manager.disable,)
    logging.disable(logging.CRITICAL)       # "Multiple exceptions in yield list" etc.
    sys.unraisablehook = _quiet_hook        # unfinished coroutines are closed by the GC after the case
    try:
        with warnings.catch_warnings():
            warnings.simplefilter("ignore")          # "coroutine ... was never awaited" for unfinished cases
            return [run_form(case, "dec"), run_form(case, "nat")]
    finally:
        logging.disable(old[0])


def py_check(case, o):
    """independent oracle: both forms drained, equal status and trace, context visible"""
    try:
        d, n = o
        return (d[2] is True and n[2] is True and d[4] is True and n[4] is True
                and d[0] == n[0] and d[1] == n[1]
                and type(d[0]) is type(n[0]))
    except Exception:
        return False


# ----------------------------------------------------------------------------------------------
# generation
# ----------------------------------------------------------------------------------------------
def mk(prog, pre, sched, fuel=200, force_gen=False):
    return {"prog": prog, "pre": [list(x) for x in pre], "sched": [list(x) for x in sched], "fuel": fuel,
            "force_gen": force_gen}


def seq(*ss):
    ss = list(ss)
    if not ss:
        return ["skip"]
    out = ss[-1]
    for s in reversed(ss[:-1]):
        out = ["seq", s, out]
    return out


def rand_fout(rng, cancel=True):
    r = rng.random()
    if r < 0.5:
        return ["res", rng.choice([0, 1, 7, -3, 42])]
    if r < 0.8 or not cancel:
        return ["exc", rng.choice(["K", "V"])]
    if r < 0.97:
        return ["cancel"]
    return ["exc", "C"]       # set_exception(CancelledError())


def rand_yexp(rng, nf):
    r = rng.random()
    if r < 0.45:
        return ["fut", rng.randrange(nf)]
    if r < 0.65:
        return ["list", [rng.randrange(nf) for _ in range(rng.choice([0, 1, 2, 2, 3]))]]
    if r < 0.8:
        return ["dict", [rng.randrange(nf) for _ in range(rng.choice([0, 1, 2, 3]))]]
    if r < 0.9:
        return ["moment"]
    return ["none"]


def rand_stmt(rng, nf, depth, marks, allow_raise_cancel=False, nested=False):
    rec = lambda: rand_stmt(rng, nf, depth - 1, marks, allow_raise_cancel, nested)   # noqa: E731
    r = rng.random()
    if depth <= 0 or r < 0.30:
        q = rng.random()
        if q < 0.45:
            return ["yield", rand_yexp(rng, nf)]
        if q < 0.60:
            marks[0] += 1
            return ["mark", marks[0]]
        if q < 0.70:
            return ["raise", rng.choice(["K", "V", "C"] if allow_raise_cancel else ["K", "V"])]
        if q < 0.77:
            return ["ret", rng.choice([0, 5, 9])]
        if q < 0.89:
            return ["vget"]
        if q < 0.97 and not nested:       # an unbalanced V.set() inside a nested coroutine is outside the grammar (NOTES)
            return ["vset", rng.choice([1, 2, 3])]
        return ["skip"]
    if r < 0.52:
        return ["seq", rec(), rec()]
    if r < 0.67:
        return ["tryx", rec(), rng.choice(["K", "V", "C", "E", "E", "B", "B"]), rec()]
    if r < 0.80:
        return ["tryf", rec(), rec()]
    if r < 0.88:
        return ["withv", rng.choice([4, 5, 6]), rec()]
    # a nested native coroutine may raise CancelledError itself: its task ends cancelled
    return ["call", rand_stmt(rng, nf, depth - 1, marks, True, True)]


def first_is_yield(s):
    """True if the body certainly reaches a yield before it can raise (conservative)."""
    k = s[0]
    if k in ("yield", "call"):
        return True
    if k == "seq":
        return first_is_yield(s[1]) or (s[1][0] in ("mark", "skip") and first_is_yield(s[2]))
    if k in ("tryx", "tryf"):
        return first_is_yield(s[1])
    return False


def has_outer_raise_cancel(s):
    k = s[0]
    if k == "raise":
        return s[1] == "C"
    if k == "seq":
        return has_outer_raise_cancel(s[1]) or has_outer_raise_cancel(s[2])
    if k == "tryx":
        return has_outer_raise_cancel(s[1]) or has_outer_raise_cancel(s[3])
    if k == "tryf":
        return has_outer_raise_cancel(s[1]) or has_outer_raise_cancel(s[2])
    if k == "withv":
        return has_outer_raise_cancel(s[2])
    return False


def rand_sched(rng, nf, tick_p=0.5, complete_all=True):
    pre = []
    pending = list(range(nf))
    rng.shuffle(pending)
    for i in list(pending):
        if rng.random() < 0.2:
            pre.append([i, rand_fout(rng)])
            pending.remove(i)
    sched = []
    left = [i for i in pending if complete_all or rng.random() < 0.7]
    while left:
        if rng.random() < tick_p:
            sched.append(["tick"])
        else:
            i = left.pop()
            sched.append(["done", i, rand_fout(rng)])
            if rng.random() < 0.05:
                sched.append(["done", i, rand_fout(rng)])      # refused second completion
    for _ in range(rng.choice([0, 0, 1, 3])):
        sched.append(["tick"])
    return pre, sched


def rand_case(rng, depth=None):
    nf = rng.choice([1, 2, 2, 3, 3, 4])
    marks = [0]
    depth = depth if depth is not None else rng.choice([1, 2, 3, 3, 4])
    prog = rand_stmt(rng, nf, depth, marks, allow_raise_cancel=(rng.random() < 0.3))
    tp = rng.choice([0.2, 0.5, 0.7, 0.85])
    pre, sched = rand_sched(rng, nf, tp, complete_all=rng.random() < 0.85)
    return mk(prog, pre, sched, 200, force_gen=rng.random() < 0.3 or has_outer_raise_cancel(prog))


WITNESS_CANCEL = ["tryf", ["tryx", ["seq", ["mark", 1], ["yield", ["fut", 0]]], "B", ["skip"]], ["seq", ["mark", 2], ["ret", 5]]]


def corpus_cases():
    out = []
    # the former defect (fixed by b6a1816): the yielded future is cancelled while pending / is already cancelled
    out.append(mk(WITNESS_CANCEL, [], [["done", 0, ["cancel"]]]))
    out.append(mk(WITNESS_CANCEL, [[0, ["cancel"]]], []))
    out.append(mk(["yield", ["fut", 0]], [], [["tick"], ["done", 0, ["cancel"]], ["tick"]]))
    out.append(mk(["yield", ["list", [0, 1]]], [], [["done", 1, ["res", 1]], ["done", 0, ["cancel"]]]))
    out.append(mk(["call", ["yield", ["fut", 0]]], [], [["tick"], ["done", 0, ["cancel"]]]))
    out.append(mk(seq(["yield", ["moment"]], ["raise", "C"]), [], []))
    # second former defect (fixed by ace54d0): the generator raises CancelledError before its first yield
    out.append(mk(["raise", "C"], [], [], force_gen=True))
    out.append(mk(seq(["mark", 1], ["tryf", ["raise", "C"], ["mark", 2]]), [], [["tick"]], force_gen=True))
    # plain ones
    out.append(mk(seq(["mark", 1], ["ret", 5]), [], []))
    out.append(mk(seq(["mark", 1], ["ret", 5]), [], [], force_gen=True))
    out.append(mk(["raise", "K"], [], []))
    out.append(mk(["yield", ["list", []]], [], []))
    # seeded change C37_3: V.set after a resume from a pending future, then a moment; token reset across a pending yield
    out.append(mk(seq(["vget"], ["yield", ["fut", 0]], ["vget"], ["vset", 2], ["vget"], ["yield", ["none"]], ["vget"]),
                  [], [["tick"], ["done", 0, ["res", 7]], ["tick"], ["tick"]], force_gen=True))
    out.append(mk(seq(["withv", 1, seq(["yield", ["fut", 0]], ["vget"])], ["vget"]), [], [["done", 0, ["res", 7]]], force_gen=True))
    out.append(mk(["yield", ["dict", [0, 0, 1]]], [[1, ["res", 3]]], [["done", 0, ["res", 4]]]))
    out.append(mk(["tryf", ["yield", ["fut", 0]], ["seq", ["yield", ["none"]], ["ret", 9]]], [], [["done", 0, ["exc", "V"]]]))
    return out


ATOMS = [["yield", ["fut", 0]], ["yield", ["fut", 1]], ["yield", ["list", [0, 1]]], ["yield", ["dict", [1, 0]]],
         ["yield", ["list", [0, 0]]], ["yield", ["moment"]], ["call", ["yield", ["fut", 0]]],
         ["call", seq(["yield", ["fut", 1]], ["raise", "C"])], ["mark", 1], ["raise", "V"], ["ret", 5],
         ["vset", 2], ["withv", 4, ["vget"]]]
WRAPS = [lambda a, b: ["seq", a, b],
         lambda a, b: ["tryx", a, "E", b],
         lambda a, b: ["tryx", a, "B", b],
         lambda a, b: ["tryf", a, b],
         lambda a, b: ["call", ["seq", a, b]]]
OUTS = [["res", 7], ["exc", "K"], ["cancel"]]


def orders2(max_ticks):
    """all schedules for two futures: each done before the call or at a position among <= max_ticks ticks"""
    for o0, o1 in itertools.product(OUTS, OUTS):
        for first in (0, 1):
            a, b = (0, o0), (1, o1)
            if first == 1:
                a, b = b, a
            for t0 in range(-1, max_ticks + 1):          # -1: completed before the call
                for t1 in range(max(t0, 0), max_ticks + 1):
                    pre = []
                    sched = []
                    if t0 < 0:
                        pre.append([a[0], a[1]])
                    for t in range(max_ticks + 1):
                        if t0 == t:
                            sched.append(["done", a[0], a[1]])
                        if t1 == t:
                            sched.append(["done", b[0], b[1]])
                        if t < max_ticks:
                            sched.append(["tick"])
                    yield pre, sched


CTXS = [
    lambda h: h,
    lambda h: ["seq", ["mark", 1], ["seq", h, ["mark", 2]]],
    lambda h: ["tryx", h, "C", ["mark", 3]],
    lambda h: ["tryx", h, "E", ["seq", ["yield", ["moment"]], ["ret", 9]]],
    lambda h: ["tryf", h, ["seq", ["mark", 4], ["yield", ["none"]]]],
    lambda h: ["tryf", ["tryx", ["seq", ["mark", 1], h], "B", ["raise", "V"]], ["mark", 5]],
    lambda h: ["tryx", ["raise", "K"], "K", ["tryf", h, ["ret", 5]]],
    lambda h: ["tryf", ["mark", 1], ["tryx", h, "C", ["skip"]]],
    lambda h: ["call", ["tryf", h, ["mark", 6]]],
    lambda h: ["tryx", ["call", ["seq", ["yield", ["fut", 1]], h]], "B", ["mark", 7]],
]


def family_cases(rng):
    """cases aimed at C37_failed_or_cancelled_await_is_raise (both sides of the theorem, for a failed and for a
    cancelled future, pending or already done) and at C37_fast_path (bodies that never yield)"""
    out = []
    for cx in CTXS:
        for f, e in ((["exc", "K"], "K"), (["cancel"], "C"), (["exc", "C"], "C")):
            other = [1, ["res", 3]]
            out.append(mk(cx(["yield", ["fut", 0]]), [other], [["tick"], ["done", 0, f], ["tick"]], force_gen=True))
            out.append(mk(cx(["yield", ["fut", 0]]), [[0, f], other], [], force_gen=True))
            out.append(mk(cx(["raise", e]), [other], [["tick"], ["done", 0, f], ["tick"]], force_gen=True))
    # context variable across a resume from a PENDING future followed by a moment/None yield (seeded C37_3)
    for wait in (["yield", ["fut", 0]], ["yield", ["list", [0, 1]]], ["yield", ["dict", [0]]], ["call", ["yield", ["fut", 0]]]):
        for hop in (["yield", ["none"]], ["yield", ["moment"]], ["yield", ["fut", 1]], ["call", ["vget"]]):
            progs = [
                seq(["vget"], wait, ["vget"], ["vset", 2], ["vget"], hop, ["vget"]),
                seq(["vset", 1], wait, ["vset", 2], hop, ["vget"], hop, ["vget"]),
                seq(["withv", 4, seq(["vget"], wait, ["vget"])], ["vget"]),
                seq(["withv", 4, seq(wait, ["withv", 5, seq(hop, ["vget"])], ["vget"])], hop, ["vget"]),
                ["tryf", ["withv", 4, seq(wait, ["vset", 3], hop, ["raise", "K"])], ["vget"]],
            ]
            for p in progs:
                out.append(mk(p, [], [["tick"], ["done", 0, ["res", 7]], ["tick"], ["done", 1, ["res", 8]]], force_gen=True))
                out.append(mk(p, [[1, ["res", 8]]], [["done", 0, ["cancel"]]], force_gen=True))
    for _ in range(40):
        marks = [0]

        def ny(d):
            r = rng.random()
            if d <= 0 or r < 0.3:
                q = rng.random()
                if q < 0.4:
                    marks[0] += 1
                    return ["mark", marks[0]]
                if q < 0.6:
                    return ["raise", rng.choice(["K", "V", "C"])]
                if q < 0.75:
                    return ["ret", rng.choice([0, 5])]
                if q < 0.85:
                    return ["vget"]
                if q < 0.95:
                    return ["vset", rng.choice([1, 2])]
                return ["skip"]
            if r < 0.55:
                return ["seq", ny(d - 1), ny(d - 1)]
            if r < 0.8:
                return ["tryx", ny(d - 1), rng.choice(["K", "V", "C", "E", "B"]), ny(d - 1)]
            return ["tryf", ny(d - 1), ny(d - 1)]
        p = ny(3)
        out.append(mk(p, [], [["tick"]] if rng.random() < 0.5 else [], force_gen=has_outer_raise_cancel(p) or rng.random() < 0.5))
    return out


def gen_cases(rng, tier):
    out = []
    if tier == "quick":
        n_rand, n_small = 700, 400
    elif tier == "thorough":
        n_rand, n_small = 5000, 0
    else:   # search
        n_rand, n_small = 1500, 300
    for _ in range(n_rand):
        out.append(rand_case(rng))
    out += family_cases(rng)
    small = []
    for a in ATOMS:
        for b in ATOMS:
            for w in WRAPS:
                p = w(a, b)
                if p[0] == "call" and (a[0] == "vset" or b[0] == "vset"):
                    continue            # unbalanced V.set() inside a nested coroutine: outside the grammar
                small.append(["seq", p, ["vget"]] if (a[0] in ("vset", "withv") or b[0] in ("vset", "withv")) else p)
    if tier == "thorough":
        # EXHAUSTIVE small scope: every 2-atom program over the 8 core atoms (5 combinators: 320 programs)
        # x every outcome pair in {result, exception, cancel}^2 x every completion order / timing
        # (before the call, before or after the single tick): 90 schedules
        scheds1 = list(orders2(1))
        for a in ATOMS[:8]:
            for b in ATOMS[:8]:
                for w in WRAPS:
                    p = w(a, b)
                    for j, (pre, sched) in enumerate(scheds1):
                        out.append(mk(p, pre, sched, 200, force_gen=(j % 2 == 0)))
        # larger scope (13 atoms, <= 3 ticks: about 840 programs x 252 schedules), every 16th pairing
        scheds = list(orders2(3))
        for k, p in enumerate(small):
            for j, (pre, sched) in enumerate(scheds):
                if (k + j) % 16 == 0:
                    out.append(mk(p, pre, sched, 200, force_gen=(j % 2 == 0)))
    else:
        scheds = list(orders2(2))
        for _ in range(n_small):
            p = rng.choice(small)
            pre, sched = rng.choice(scheds)
            out.append(mk(p, pre, sched, 200))
    # malformed stream: schedules that refer to futures the program never awaits, repeated completions
    for _ in range(30):
        c = rand_case(rng, depth=2)
        c["sched"] = c["sched"] + [["done", rng.randrange(6), rand_fout(rng)] for _ in range(3)]
        out.append(c)
    return out


HAS_SEARCH_TIER = True


def _size(s):
    return 1 + sum(_size(x) for x in s[1:] if isinstance(x, list) and x and isinstance(x[0], str) and x[0] in STMT_TAGS)


def shrink(case):
    p = case["prog"]
    k = p[0]
    subs = []
    if k == "seq":
        subs = [p[1], p[2]]
    elif k == "tryx":
        subs = [p[1], p[3]]
    elif k == "tryf":
        subs = [p[1], p[2]]
    elif k == "call":
        subs = [p[1]]
    elif k == "withv":
        subs = [p[2]]
    for s in subs:
        yield dict(case, prog=s)
    sc = case["sched"]
    for i in range(len(sc)):
        yield dict(case, sched=sc[:i] + sc[i + 1:])
    if case["pre"]:
        yield dict(case, pre=case["pre"][1:])
    # shrink inside: replace one child by skip
    if k in ("seq", "tryf"):
        yield dict(case, prog=[k, ["skip"], p[2]])
        yield dict(case, prog=[k, p[1], ["skip"]])
    if k == "tryx":
        yield dict(case, prog=[k, p[1], p[2], ["skip"]])


def nontrivial(case, o):
    if case["prog"][0] in ("skip", "mark", "ret"):
        return None
    return (repr(case["prog"]), repr(case["pre"]), repr(case["sched"]), case["fuel"])


def _kinds(s, acc):
    acc.add(s[0] if s[0] != "yield" else "yield-" + s[1][0])
    for x in s[1:]:
        if isinstance(x, list) and x and isinstance(x[0], str) and x[0] in STMT_TAGS:
            _kinds(x, acc)
    return acc


def classify(case, o):
    for k in sorted(_kinds(case["prog"], set())):
        yield "has=" + k
    yield "size=%d" % min(_size(case["prog"]), 12)
    try:
        st = o[0][0]
        yield "status=" + (str(st) if isinstance(st, G.Tag) else str(st[0]) + ("-" + str(st[1]) if st[0] == "exc" else ""))
        yield "quiescent=%s" % (o[0][2] and o[1][2])
    except Exception:
        yield "status=?"
    outs = [e[2][0] + (":C" if e[2][0] == "exc" and e[2][1] == "C" else "") for e in case["sched"] if e[0] == "done"] + [f[0] for _, f in case["pre"]]
    for x in sorted(set(outs)):
        yield "completion=" + x
    yield "pre=%d" % len(case["pre"])


def signature(case, o):
    try:
        if isinstance(o[0][0], G.Tag) and str(o[0][0]).startswith("call-raised"):
            return "raise-cancel-first-iteration"
        if o[0][0] == G.Tag("pending") and o[1][0] != G.Tag("pending"):
            return "decorated-hangs"
    except Exception:
        pass
    return "forms-differ"


TRUSTED_BASE = [
    "CPython generator/coroutine objects (send/throw, try/except/finally unwinding, PEP 380 delegation in `await`) are modelled by the resumption tree `denote`, not verified",
    "asyncio.Future / Task.__step / __wakeup / call_soon FIFO as summarised at the top of coq/C37/Model.v; the harness steps loop._ready one handle at a time (asyncio private attribute) so that the tie is hop-accurate",
    "the context variable is modelled as state of the body (one context for the coroutine's whole life); asyncio's copy of the context per registered callback is not an explicit part of the model, its consequence (every set/read/reset across every kind of resume) is compared with the real forms on every case",
]
ASSUMPTIONS = [
    "programs come from the bounded grammar of coq/C37/Model.v (stmt); nested coroutines are native; the decorated function is a generator function (a plain function under gen.coroutine is outside the property)",
    "both forms are compared once their loop's ready queue is empty; that this always happens after finitely many ticks is proved (C37_no_livelock, explicit bound C37_no_livelock_bound); each generated case uses a 200-tick budget and reports whether it drained",
]
RULE = ("random programs (depth <= 4, <= 4 futures) x random schedules of completions (result / exception / cancel / already done / never) and single-callback ticks; "
        "context x failed/cancelled-await families and no-yield (fast path) bodies; "
        "thorough adds, EXHAUSTIVELY, every 2-atom program over 8 atoms x 5 combinators x every outcome pair x every completion order/timing around one tick (28800 cases) "
        "and every 16th pairing of the larger scope (13 atoms incl. V.set / V.reset, <= 3 ticks); "
        "distinct by (program, pre, schedule, fuel); non-trivial = program contains a yield, raise or try")
LEVEL_TEXT = ("Machine-checked (Coq) proof that, for every program of the grammar and every schedule of future completions/cancellations and "
              "single loop callbacks, the gen.coroutine wrapper + Runner and an asyncio Task driving the same body reach, at quiescence, the same "
              "final future state and the same own side-effect trace: both equal a schedule-independent reference semantics of the body; quiescence is always "
              "reached after finitely many callbacks (no livelock, explicit potential bound), so the equivalence also holds unconditionally 'eventually'. "
              "The event-loop/Runner/Task/multi model is tied to the real code hop by hop (trace and ready-queue lengths after every event).")
LEVEL_NOTE = "Trusted: Coq kernel/vm_compute; the generator-object model (resumption trees); asyncio internals as modelled; correspondence harness."
TECHNIQUE = "Coq proof (simulation invariant against a reference semantics, induction over schedules and resumption trees) + differential correspondence via vm_compute"
