"""C12 — IOStream writes deliver every byte once, in order, and resolve in order.

Two kinds of cases:
  kind "s": a BaseIOStream over a scripted transport (harness.fake_iostream) driven by a
            sequence of write()/WRITE-ready/close() operations; the observable is the linear
            trace of everything that happened (writes accepted/refused, every write_to_fd
            call with the offered size and the accepted bytes, futures settling, a snapshot
            of the internal counters and buffer layout after every operation).
  kind "b": tornado.iostream._StreamBuffer driven directly by append/advance/peek sequences.
"""
import array
import asyncio
import errno
import itertools
import logging

from harness import gallina as G
from harness.gallina import Tag

ID = "C12"
COQ_DIRS = ["C12"]
PROPERTY_FILE = "C12/Property.v"
RUN_IMPORTS = "From TV Require Import C12.Model C12.Run."
RUN_FN = "run_case"
CHECK_FN = "check_case"
INPUT_TYPE = "c12_case"

REAL_THR = 2048


# ----------------------------------------------------------------------------------------
# implementation runner
# ----------------------------------------------------------------------------------------
def _mk_data(kind, raw):
    """bytes or one of several memoryview flavours over the same content"""
    if kind == 1:
        return memoryview(raw)
    if kind == 2:   # view with an offset into a larger object
        return memoryview(b"\xee\xee\xee" + raw + b"\xdd")[3:-1]
    if kind == 3 and len(raw) % 2 == 0 and raw:   # items wider than a byte: len(view) != nbytes
        return memoryview(array.array("H", raw))
    if kind == 4:   # view over a mutable bytearray
        return memoryview(bytearray(raw))
    if kind in (3, 4):
        return memoryview(raw)
    return raw


def _run_stream(case):
    from tornado.ioloop import IOLoop
    from tornado.iostream import IOStream, StreamBufferFullError, StreamClosedError
    from harness.fake_iostream import FakeIOStream, Err
    from harness.vclock import run_virtual, settle

    logging.getLogger("tornado.general").setLevel(logging.CRITICAL)
    # write() registers `lambda f: f.exception()` on each future; on a cancelled future that callback raises
    # CancelledError, which asyncio reports through the loop's exception handler (log noise only)
    logging.getLogger("asyncio").setLevel(logging.CRITICAL)

    events = []
    futs = []
    reported = []
    order = []

    cfut = []

    def poll_connect():
        if cfut and cfut[0] is not None and cfut[0].done():
            f = cfut[0]
            cfut[0] = None
            e = None if f.cancelled() else f.exception()
            if f.cancelled():
                events.append(Tag("conn-cancelled"))
            elif e is None:
                events.append(Tag("connected"))
            elif isinstance(e, StreamClosedError):
                events.append(Tag("connfail"))
            else:
                events.append(Tag("conn-weird"))

    def poll():
        _poll_writes()
        poll_connect()

    def _poll_writes():
        for i, f in enumerate(futs):
            if not reported[i] and f.done():
                reported[i] = True
                if f.cancelled():
                    continue        # the caller's cancel() was already recorded
                e = f.exception()
                if e is None:
                    events.append([Tag("ok"), i])
                elif isinstance(e, StreamClosedError):
                    events.append([Tag("fail"), i])
                else:
                    events.append([Tag("weird"), i])

    class _Sock:
        """what IOStream.connect/_handle_connect need from a non-blocking socket"""

        def __init__(self, ok):
            self.ok = ok

        def connect(self, address):
            raise BlockingIOError(errno.EINPROGRESS, "scripted EINPROGRESS")

        def getsockopt(self, level, opt):
            return 0 if self.ok else errno.ECONNREFUSED

        def fileno(self):
            return -1

    class S(FakeIOStream):
        # the real client-side connect path of IOStream, over the scripted socket
        connect = IOStream.connect
        _handle_connect = IOStream._handle_connect

        def _handle_write(self):
            poll_connect()      # _handle_events runs _handle_connect just before _handle_write
            super()._handle_write()

        def write_to_fd(self, data):
            poll()
            offered = len(data)
            before = len(self.sent)
            try:
                k = super().write_to_fd(data)
            except BlockingIOError:
                events.append([Tag("block"), offered])
                raise
            except OSError:
                events.append([Tag("errno"), offered])
                raise
            finally:
                del data
            events.append([Tag("send"), offered, bytes(self.sent[before:])])
            return k

    import collections
    holder = {}

    class _FutList(collections.deque):
        """write() appends (index, future) to _write_futures right after accepting the data and
        before calling _handle_write: the "write accepted" event is recorded at that point so that
        it precedes the sends of the same call."""

        def append(self, item):
            i = len(futs)
            futs.append(item[1])
            reported.append(False)
            item[1].add_done_callback(lambda f, i=i: order.append(i))
            events.append([Tag("write"), i, holder["raw"]])
            collections.deque.append(self, item)

        def popleft(self):
            """_handle_write dequeues a future just before future_set_result_unless_cancelled: report
            the resolutions so far, then record a cancelled future being skipped."""
            item = collections.deque.popleft(self)
            _poll_writes()
            if item[1].cancelled():
                events.append([Tag("skip"), futs.index(item[1])])
            return item

    async def scenario(loop):
        s = S(max_write_buffer_size=case["max"])
        s._write_futures = _FutList()
        if case["thr"] != REAL_THR:
            s._write_buffer._large_buf_threshold = case["thr"]
        for st in case["script"]:
            s.send_script.append("block" if st == "b" else Err() if st == "e" else int(st))
        if case.get("conn") is not None:
            s.socket = _Sock(case["conn"])
            cfut.append(s.connect(("192.0.2.1", 9)))
            cfut[0].add_done_callback(lambda f: f.cancelled() or f.exception())
            events.append(Tag("connect"))

        def snap():
            if s.closed():
                events.append(Tag("st-closed"))
                return
            wb = s._write_buffer
            events.append([Tag("st"), len(wb), s._total_write_index, s._total_write_done_index,
                           bool(s._state is not None and s._state & IOLoop.WRITE), wb._first_pos,
                           [[bool(m), len(b)] for m, b in wb._buffers]])

        for o in case["ops"]:
            try:
                if o[0] == "w":
                    raw = o[2].encode("latin-1")
                    try:
                        holder["raw"] = raw
                        s.write(_mk_data(o[1], raw))
                    except StreamBufferFullError:
                        events.append(Tag("full"))
                    except StreamClosedError:
                        events.append(Tag("closed"))
                elif o[0] == "x":
                    if o[1] < len(futs) and futs[o[1]].cancel():
                        events.append([Tag("cancel"), o[1]])
                    else:
                        events.append([Tag("cancelno"), o[1]])
                elif o[0] == "r":
                    deliver = (not s.closed()) and s._state is not None and bool(s._state & IOLoop.WRITE)
                    events.append([Tag("ready"), deliver])
                    if deliver:
                        s._handle_events(s.fileno(), IOLoop.WRITE)
                else:
                    events.append(Tag("close"))
                    s.close()
            except AssertionError:
                poll()
                events.append(Tag("assert"))
                break
            poll()
            snap()
        await settle(3)
        return None

    run_virtual(scenario)
    return [events, order]


def _digest(b):
    i = a = c = 0
    for x in b:
        i += 1
        a = (a + x) % 65521
        c = (c + i * x) % 65521
    return [i, a, c]


def _pat(start, n):
    return bytes((start + i) % 251 for i in range(n))


def _run_buf(case):
    from tornado.iostream import _StreamBuffer
    b = _StreamBuffer()
    if case["thr"] != REAL_THR:
        b._large_buf_threshold = case["thr"]
    out = []

    def snap():
        return [len(b), b._first_pos, [[bool(m), len(x)] for m, x in b._buffers]]

    for o in case["ops"]:
        if o[0] == "a":
            # BaseIOStream.write casts views to format "B" before appending; wide-item views are
            # therefore only meaningful through write() (kind 3 is exercised in the stream cases)
            b.append(_mk_data(1 if o[3] == 3 else o[3], _pat(o[1], o[2])))
            out.append(snap())
        elif o[0] == "v":
            before = snap()
            try:
                b.advance(o[1])
                out.append(snap())
            except AssertionError:
                if snap() == before:
                    out.append(Tag("assert"))
                else:
                    out.append(Tag("assert2"))
                    return [out, Tag("assert2")]
        else:
            try:
                v = b.peek(o[1])
                out.append(_digest(bytes(v)))
                del v
            except AssertionError:
                out.append(Tag("assert"))
    flat = b"".join(bytes(x) for _, x in b._buffers)[b._first_pos:]
    out.append(_digest(flat))
    # second component: the final contents obtained by draining through peek/advance only
    drained = bytearray()
    while len(b):
        v = b.peek(len(b))
        n = len(v)
        drained += bytes(v)
        del v
        b.advance(n)
    return [out, _digest(bytes(drained))]


def run_impl(case):
    return _run_stream(case) if case["kind"] == "s" else _run_buf(case)


# ----------------------------------------------------------------------------------------
# Gallina rendering
# ----------------------------------------------------------------------------------------
def coq_input(case):
    if case["kind"] == "s":
        ops = []
        for o in case["ops"]:
            if o[0] == "w":
                ops.append("OWrite %s" % G.gbytes(o[2].encode("latin-1")))
            elif o[0] == "r":
                ops.append("OReady")
            elif o[0] == "x":
                ops.append("OCancel %d" % o[1])
            else:
                ops.append("OClose")
        sc = ["Block" if st == "b" else "Errno" if st == "e" else "Accept %d" % st for st in case["script"]]
        mx = "None" if case["max"] is None else "(Some %d)" % case["max"]
        cn = case.get("conn")
        cn = "None" if cn is None else "(Some %s)" % G.gbool(cn)
        return "(CStream %s %d %s %s %s)" % (cn, case["thr"], mx, G.glist(ops, "op"), G.glist(sc, "sstep"))
    ops = []
    for o in case["ops"]:
        if o[0] == "a":
            ops.append("BAppend %d%%N %d" % (o[1], o[2]))
        elif o[0] == "v":
            ops.append("BAdvance %d" % o[1])
        else:
            ops.append("BPeek %d" % o[1])
    return "(CBuf %d %s)" % (case["thr"], G.glist(ops, "bop"))


# ----------------------------------------------------------------------------------------
# independent Python oracle of the property on the implementation's trace
# ----------------------------------------------------------------------------------------
def _tag(e):
    return str(e) if isinstance(e, Tag) else str(e[0])


def py_check(case, obs):
    if case["kind"] == "b":
        ref = b""
        ops = case["ops"]
        if not (isinstance(obs, list) and len(obs) == 2 and isinstance(obs[0], list)):
            return False
        obs, drained = obs
        if len(obs) != len(ops) + 1:
            return False
        for o, r in zip(ops, obs):
            if o[0] == "a":
                ref += _pat(o[1], o[2])
                if isinstance(r, Tag) or r[0] != len(ref):
                    return False
            elif o[0] == "v":
                if 0 < o[1] <= len(ref):
                    ref = ref[o[1]:]
                    if isinstance(r, Tag) or r[0] != len(ref):
                        return False
                elif r != Tag("assert") or not isinstance(r, Tag):
                    return False
            else:
                if o[1] == 0:
                    if not isinstance(r, Tag):
                        return False
                    continue
                if isinstance(r, Tag):
                    return False
                k = r[0]
                if k > o[1] or k > len(ref) or (ref and k == 0) or r != _digest(ref[:k]):
                    return False
        return obs[-1] == _digest(ref) and drained == _digest(ref)
    if not (isinstance(obs, list) and len(obs) == 2 and isinstance(obs[0], list)):
        return False
    events, order = obs
    written = b""
    sent = b""
    wend = {}          # future id -> end offset of its data in `written`
    pending = []
    settled = []
    cancelled = set()
    queued_cancelled = set()
    is_closed = False
    ops = list(case["ops"])
    op_i = -1
    cur = None         # the op whose events we are reading
    expect_new_op = True
    last_snap = [Tag("st"), 0, 0, 0, case.get("conn") is not None, 0, []]
    wcount = 0
    after_refusal = False
    connecting = False
    for k, e in enumerate(events):
        t = _tag(e)
        if t == "connect":
            if k != 0 or case.get("conn") is None:
                return False
            connecting = True
            continue
        if k == 0 and case.get("conn") is not None:
            return False
        if t in ("connected", "connfail"):
            if not connecting:
                return False
            connecting = False
            if t == "connected" and (cur is None or cur[0] != "r" or not case["conn"]):
                return False
            if t == "connfail":
                is_closed = True
            continue
        if connecting and t in ("send", "block", "errno", "ok"):
            return False        # nothing reaches the transport before the connection is up
        if expect_new_op:
            op_i += 1
            if op_i >= len(ops):
                return False
            cur = ops[op_i]
            expect_new_op = False
            # the first event of an operation identifies it
            if cur[0] == "w":
                raw = cur[2].encode("latin-1")
                buffered = len(written) - len(sent)
                full = (not is_closed) and case["max"] is not None and len(raw) > 0 and buffered + len(raw) > case["max"]
                want = "closed" if is_closed else "full" if full else "write"
                if t != want:
                    return False
                if t == "write" and e[2] != raw:
                    return False
            elif cur[0] == "r" and t != "ready":
                return False
            elif cur[0] == "x":
                want = "cancel" if cur[1] in pending else "cancelno"
                if t != want or e[1] != cur[1]:
                    return False
            elif cur[0] == "c" and t != "close":
                return False
        if t == "write":
            if e[1] != wcount:
                return False
            wcount += 1
            written += e[2]
            wend[e[1]] = len(written)
            pending.append(e[1])
        elif t in ("full", "closed"):
            after_refusal = True
        elif t == "send":
            if len(e[2]) > e[1]:
                return False
            if written[len(sent):len(sent) + len(e[2])] != e[2]:
                return False
            sent += e[2]
        elif t == "ok":
            i = e[1]
            if i in cancelled or not pending or pending[0] != i:
                return False
            if wend[i] > len(sent) or written[:wend[i]] != sent[:wend[i]]:
                return False
            pending.pop(0)
            settled.append(i)
        elif t == "cancel":
            pending.remove(e[1])
            settled.append(e[1])
            cancelled.add(e[1])
            queued_cancelled.add(e[1])
        elif t == "cancelno":
            pass
        elif t == "skip":
            # only a cancelled, still queued future may be skipped, and only once all its bytes are out
            if e[1] not in queued_cancelled or wend[e[1]] > len(sent):
                return False
            queued_cancelled.discard(e[1])
        elif t == "fail":
            if e[1] not in pending:
                return False
            pending.remove(e[1])
            settled.append(e[1])
        elif t in ("errno", "close"):
            is_closed = True
        elif t in ("st", "st-closed"):
            if t == "st":
                if e[2] != len(written) or e[3] != len(sent) or e[1] != len(written) - len(sent):
                    return False
                if is_closed:
                    return False
                # no stuck bytes: buffered data implies we are listening for WRITE
                if e[1] > 0 and not e[4]:
                    return False
                # every future whose bytes are all out has been resolved
                if not connecting and any(wend[i] <= len(sent) for i in pending):
                    return False
            else:
                if not is_closed or pending or connecting:
                    return False
            if after_refusal and e != last_snap:
                return False
            after_refusal = False
            last_snap = e
            expect_new_op = True
        elif t in ("block", "ready"):
            pass
        else:
            return False      # assert / cancelled / weird
    if not expect_new_op or op_i != len(ops) - 1:
        return False
    return order == settled


# ----------------------------------------------------------------------------------------
# generator
# ----------------------------------------------------------------------------------------
def _payload(j, n):
    """distinct content per write so that reordering / duplication is visible"""
    return bytes((37 * j + 1 + i) % 256 for i in range(n)).decode("latin-1")


def mk_stream(thr, mx, ops, script, conn=None):
    """conn: None = already connected; True/False = connect() called first, succeeding/failing"""
    return {"kind": "s", "thr": thr, "max": mx, "ops": ops, "script": script, "conn": conn}


def mk_buf(thr, ops):
    return {"kind": "b", "thr": thr, "ops": ops}


def _rand_stream(rng, thr, nops, sizes, accepts, p_err=0.04, mx_choices=(None,)):
    ops = []
    j = 0
    for _ in range(nops):
        r = rng.random()
        if r < 0.55:
            ops.append(["w", rng.randrange(5), _payload(j, rng.choice(sizes))])
            j += 1
        elif r < 0.85:
            ops.append(["r"])
        elif r < 0.94:
            ops.append(["x", rng.randrange(0, j + 2)])     # cancel any future, also settled / not yet existing ones
        else:
            ops.append(["c"])
    script = []
    for _ in range(rng.randrange(0, 2 * nops + 2)):
        r = rng.random()
        if r < p_err:
            script.append("e")
        elif r < 0.25:
            script.append("b")
        else:
            script.append(rng.choice(accepts))
    return mk_stream(thr, rng.choice(mx_choices), ops, script, rng.choice([None, None, None, True, True, False]))


def _rand_buf(rng, thr, nops, sizes, advs):
    ops = []
    for _ in range(nops):
        r = rng.random()
        if r < 0.5:
            ops.append(["a", rng.randrange(251), rng.choice(sizes), rng.randrange(5)])
        elif r < 0.85:
            ops.append(["v", rng.choice(advs)])
        else:
            ops.append(["p", rng.choice(advs + [0, 1, 4800])])
    return mk_buf(thr, ops)


def corpus_cases():
    W = lambda j, n, k=0: ["w", k, _payload(j, n)]
    return [
        # coalescing boundary: 2047+1 fills a bytearray to the threshold, the next small write starts a new one
        mk_stream(REAL_THR, None, [W(0, 2047), W(1, 1), W(2, 1), ["r"], ["r"]], ["b", 2047, 1, "b"]),
        # a large memoryview with an offset, sent in partial pieces
        mk_stream(REAL_THR, None, [W(0, 2049, 2), ["r"], ["r"], ["r"]], [1, "b", 2047, "b", 1]),
        # max_write_buffer_size refusal leaves everything untouched
        mk_stream(4, 5, [W(0, 3), W(1, 3), W(2, 2), ["r"]], ["b", "b", 2]),
        # transport error in the middle of a drain fails the outstanding futures
        mk_stream(2, None, [W(0, 3), W(1, 1), ["r"], W(2, 1)], ["b", 3, "e"]),
        # zero-length write resolves only after the earlier bytes
        mk_stream(3, None, [W(0, 2), W(1, 0), ["r"]], ["b", 1, 0]),
        # writes queued while the connection is pending go out, in order, once it is up
        mk_stream(3, None, [W(0, 2), W(1, 0), W(2, 4), ["r"], ["r"]], [3, "b"], True),
        # a failed connect fails every queued write
        mk_stream(2, None, [W(0, 1), W(1, 3), ["r"], W(2, 1)], [], False),
        # close while connecting
        mk_stream(2, 4, [W(0, 3), W(1, 3), ["c"], ["r"]], [], True),
        # a cancelled write future: its bytes still go out in order, it is skipped, later futures resolve on time
        mk_stream(3, None, [W(0, 2), W(1, 2), W(2, 1), ["x", 1], ["r"], ["r"], ["x", 0], ["x", 7]], ["b", "b", "b", 3, "b"]),
        # cancelled, then the stream closes: only the live futures fail
        mk_stream(2, None, [W(0, 3), W(1, 1), ["x", 0], ["c"], ["x", 1]], ["b", "b"]),
        mk_buf(REAL_THR, [["a", 0, 2048, 0], ["a", 5, 1, 0], ["v", 2048], ["p", 10], ["a", 9, 2049, 1], ["v", 2]]),
        mk_buf(2, [["a", 0, 1, 0], ["a", 1, 1, 0], ["a", 2, 1, 0], ["v", 1], ["v", 5], ["p", 0], ["p", 9]]),
    ]


def gen_cases(rng, tier):
    out = []
    quick = tier != "thorough"
    # --- streams, small thresholds (tiny literals, many cases) ---
    for _ in range(900 if quick else 3000):
        thr = rng.choice([1, 2, 3, 4])
        out.append(_rand_stream(rng, thr, rng.randrange(1, 9), list(range(0, thr + 3)) + [2 * thr + 1],
                                [0, 1, 1, 2, 2, 3, thr, thr + 1, 50], mx_choices=(None, None, thr, thr + 2, 3 * thr, 0)))
    # --- streams, the real 2 KiB threshold ---
    sizes = [0, 1, 1, 2, 100, 2047, 2047, 2048, 2048, 2049, 2049, 4096, 4097]
    accepts = [0, 1, 2, 100, 2046, 2047, 2048, 2049, 4096, 4800]
    for _ in range(90 if quick else 300):
        out.append(_rand_stream(rng, REAL_THR, rng.randrange(1, 7), sizes, accepts,
                                mx_choices=(None, None, 2048, 4096, 6000)))
    # --- buffer driven directly ---
    for _ in range(250 if quick else 1000):
        thr = rng.choice([1, 2, 3])
        out.append(_rand_buf(rng, thr, rng.randrange(1, 10), list(range(0, thr + 3)), [1, 1, 2, 3, thr + 1, 7]))
    for _ in range(250 if quick else 600):
        out.append(_rand_buf(rng, REAL_THR, rng.randrange(1, 9), [0, 1, 1, 2047, 2048, 2049, 2049, 4500],
                             [1, 2, 2046, 2047, 2048, 2049, 2050, 4096, 4097]))
    if not quick:
        # exhaustive: _StreamBuffer operation sequences of length <= 5 (plus a quarter of length 6) at threshold 2 over sizes {1, 2, 3}
        # (the same three regimes: below, at, above the threshold), and at the real 2048 threshold over sizes
        # {1, 2048, 2049}: all sequences of length <= 4, a quarter of length 5, 4% of length 6 (CPU budget:
        # one real-threshold case costs ~0.5 s of vm_compute)
        for thr, sizes, advs in ((2, (1, 2, 3), (1, 2, 3)), (REAL_THR, (1, 2048, 2049), (1, 2048, 2049))):
            alpha = [["a", 3, sizes[0], 0], ["a", 7, sizes[1], 0], ["a", 11, sizes[2], 1],
                     ["v", advs[0]], ["v", advs[1]], ["v", advs[2]]]
            for n in range(1, 7):
                for seq in itertools.product(range(len(alpha)), repeat=n):
                    # an advance on an empty buffer as the very first op only repeats shorter sequences
                    if alpha[seq[0]][0] == "v":
                        continue
                    if thr == REAL_THR and ((n == 5 and rng.random() >= 0.25) or (n == 6 and rng.random() >= 0.04)):
                        continue
                    if thr != REAL_THR and n == 6 and rng.random() >= 0.25:
                        continue
                    out.append(mk_buf(thr, [list(alpha[i]) for i in seq] + [["p", 4800]]))
        # exhaustive: stream operation sequences of length <= 4 at threshold 2, all short send scripts
        salpha = ["w1", "w2", "w3", "r", "c", "x0", "x1"]
        steps = [1, 2, "b", "e"]
        scripts = [[]]
        for n in range(1, 4):
            scripts += [list(s) for s in itertools.product(steps, repeat=n)]
        for conn in (None, True, False):
            for n in range(1, 5):
                for seq in itertools.product(salpha, repeat=n):
                    if conn is None and seq[0][0] != "w":
                        continue
                    for sc in scripts:
                        lim = (3 if n < 4 else 2) if conn is None else (2 if n < 4 else 1)
                        if len(sc) > lim:
                            continue
                        ops = []
                        j = 0
                        for a in seq:
                            if a[0] == "w":
                                ops.append(["w", j % 2, _payload(j, int(a[1]))])
                                j += 1
                            elif a[0] == "x":
                                ops.append(["x", int(a[1])])
                            else:
                                ops.append([a])
                        out.append(mk_stream(2, None, ops, sc, conn))
    rng.shuffle(out)     # spread the cases with large literals over the coqc shards
    return out


EXHAUSTIVE = {"quick": False, "thorough": False}


def nontrivial(case, obs):
    if case["kind"] == "s":
        if not any(o[0] == "w" and o[2] for o in case["ops"]):
            return None
    elif not any(o[0] == "a" and o[2] for o in case["ops"]):
        return None
    return G.jsonable(case)


def classify(case, obs):
    yield "kind=" + ("stream" if case["kind"] == "s" else "buffer")
    yield "thr=" + ("2048" if case["thr"] == REAL_THR else "small")
    if case["kind"] == "s":
        evs = obs[0] if isinstance(obs, list) and obs and isinstance(obs[0], list) else []
        tags = [_tag(e) for e in evs]
        sends = [e for e in evs if _tag(e) == "send"]
        yield "partial-send=" + str(any(len(e[2]) < e[1] for e in sends))
        yield "blocked=" + str("block" in tags)
        yield "errno=" + str("errno" in tags)
        yield "refused=" + str("full" in tags)
        yield "closed-by-user=" + str("close" in tags)
        yield "futures-failed=" + str("fail" in tags)
        yield "memoryview-write=" + str(any(o[0] == "w" and o[1] for o in case["ops"]))
        yield "writes=%d" % sum(1 for o in case["ops"] if o[0] == "w")
        yield "cancelled=" + str("cancel" in tags) + " skipped=" + str("skip" in tags)
        yield "connect=" + ("none" if case.get("conn") is None else "ok" if case["conn"] else "refused")
        yield "connected-with-queued-writes=" + str("connected" in tags and "write" in tags[:tags.index("connected")])
    else:
        yield "ops=%d" % len(case["ops"])
        yield "assert=" + str(any(isinstance(r, Tag) for r in obs[0]))


def signature(case, obs):
    if case["kind"] == "b":
        return "streambuffer"
    evs = obs[0] if isinstance(obs, list) and obs and isinstance(obs[0], list) else []
    tags = set(_tag(e) for e in evs)
    if "assert" in tags:
        return "assert-escaped"
    return "stream-trace"


def shrink(case):
    ops = case["ops"]
    for i in range(len(ops)):
        yield dict(case, ops=ops[:i] + ops[i + 1:])
    if case["kind"] == "s":
        sc = case["script"]
        for i in range(len(sc)):
            yield dict(case, script=sc[:i] + sc[i + 1:])
        for i, o in enumerate(ops):
            if o[0] == "w" and len(o[2]) > 0:
                yield dict(case, ops=ops[:i] + [[o[0], o[1], o[2][: len(o[2]) // 2]]] + ops[i + 1:])
                yield dict(case, ops=ops[:i] + [[o[0], 0, o[2]]] + ops[i + 1:])
        if case["max"] is not None:
            yield dict(case, max=None)
        if case.get("conn") is not None:
            yield dict(case, conn=None)
    else:
        for i, o in enumerate(ops):
            if o[0] == "a" and o[2] > 1:
                yield dict(case, ops=ops[:i] + [[o[0], o[1], o[2] - 1, 0]] + ops[i + 1:])


RULE = ("random operation sequences (write of bytes/memoryview flavours, WRITE-ready, close) x random send scripts "
        "(accept k / EWOULDBLOCK / OSError) at thresholds 1..4 and at the real 2048 threshold with sizes around 2047/2048/2049; "
        "random and (thorough) exhaustive _StreamBuffer append/advance/peek sequences; distinct by canonical JSON of the input; "
        "non-trivial = at least one non-empty write/append")
TRUSTED_BASE = [
    "harness/fake_iostream.py scripted transport and the event recorder in harness/props/c12.py (polls future.done() at every "
    "write_to_fd call and after every operation; done-callback order is compared as well)",
    "_large_buf_threshold is overridden per instance for the small-threshold cases (the theorems hold for every threshold; "
    "the real value 2048 is exercised separately)",
    "memoryview/bytes distinction, bytearray aliasing and CPython buffer-export rules are outside the model (payloads are byte lists)",
]
ASSUMPTIONS = [
    "connect() is called at most once, before any other operation",
    "write_to_fd returns 0 <= n <= len(view) (the scripted transport clamps)",
]
LEVEL_TEXT = ("Machine-checked (Coq) proofs over an executable model of _StreamBuffer and of BaseIOStream.write/_handle_write/close: "
              "_StreamBuffer refines a plain byte string (append/peek/advance, any threshold); for every sequence of writes, "
              "WRITE-ready events and closes and every transport script (partial sends, EWOULDBLOCK, errors) the trace satisfies "
              "the property checker: the transport is handed exactly the next unsent bytes of the concatenated writes, a future "
              "resolves only after all bytes up to and including its own were accepted, futures resolve oldest-first, refused writes "
              "leave the state untouched, buffered = written - sent; writes issued while a connect() is pending reach the transport only "
              "after the connection is up; from any reachable state the stream is closed or fully drained after |script|+1 WRITE-ready "
              "events. The model is tied to the code by replaying every generated case "
              "on the real classes and comparing full traces including internal buffer layout.")
LEVEL_NOTE = ("Trusted: Coq kernel/vm_compute; the hand-written model (tied by trace correspondence only); scripted transport and "
              "scripted socket under the real IOStream.connect/_handle_connect; SSL and real sockets are not modelled.")
TECHNIQUE = "Coq proof (data refinement + trace invariant by induction over operations) + differential trace correspondence via vm_compute"
