"""C33 — Semaphore / BoundedSemaphore / Lock: grants, queue order, timeouts, cancellation.

A case is {"kind": "sem"|"bounded"|"lock", "init": int, "ops": [...]} with ops
  ["A", timed]   acquire (timed=1: with a deadline)     ["R"] release
  ["F", w]       the timer of acquire number w fires    ["C", w] cancel the future of acquire w
  ["D"]          end of an event-loop iteration: queued done-callbacks run
Every op is run by the REAL asyncio/tornado loop as a timer callback under a
virtual clock; the ops between two ["D"] run inside ONE loop iteration, in the
listed order (so a timer may fire after its waiter was resolved but before the
waiter's remove_timeout callback ran), and ["D"] is the iteration boundary.
"""
import asyncio

from harness import gallina as G
from harness.gallina import Tag
from harness.vclock import run_virtual

ID = "C33"
COQ_DIRS = ["C33"]
PROPERTY_FILE = "C33/Property.v"
RUN_IMPORTS = "From TV Require Import C33.Model C33.Run."
RUN_FN = "run_case"
CHECK_FN = "check_case"
INPUT_TYPE = "(kind * Z * list op)"

BASE = 1000000.0
Q = 2000.0          # one loop iteration ("segment") per Q units of virtual time
FAR = BASE + 5.0e7  # deadline of timers that never fire inside the scenario


# ----------------------------------------------------------------------------
# the scheduling engine (shared with C34)
# ----------------------------------------------------------------------------
def segments(ops):
    """[(segment index, slot index)] for each op; a "D" closes its segment."""
    pos, k, j = [], 0, 0
    for o in ops:
        if o[0] == "D":
            pos.append((k, None))
            k, j = k + 1, 0
        else:
            pos.append((k, j))
            j += 1
    return pos, k + 1


def slot_time(k, j):
    return BASE + k * Q + 2 * j + 1


def is_zero(o):
    """creation op whose timeout is falsy but not None: 0, 0.0, timedelta(0)"""
    return len(o) > 1 and o[1] >= 3


def timeout_value(form, deadline, now):
    """The Python object passed as `timeout` for form 0..5 (C33.Model.tmo)."""
    import datetime
    if form == 0:
        return None
    if form == 1:
        return deadline                                         # absolute time
    if form == 2:
        return datetime.timedelta(seconds=deadline - now)       # relative
    return {3: 0, 4: 0.0, 5: datetime.timedelta(0)}[form]


def creation_index(ops, creates):
    out, w = {}, 0
    for i, o in enumerate(ops):
        if creates(o):
            out[w] = i
            w += 1
    return out


def deadlines(ops, creates):
    """creation op index -> absolute deadline of the timer created by that op: the slot of
    the first ["F", w] after it (normalize guarantees it is in a LATER loop iteration - a
    timer never fires in the iteration that created it - and, for a zero timeout, in the
    iteration immediately following), FAR if there is none."""
    pos, _ = segments(ops)
    out = {}
    for w, i in creation_index(ops, creates).items():
        d = FAR
        for i2 in range(i + 1, len(ops)):
            if ops[i2][0] == "F" and ops[i2][1] == w:
                assert pos[i2][0] > pos[i][0]
                d = slot_time(*pos[i2])
                break
        out[i] = d
    return out


def normalize(ops, creates):
    """Make a schedule realisable on a real loop:
    * a timer cannot fire in the iteration that created it: ["F", w] ops between the creation
      of w and the next ["D"] are dropped;
    * a ZERO timeout (0, 0.0, timedelta(0)) is due at once, so its timer fires in the very next
      iteration: other ["F", w] ops for it are dropped and, if that iteration exists and has
      none, one is inserted right after the ["D"]."""
    ops = [list(o) for o in ops]
    pos, _ = segments(ops)
    ci = creation_index(ops, creates)
    drop = set()
    insert = {}      # index of a "D" op -> [F ops to insert after it]
    for w, i in ci.items():
        seg = pos[i][0]
        fs = [i2 for i2 in range(i + 1, len(ops)) if ops[i2][0] == "F" and ops[i2][1] == w]
        if is_zero(ops[i]):
            keep = [i2 for i2 in fs if pos[i2][0] == seg + 1][:1]
            drop.update(i2 for i2 in fs if i2 not in keep)
            if not keep:
                ds = [i2 for i2 in range(i + 1, len(ops)) if ops[i2][0] == "D"]
                if ds:
                    insert.setdefault(ds[0], []).append(["F", w])
        else:
            drop.update(i2 for i2 in fs if pos[i2][0] == seg)
    out = []
    for i, o in enumerate(ops):
        if i not in drop:
            out.append(o)
        out.extend(insert.get(i, []))
    return out


def well_formed(ops, creates):
    return normalize(ops, creates) == [list(o) for o in ops]


CURRENT = {}


def make_timeout(i, o, dl):
    """(timeout object, restore) for creation op i.  A zero timeout is due 'now': while the call
    is made the virtual clock stands at the planned expiry slot (for the numeric forms 0 / 0.0,
    which are ABSOLUTE times on tornado's clock, that clock - time.time - reads 0 meanwhile), so
    the timer is due at once and runs at its slot in the next loop iteration."""
    import time as _t
    loop = CURRENT["loop"]
    form = o[1]
    if form >= 3:
        saved, saved_t = loop.vnow, _t.time
        loop.vnow = dl[i]
        if form in (3, 4):
            _t.time = lambda: 0.0

        def restore():
            loop.vnow = saved
            _t.time = saved_t
        return timeout_value(form, dl[i], loop.vnow), restore
    return timeout_value(form, dl[i], loop.vnow), (lambda: None)


def drive(ops, do_op, scan, final):
    """Run the ops on a fresh virtual-clock loop.  do_op(i, op) runs op i (not for
    F/D: those are performed by the loop itself), scan(i) is called right after
    op i (same iteration), final() after the last op.  Returns final()."""
    pos, nseg = segments(ops)

    async def scenario(loop):
        CURRENT["loop"] = loop
        finished = loop.create_future()
        box = {}

        def end_segment(k):
            if k + 1 < nseg:
                loop.vnow = BASE + (k + 1) * Q + Q - 1   # next iteration: all of segment k+1 is due
            else:
                try:
                    box["r"] = final()
                except BaseException as e:  # noqa
                    box["e"] = e
                finished.set_result(None)

        def mk(i, o):
            def f():
                if o[0] not in ("F", "D"):
                    do_op(i, o)
            return f

        for i, o in enumerate(ops):
            k, j = pos[i]
            if j is None:
                continue
            loop.call_at(slot_time(k, j), mk(i, o))
            loop.call_at(slot_time(k, j) + 0.5, scan, i)
        for i, o in enumerate(ops):
            if o[0] == "D":
                loop.call_at(BASE + (pos[i][0] + 1) * Q + 0.5, scan, i)   # after the callbacks of the next iteration ran
        for k in range(nseg):
            loop.call_at(BASE + k * Q + Q - 1, end_segment, k)
        loop.vnow = BASE + Q - 1
        await finished
        if "e" in box:
            raise box["e"]
        return box["r"]

    return run_virtual(scenario, start=BASE)


# ----------------------------------------------------------------------------
# implementation runner
# ----------------------------------------------------------------------------
def _creates(o):
    return o[0] == "A"


def fut_state(f):
    if not f.done():
        return "pending"
    if f.cancelled():
        return "cancelled"
    if f.exception() is not None:
        return "timedout" if isinstance(f.exception(), asyncio.TimeoutError) else "error"
    return "granted"


def run_impl(case):
    from tornado import locks
    kind, init, ops = case["kind"], case["init"], case["ops"]
    assert well_formed(ops, _creates), "case not realisable"
    try:
        if kind == "sem":
            obj = locks.Semaphore(init)
        elif kind == "bounded":
            obj = locks.BoundedSemaphore(init)
        else:
            obj = locks.Lock()
    except ValueError:
        return Tag("ValueError")
    sem = obj._block if kind == "lock" else obj
    dl = deadlines(ops, _creates)
    futs, seen = [], []
    results = [None] * len(ops)
    snaps = [None] * len(ops)
    log = []

    def do_op(i, o):
        try:
            do_op1(i, o)
        except Exception as e:              # only release may raise, and that is handled in do_op1
            results[i] = Tag("raised-" + type(e).__name__)

    def do_op1(i, o):
        if o[0] == "A":
            tv, restore = make_timeout(i, o, dl)
            try:
                f = obj.acquire(tv)
            finally:
                restore()
            futs.append(f)
            seen.append(False)
            results[i] = Tag("granted") if f.done() else Tag("queued")
        elif o[0] == "R":
            try:
                obj.release()
                results[i] = "released"
            except ValueError:
                results[i] = Tag("ValueError")
            except RuntimeError:
                results[i] = Tag("RuntimeError")
        elif o[0] == "C":
            if o[1] < len(futs):
                results[i] = bool(futs[o[1]].cancel())

    def scan(i):
        new = []
        for w, f in enumerate(futs):
            if f.done() and not seen[w]:
                seen[w] = True
                new.append(w)
                log.append([w, Tag(fut_state(f))])
        o = ops[i]
        if o[0] == "R" and results[i] == "released":
            assert len(new) <= 1
            results[i] = [Tag("released"), new[0] if new else None]
        elif o[0] == "F":
            assert len(new) <= 1
            results[i] = Tag("timedout") if new else None
            if new:
                assert new[0] == o[1] and fut_state(futs[o[1]]) == "timedout"
        elif o[0] == "A":
            assert new == ([len(futs) - 1] if results[i] == "granted" else [])
        else:
            assert len(new) <= (1 if o[0] == "C" and results[i] is True else 0)
        snaps[i] = [results[i], sem._value, len(sem._waiters), sem._timeouts]

    def final():
        ids = {id(f): w for w, f in enumerate(futs)}
        return [snaps, log, [Tag(fut_state(f)) for f in futs], [ids[id(f)] for f in sem._waiters]]

    return drive(ops, do_op, scan, final)


# ----------------------------------------------------------------------------
# Gallina rendering
# ----------------------------------------------------------------------------
KIND = {"sem": "KSem", "bounded": "KBounded", "lock": "KLock"}
TMO = ["TNone", "TAbs", "TDelta", "TZeroInt", "TZeroFloat", "TZeroDelta"]


def gop(o):
    if o[0] == "A":
        return "Acquire %s" % TMO[o[1]]
    if o[0] == "R":
        return "Release"
    if o[0] == "F":
        return "Fire %d" % o[1]
    if o[0] == "C":
        return "Cancel %d" % o[1]
    return "Drain"


def coq_input(case):
    return "(%s, %s, %s)" % (KIND[case["kind"]], G.gz(case["init"]), G.glist([gop(o) for o in case["ops"]], "op"))


# ----------------------------------------------------------------------------
# independent Python oracle: the sequential reference (value, FIFO of live waiters)
# ----------------------------------------------------------------------------
def reference(case):
    kind, init, ops = case["kind"], case["init"], case["ops"]
    if kind == "lock":
        init = 1
    if init < 0:
        return None
    value, queue, nxt = init, [], 0      # queue: [(id, timed)]
    state = []
    res, vals, log = [], [], []
    for o in ops:
        r = None
        if o[0] == "A":
            if value > 0:
                value -= 1
                state.append("granted")
                log.append([nxt, "granted"])
                r = "granted"
            else:
                queue.append((nxt, bool(o[1])))
                state.append("pending")
                r = "queued"
            nxt += 1
        elif o[0] == "R":
            if kind != "sem" and value >= init:
                r = "ValueError" if kind == "bounded" else "RuntimeError"
            elif queue:
                w, _ = queue.pop(0)
                state[w] = "granted"
                log.append([w, "granted"])
                r = ["released", w]
            else:
                value += 1
                r = ["released", None]
        elif o[0] == "F":
            w = o[1]
            if (w, True) in queue:
                queue.remove((w, True))
                state[w] = "timedout"
                log.append([w, "timedout"])
                r = "timedout"
        elif o[0] == "C":
            w = o[1]
            if w < nxt:
                hit = [q for q in queue if q[0] == w]
                if hit:
                    queue.remove(hit[0])
                    state[w] = "cancelled"
                    log.append([w, "cancelled"])
                r = bool(hit)
        res.append(r)
        vals.append(value)
    return res, vals, log, state


def _plain(v):
    if isinstance(v, list):
        return [_plain(x) for x in v]
    if isinstance(v, Tag):
        return str(v)
    return v


def py_check(case, o):
    ref = reference(case)
    if ref is None:
        return isinstance(o, Tag) and o == "ValueError"
    if not isinstance(o, list) or len(o) != 4:
        return False
    snaps, log, finals, waiters = _plain(o)
    res, vals, rlog, state = ref
    if [s[0] for s in snaps] != res or [s[1] for s in snaps] != vals or log != rlog or finals != state:
        return False
    # direct statements of the property on the implementation's observable
    init = 1 if case["kind"] == "lock" else case["init"]
    granted = released = 0
    order = []
    for (r, v, _, _), op in zip(snaps, case["ops"]):
        if r == "granted" or (isinstance(r, list) and r[1] is not None):
            granted += 1
        if isinstance(r, list):
            released += 1
        if v < 0 or granted - released != init - v:
            return False
    order = [w for w, s in log if s == "granted"]
    if order != sorted(order) or len(set(w for w, _ in log)) != len(log):
        return False
    return True


# ----------------------------------------------------------------------------
# generator
# ----------------------------------------------------------------------------
def mk(kind, init, ops):
    return {"kind": kind, "init": init, "ops": normalize(ops, _creates)}


def corpus_cases():
    gc = [["A", 0]] + [["A", 1]] * 103 + [["D"]] + [["F", w] for w in range(1, 102)] + [["D"], ["R"], ["F", 102], ["F", 103], ["R"], ["R"]]
    gc2 = [["A", 1]] * 104 + [["C", 3], ["D"]] + [["F", w] for w in range(0, 100)] + [["R"], ["F", 100], ["F", 101], ["D"], ["F", 102], ["R"], ["R"]]
    return [
        mk("sem", 1, [["A", 0], ["A", 1], ["A", 0], ["D"], ["F", 1], ["R"], ["R"]]),
        mk("sem", 0, [["A", 1], ["D"], ["R"], ["F", 0], ["A", 0], ["R"]]),              # timer fires after the grant, same iteration
        mk("sem", 0, [["A", 1], ["A", 0], ["C", 0], ["R"], ["D"], ["F", 0], ["R"]]),
        mk("bounded", 2, [["R"], ["A", 0], ["R"], ["R"]]),
        mk("bounded", 0, [["R"], ["A", 0], ["R"]]),
        mk("lock", 1, [["R"], ["A", 0], ["A", 1], ["A", 0], ["C", 2], ["D"], ["F", 1], ["R"], ["R"]]),
        # zero timeouts (0, 0.0, timedelta(0)) are deadlines, not "no timeout": they expire at the next iteration
        mk("sem", 0, [["A", 0], ["A", 5], ["A", 0], ["D"], ["R"], ["R"], ["R"]]),
        mk("lock", 1, [["A", 3], ["A", 3], ["A", 4], ["A", 2], ["D"], ["R"], ["D"], ["R"]]),
        mk("bounded", 1, [["A", 0], ["A", 4], ["R"], ["D"], ["A", 5], ["A", 1], ["D"], ["F", 3], ["R"]]),
        mk("sem", -1, []), mk("bounded", -3, [["R"]]), mk("lock", -1, [["A", 0], ["R"], ["R"]]),
        mk("sem", 0, gc), mk("lock", 1, gc), mk("bounded", 1, gc2),
    ]


ALPH_W = 4
TMO_MIX = [0, 0, 0, 1, 1, 2, 2, 3, 4, 5]     # None / absolute / timedelta / 0 / 0.0 / timedelta(0)


def random_ops(rng, n, p_fire=0.2):
    ops, nw = [], 0
    for _ in range(n):
        x = rng.random()
        if x < 0.30 or nw == 0 and x < 0.6:
            ops.append(["A", rng.choice(TMO_MIX)])
            nw += 1
        elif x < 0.52:
            ops.append(["R"])
        elif x < 0.52 + p_fire:
            ops.append(["F", rng.randrange(max(nw, 1)) if rng.random() < 0.93 else nw + rng.randrange(2)])
        elif x < 0.84:
            ops.append(["C", rng.randrange(max(nw, 1)) if rng.random() < 0.93 else nw + rng.randrange(2)])
        else:
            ops.append(["D"])
    return ops


def enum_raw(n, max_w, base, create):
    """All op lists of length n over base ops + create(None | deadline | zero timeout) + F/C on existing ids."""
    def rec(prefix, nw, left):
        if left == 0:
            yield list(prefix)
            return
        alph = list(base) + [["D"]]
        if nw < max_w:
            alph += [[create, 0], [create, 1 + len(prefix) % 2], [create, 3 + len(prefix) % 3]]
        for w in range(nw):
            alph += [["F", w], ["C", w]]
        for o in alph:
            prefix.append(o)
            yield from rec(prefix, nw + (1 if o[0] == create else 0), left - 1)
            prefix.pop()
    yield from rec([], 0, n)


def enum_norm(n, max_w, base, create, creates):
    """enum_raw made realisable (normalize) and de-duplicated."""
    seen = set()
    for ops in enum_raw(n, max_w, base, create):
        ops = normalize(ops, creates)
        key = tuple(tuple(o) for o in ops)
        if key not in seen:
            seen.add(key)
            yield ops


def enum_ops(n, max_w):
    return enum_norm(n, max_w, [["R"]], "A", _creates)


CONFIGS = [("sem", 0), ("sem", 1), ("sem", 2), ("bounded", 0), ("bounded", 1), ("bounded", 2), ("bounded", 3), ("lock", 1)]


def gen_cases(rng, tier):
    out = []
    if tier == "quick":
        for n in range(0, 4):                       # exhaustive tiny scope
            for ops in enum_ops(n, 2):
                for kind, init in (("sem", 1), ("bounded", 1), ("lock", 1)) if n == 3 else CONFIGS:
                    out.append(mk(kind, init, ops))
        for _ in range(700):
            kind, init = rng.choice(CONFIGS)
            out.append(mk(kind, init, random_ops(rng, rng.randrange(4, 13))))
        for _ in range(60):
            kind, init = rng.choice(CONFIGS)
            out.append(mk(kind, init, random_ops(rng, rng.randrange(13, 30), p_fire=0.25)))
    else:
        for n in range(0, 5):
            for ops in enum_ops(n, 3):
                for kind, init in ((("sem", 0), ("bounded", 1), ("lock", 1), ("bounded", 2)) if n == 4 else CONFIGS):
                    out.append(mk(kind, init, ops))
        for ops in enum_ops(5, 2):
            out.append(mk("lock", 1, ops))
        for _ in range(1500):
            kind, init = rng.choice(CONFIGS)
            out.append(mk(kind, init, random_ops(rng, rng.randrange(5, 13))))
        for _ in range(250):
            kind, init = rng.choice(CONFIGS)
            out.append(mk(kind, init, random_ops(rng, rng.randrange(13, 40), p_fire=0.25)))
    # garbage collection (the 101st executed on_timeout rebuilds the deque): long structured cases
    for k in range(3 if tier == "quick" else 8):
        kind, init = rng.choice(CONFIGS)
        n = 101 + rng.randrange(0, 6)
        ops = [["A", 0]] * init + [["A", 1]] * n
        for _ in range(rng.randrange(0, 5)):
            ops.append(["C", rng.randrange(n + init)])
        ops.append(["D"])
        fire = list(range(init, init + n))
        rng.shuffle(fire)
        cut = rng.randrange(95, n + 1)
        for idx, w in enumerate(fire):
            if idx == cut:
                ops += [["R"], ["D"]] if rng.random() < 0.5 else [["R"]]
            ops.append(["F", w])
        ops += random_ops(rng, 6)
        out.append(mk(kind, init, ops))
    return out


def nontrivial(case, o):
    if not isinstance(o, list):
        return ("ctor", case["kind"], case["init"])
    if not case["ops"]:
        return None
    return (case["kind"], case["init"], tuple(tuple(x) for x in case["ops"]))


def classify(case, o):
    yield "kind=" + case["kind"]
    n = len(case["ops"])
    yield "len=" + ("0-3" if n < 4 else "4-7" if n < 8 else "8-12" if n < 13 else "13-40" if n <= 40 else "long(gc)")
    if isinstance(o, list):
        states = set(str(s) for s in o[2])
        for s in sorted(states):
            yield "has-" + s
        if any(str(s[0]) in ("ValueError", "RuntimeError") for s in o[0]):
            yield "release-error"
        if any(s[0] is None and op[0] == "F" for s, op in zip(o[0], case["ops"])):
            yield "fire-noop"
        if len(o[3]) > sum(1 for s in o[2] if str(s) == "pending"):
            yield "dead-entries-in-deque"
        if len(case["ops"]) > 100 and o[0] and any(a[3] > b[3] for a, b in zip(o[0], o[0][1:])):
            yield "gc-ran"


def signature(case, o):
    return "%s:%s" % (case["kind"], "ctor" if not isinstance(o, list) else "trace")


def shrink(case):
    ops = case["ops"]
    for i in range(len(ops)):
        cand = ops[:i] + ops[i + 1:]
        if ops[i][0] == "A":
            continue     # removing an acquire renumbers the waiters
        yield mk(case["kind"], case["init"], cand)
    if ops:
        yield mk(case["kind"], case["init"], ops[:-1])


EXHAUSTIVE = {"quick": False, "thorough": False}
TRUSTED_BASE = [
    "harness/props/c33.py scheduling engine: every op is a timer callback on the real asyncio loop under a virtual clock; ops between two Drain markers "
    "run in one loop iteration in the listed order, Drain = iteration boundary (done-callbacks run).  The model's Drain/Fire semantics are tied to "
    "asyncio's _run_once only through this correspondence",
    "asyncio.Future semantics (set_result/set_exception/cancel/done, done-callbacks via call_soon) are modelled by a 4-state future + 'timer armed' flag",
]
ASSUMPTIONS = [
    "a timer never fires in the loop iteration that created it (asyncio collects due timers before running callbacks); the generator only emits such schedules, the theorems hold for all op lists",
    "one Semaphore/Lock object, all calls from the loop thread (tornado.locks is documented as not thread-safe)",
]
RULE = ("op lists over {acquire timed/untimed, release, fire timer w, cancel w, drain}: exhaustive for tiny lengths, random lengths 4-40 over "
        "Semaphore(0..2)/BoundedSemaphore(0..3)/Lock, long structured cases that trigger _garbage_collect, negative initial values; distinct by (kind, init, ops)")
LEVEL_TEXT = ("Machine-checked (Coq) refinement proof: for every operation list (acquire with/without timeout, release, timer expiry, cancellation, loop-iteration "
              "boundary) the executable model of tornado.locks.Semaphore/BoundedSemaphore/Lock (deque with dead entries, _garbage_collect, armed timers) produces the same "
              "trace as the sequential specification (counter + FIFO of live waiters); invariants proved for all reachable states: value >= 0, granted-unreleased = "
              "initial - value, value > 0 implies no pending waiter, grants in arrival order, resolved futures are terminal, over-release raises.  The model is compared "
              "with the real classes running on the real asyncio loop under a virtual clock on every generated schedule.")
LEVEL_NOTE = "Trusted: Coq kernel/vm_compute; the schedule-driving harness; the 4-state abstraction of asyncio.Future."
TECHNIQUE = "Coq proof (simulation/refinement + inductive invariants over op lists) + differential correspondence of traces via vm_compute"
